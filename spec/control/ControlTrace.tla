---------------------------- MODULE ControlTrace ----------------------------
(* Trace validation of concurrent use of one control region (C05, schedules).
   Each goroutine of the harness acts for one subject and logs a "call" event before and
   a "ret" event (with the real results) after every Controller/Gate call; events carry a
   global sequence number taken with an atomic counter, so the file order is consistent
   with real time. A call takes effect at a silent linearization step somewhere between
   its two events (the real code applies it under region.Lock). The trace is accepted
   iff the cursor reaches its end: every real result is explained by Control.tla.
   Many traces are concatenated, separated by "reset" events.                        *)
EXTENDS Control, Json, TLC
VARIABLES l,      \* cursor into Trace
          pend    \* [Subject -> pending call record or NoCall]
tvars == <<vars, l, pend>>
Trace == ndJsonDeserialize("trace.ndjson")
NoCall == [op |-> "none", auth |-> 0, eu |-> FALSE, done |-> FALSE, xfer |-> NoXfer, err |-> "nil", ok |-> FALSE]
ASSUME TLCSet(1, 0)

TInit == Init /\ l = 1 /\ pend = [s \in Subject |-> NoCall]
Ev == Trace[l]
More == l <= Len(Trace)

TReset == /\ More /\ Ev.ev = "reset"
          /\ \A s \in Subject : pend[s].op = "none"
          /\ gates' = [s \in Subject |-> [open |-> FALSE, auth |-> 0, pos |-> 0]]
          /\ curr' = "none" /\ counter' = 0 /\ xfer' = NoXfer /\ err' = "nil" /\ reported' = NoSt
          /\ l' = l + 1 /\ UNCHANGED pend

TCall == /\ More /\ Ev.ev = "call"
         /\ pend[Ev.s].op = "none"
         /\ pend' = [pend EXCEPT ![Ev.s] = [NoCall EXCEPT !.op = Ev.op, !.auth = Ev.auth, !.eu = Ev.eu]]
         /\ l' = l + 1 /\ UNCHANGED vars

\* silent linearization of subject s's pending call
TLin(s) ==
  /\ pend[s].op # "none" /\ ~pend[s].done
  /\ \/ /\ pend[s].op = "open"
        /\ (OpenGate(s, pend[s].auth, pend[s].eu) \/ OpenDuplicate(s, pend[s].auth))
        /\ pend' = [pend EXCEPT ![s].done = TRUE, ![s].xfer = xfer', ![s].err = err']
     \/ /\ pend[s].op = "set" /\ SetAuthority(s, pend[s].auth)
        /\ pend' = [pend EXCEPT ![s].done = TRUE, ![s].xfer = xfer', ![s].err = err']
     \/ /\ pend[s].op = "release" /\ Release(s)
        /\ pend' = [pend EXCEPT ![s].done = TRUE, ![s].xfer = xfer', ![s].err = err']
     \/ /\ pend[s].op = "authorize"
        /\ pend' = [pend EXCEPT ![s].done = TRUE, ![s].ok = Authorized(s)]
        /\ UNCHANGED vars
  /\ UNCHANGED l

Norm(t) == IF t.from = t.to THEN NoXfer ELSE t
TRet == /\ More /\ Ev.ev = "ret"
        /\ pend[Ev.s].done /\ pend[Ev.s].op = Ev.op
        /\ IF Ev.op = "authorize"
           THEN pend[Ev.s].ok = Ev.ok
           ELSE /\ pend[Ev.s].err = Ev.err
                /\ Norm(pend[Ev.s].xfer) = Norm(Ev.xfer)
        /\ pend' = [pend EXCEPT ![Ev.s] = NoCall]
        /\ l' = l + 1 /\ UNCHANGED vars

TNext == TReset \/ TCall \/ TRet \/ \E s \in Subject : TLin(s)
TSpec == TInit /\ [][TNext]_tvars

\* high-water mark of the cursor (register 1), updated from a constraint
HW == TLCSet(1, IF l > TLCGet(1) THEN l ELSE TLCGet(1))
TraceAccepted == IF TLCGet(1) = Len(Trace) + 1 THEN TRUE ELSE PrintT(<<"HWM", TLCGet(1), Len(Trace)>>) /\ FALSE
=============================================================================
