---- MODULE ControlRegionsGen ----
(* ControlRegions + history variable: every behaviour of length Depth as JSON. *)
EXTENDS ControlRegions, Json
CONSTANT Depth
VARIABLE hist
Rec(a, s, au, lo, hi) == [a |-> a, s |-> s, auth |-> au, eu |-> FALSE, lo |-> lo, hi |-> hi,
                          xfer |-> xfer', err |-> err', curr |-> "",
                          authz |-> [x \in Subject |-> Authorized(x)'],
                          open |-> [x \in Subject |-> gates'[x].open]]
GNext == /\ Len(hist) < Depth
         /\ \E s \in Subject :
              \/ \E a \in Auth, rg \in Ranges :
                   OpenGate(s, a, rg[1], rg[2]) /\ hist' = Append(hist, Rec("open", s, a, rg[1], rg[2]))
              \/ (Release(s) /\ hist' = Append(hist, Rec("release", s, 0, 0, 0)))
GInit == Init /\ hist = <<>>
GSpec == GInit /\ [][GNext]_<<vars, hist>>
Emit == Len(hist) # Depth \/ PrintT(<<"HIST", ToJson(hist)>>)
====
