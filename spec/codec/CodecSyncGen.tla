---- MODULE CodecSyncGen ----
(* CodecSync + history variable: emits every behaviour of length Depth as JSON, each step
   with the outputs and the projected post-state the specification computed. *)
EXTENDS CodecSync, Json
CONSTANT Depth
VARIABLE hist
Post == [es |-> Len(states'["enc"]), eq |-> Len(queue'["enc"]),
         ds |-> Len(states'["dec"]), dq |-> Len(queue'["dec"])]
GNext == /\ Len(hist) < Depth
         /\ \/ \E s \in Sides, ks \in KeySets :
                 Update(s, ks) /\ hist' = Append(hist, [a |-> "upd", side |-> s, ks |-> ks, post |-> Post])
            \/ \E P \in Presents :
                 Encode(P) /\ hist' = Append(hist, [a |-> "enc", present |-> P,
                                                    seq |-> wire'[Len(wire')].seq,
                                                    ks |-> wire'[Len(wire')].ks,
                                                    keys |-> wire'[Len(wire')].keys, post |-> Post])
            \/ Decode /\ hist' = Append(hist, [a |-> "dec", kind |-> last'.kind, seq |-> last'.seq,
                                               used |-> last'.used, keys |-> last'.keys, post |-> Post])
GInit == Init /\ hist = <<>>
GSpec == GInit /\ [][GNext]_<<vars, hist>>
\* a behaviour is emitted when it reaches Depth, or earlier when nothing is enabled any more
Emit == ENABLED GNext \/ PrintT(<<"HIST", ToJson(hist)>>)
====
