------------------------------ MODULE CodecSync ------------------------------
(* Sequence-numbered channel-set protocol between an encoding and a decoding
   codec.Codec (core/pkg/distribution/framer/codec/codec.go), one direction of a stream.

   Code correspondence (one action per public call, the code as written)
     Update(side)   Codec.Update -> Codec.update: the new state is pushed on the buffered
                    channel c.mu.updates (queue[side]) and updateAvailable is set; nothing
                    else changes (lazy application)
     Encode(P)      Codec.Encode/EncodeStream: processUpdates (drain queue: seqNum++,
                    states[seqNum] = s for each), KeepKeys(current keys), header carries
                    c.mu.seqNum
     Decode         Codec.Decode/DecodeStream: processUpdates, states[seq from the wire];
                    missing => validation error, otherwise the frame is interpreted with
                    THAT state (key list for allChannelsPresent, data types)
   Both sides are handed the same sequence of channel sets (`script`; in the server the
   writer/streamer/iterator request carries the keys and both ends call Update with them),
   at different times: each side may run ahead of the other by up to Apart updates.
   The transport is FIFO and reliable (one WebSocket).

   Projection (harness zz_verif_codec_test.go, TestVerifCodecSync, in-package)
     Len(states[s]) <- c.mu.seqNum and len(c.mu.states);  Len(queue[s]) <- len(c.mu.updates)
     states[s][i]   <- c.mu.states[i].keys
     wire[i]        <- bytes returned by Encode (seq = bytes 1..4)
     last           <- result of Decode: error, or frame whose keys are compared with the
                       encoded frame restricted to the encoder's channel set
   Pinned beyond the property: laziness itself (that seqNum only moves inside
   Encode/Decode) and the exact seq numbers; a mismatch there alone is drift.
   Named deviation (guard constant SplitUpdate): Codec.update is two steps, FIRST
   updateAvailable.Store(true), THEN the push on c.mu.updates. In the http framer codec
   Update runs on the connection's receiving goroutine (decodeStreamRequest /
   decodeIteratorRequest / decodeWriteRequest) while Encode runs on the sending one. With
   SplitUpdate = TRUE the two steps are separate actions and TLC finds NoStrandedUpdate /
   EncodeUsesLatest violated: an Encode between them consumes the flag, finds the queue
   empty, and the state pushed afterwards is never applied until the next Update. With
   SplitUpdate = FALSE (Update called from the encoding/decoding goroutine, which is what
   the sequential replay exercises) Update is atomic and every invariant holds.
   Not modelled: the 50-slot capacity of c.mu.updates (Update blocks beyond it).              *)
EXTENDS Integers, Sequences, FiniteSets, TLC

CONSTANTS KeySets,      \* channel sets an Update may install (sets of keys)
          Presents,     \* key sets of the frames handed to Encode
          MaxUpdates,   \* length bound of the script
          MaxInFlight,  \* frames on the wire
          MaxEncodes,   \* total frames encoded
          Apart,        \* max |issued[enc] - issued[dec]|
          SplitUpdate   \* TRUE: Codec.update as its two separate steps (flag, then push)

Sides == {"enc", "dec"}
VARIABLES script,   \* agreed sequence of channel sets
          issued,   \* [side -> how many script entries Update was called with]
          queue,    \* [side -> sequence of pending states (c.mu.updates)]
          states,   \* [side -> applied states, index = seqNum]
          wire,     \* in-flight frames [seq, ks, keys]
          nenc,     \* frames encoded so far
          last,     \* outcome of the last Decode
          flag,     \* [side -> c.mu.updateAvailable]
          pend      \* [side -> state whose push is still to come ({} = none)]
vars == <<script, issued, queue, states, wire, nenc, last, flag, pend>>

NoLast == [kind |-> "none", seq |-> 0, ks |-> {}, used |-> {}, keys |-> {}, n |-> 0]
Init == /\ script = <<>>
        /\ issued = [s \in Sides |-> 0]
        /\ queue = [s \in Sides |-> <<>>]
        /\ states = [s \in Sides |-> <<>>]
        /\ wire = <<>> /\ nenc = 0 /\ last = NoLast
        /\ flag = [s \in Sides |-> FALSE] /\ pend = [s \in Sides |-> {}]

Abs(x) == IF x < 0 THEN -x ELSE x
Other(s) == IF s = "enc" THEN "dec" ELSE "enc"

\* the script discipline shared by both forms of Update
Scripted(s, ks) ==
  /\ Abs(issued[s] + 1 - issued[Other(s)]) <= Apart
  /\ IF issued[s] < Len(script)
     THEN ks = script[issued[s] + 1] /\ UNCHANGED script
     ELSE Len(script) < MaxUpdates /\ script' = Append(script, ks)
  /\ issued' = [issued EXCEPT ![s] = @ + 1]

\* Codec.Update on one side with the next channel set of the script (extending the script
\* when this side is the first to learn about the change), as one step
Update(s, ks) ==
  /\ ~SplitUpdate
  /\ Scripted(s, ks)
  /\ flag' = [flag EXCEPT ![s] = TRUE]
  /\ queue' = [queue EXCEPT ![s] = Append(@, ks)]
  /\ UNCHANGED <<states, wire, nenc, last, pend>>

\* ... and as the two steps of Codec.update
UpdateStore(s, ks) ==
  /\ SplitUpdate /\ pend[s] = {}
  /\ Scripted(s, ks)
  /\ flag' = [flag EXCEPT ![s] = TRUE]          \* c.mu.updateAvailable.Store(true)
  /\ pend' = [pend EXCEPT ![s] = ks]
  /\ UNCHANGED <<queue, states, wire, nenc, last>>
UpdatePush(s) ==
  /\ SplitUpdate /\ pend[s] # {}
  /\ queue' = [queue EXCEPT ![s] = Append(@, pend[s])]   \* c.mu.updates <- s
  /\ pend' = [pend EXCEPT ![s] = {}]
  /\ UNCHANGED <<script, issued, states, wire, nenc, last, flag>>

\* processUpdates: only when the flag is set (CompareAndSwap(true, false)), then drain
Applied(s) == IF flag[s] THEN states[s] \o queue[s] ELSE states[s]
Drained(s) == IF flag[s] THEN <<>> ELSE queue[s]

Encode(P) ==
  /\ Len(Applied("enc")) >= 1           \* documented precondition (panicIfNotUpdated)
  /\ Len(wire) < MaxInFlight /\ nenc < MaxEncodes
  /\ LET st == Applied("enc")
         sq == Len(st)
     IN /\ states' = [states EXCEPT !["enc"] = st]
        /\ queue' = [queue EXCEPT !["enc"] = Drained("enc")]
        /\ wire' = Append(wire, [seq |-> sq, ks |-> st[sq], keys |-> P \cap st[sq]])
  /\ flag' = [flag EXCEPT !["enc"] = FALSE]
  /\ nenc' = nenc + 1
  /\ UNCHANGED <<script, issued, last, pend>>

Decode ==
  /\ wire # <<>>
  /\ Len(Applied("dec")) >= 1           \* the not-updated decoder is CodecDecode's subject
  /\ LET st == Applied("dec")
         f == Head(wire)
     IN /\ states' = [states EXCEPT !["dec"] = st]
        /\ queue' = [queue EXCEPT !["dec"] = Drained("dec")]
        /\ last' = IF f.seq \in 1..Len(st)
                   THEN [kind |-> "frame", seq |-> f.seq, ks |-> f.ks, used |-> st[f.seq],
                         keys |-> f.keys, n |-> Len(st)]
                   ELSE [kind |-> "error", seq |-> f.seq, ks |-> f.ks, used |-> {},
                         keys |-> f.keys, n |-> Len(st)]
  /\ flag' = [flag EXCEPT !["dec"] = FALSE]
  /\ wire' = Tail(wire)
  /\ UNCHANGED <<script, issued, nenc, pend>>

Next == \/ \E s \in Sides, ks \in KeySets : Update(s, ks) \/ UpdateStore(s, ks)
        \/ \E s \in Sides : UpdatePush(s)
        \/ \E P \in Presents : Encode(P)
        \/ Decode
Spec == Init /\ [][Next]_vars

-----------------------------------------------------------------------------
TypeOK == /\ \A i \in DOMAIN script : script[i] \in KeySets
          /\ \A s \in Sides : issued[s] \in 0..MaxUpdates
          /\ Len(wire) <= MaxInFlight

\* each side holds exactly the prefix of the script it was given, applied part first
Given(s) == states[s] \o queue[s] \o (IF pend[s] = {} THEN <<>> ELSE <<pend[s]>>)
PrefixAgreement == \A s \in Sides : Given(s) = SubSeq(script, 1, issued[s])

\* every in-flight frame is tagged with a seq under which the encoder used exactly f.ks
WireTagged == \A i \in DOMAIN wire :
                /\ wire[i].seq \in 1..Len(states["enc"])
                /\ states["enc"][wire[i].seq] = wire[i].ks

\* the decoder interprets a frame with the channel set the encoder used for it
DecodeUsesEncodersState == last.kind = "frame" => last.used = last.ks

\* a frame whose seq the decoder has not been told about is an error, never a frame decoded
\* with some other state; and a seq the decoder has been told about always decodes
UnknownSeqIsError == /\ last.kind = "error" => last.seq > last.n
                     /\ last.kind = "frame" => last.seq <= last.n

\* a queued state is always announced by the flag, so the next Encode/Decode applies it
NoStrandedUpdate == \A s \in Sides : queue[s] # <<>> => flag[s]

\* probes for vacuity (expected VIOLATED)
ProbeDecAhead == ~(last.kind = "frame" /\ last.seq < last.n)
ProbeDecBehind == last.kind # "error"
ProbeLazy == ~(Len(queue["dec"]) >= 2)
=============================================================================
