------------------------------ MODULE CodecLayout ------------------------------
(* Frame wire layout of core/pkg/distribution/framer/codec/codec.go: a transcription of
   the case analysis in Codec.encodeInternal (KeepKeys filter, sorter, mergeContiguousSeries,
   flag computation, header/per-series field selection) and of the field order
   Codec.DecodeStream expects, over ABSTRACT frames.

   The state of this module is one abstract frame `fr` (built one series per step so that
   TLC visits every frame of <= MaxN series exactly once). For every frame the module
   computes, for every codec configuration in CfgIds and every raw order in Perms:
     Merged(c, f)  the series the encoder puts on the wire (filtered to the codec keys,
                   sorted by (key, alignment, raw index), alignment-contiguous runs merged)
     Flags(c, f)   the six header flags and the flag byte
     Wire(c, f)    the sequence of wire fields (header, then per series key?/len?/data/tr?/al?)
     Meta(c, f)    number of wire bytes that are not sample data
     Dec(c, w)     what DecodeStream reconstructs from a field sequence
   and TLC checks DecodeInvertsEncode / MergeSound / FlagsSound on all of them. With the
   Emit invariant every frame is printed as JSON; each line becomes one implementation
   test (harness zz_verif_codec_test.go, TestVerifCodecLayout).

   Code correspondence
     Kept(c,f)            src.KeepKeys(currState.keys) + ShouldExcludeRaw
     Less / Sorted        sorter.Less (key, alignment, rawIndex), sorter.sort
     MergeRuns            mergeContiguousSeries (isAlignmentContiguous: prev.Upper = cur.Lower,
                          merged alignment = first's, time range = running hull)
     NoMerge              DisableAlignmentCompression()
     Flags                the flag block of encodeInternal (hasVariableDataTypes forces
                          equalLens off; allChannelsPresent needs a 1:1 ordered match with
                          the state keys AFTER merging; timeRangesZero/zeroAlignments are
                          only set together with their `equal` flag)
     Wire                 the c.buf writes at the end of encodeInternal
     Dec                  DecodeStream + decodeSeries (flag-directed field order)

   Projection used by the harness
     abstract key 1,2,3      -> channel keys through a strictly increasing map
     length l                -> l samples; sample identity (raw index, position) -> distinct bytes
     time stamps 0..4        -> 0 -> 0, i -> base + i*step (strictly increasing, so hulls commute)
     alignment 0             -> 0; a >= 5 -> A0 + (a - 5) (so a + l is contiguity in both worlds)
     flag byte, Meta + data bytes = len(Encode(frame)); Dec = Decode(Encode(frame)) series by series

   Pinned beyond the property (a mismatch there alone is DRIFT, not a violation; the harness
   decides the verdict with the property-level comparison "equal up to key order and merging
   of alignment-contiguous series"): which runs are merged (all maximal ones), the flag byte,
   the byte count, the order of decoded series, ties broken by raw index.                      *)
EXTENDS Integers, Sequences, FiniteSets, TLC, Json, SequencesExt

CONSTANTS MaxN,       \* max series per frame
          KeyVals,    \* abstract frame keys, subset of 1..3
          LenVals,    \* sample counts
          TRIds,      \* time range ids: 0 = zero [0,0), 1 = A, 2 = B (B encloses A),
                      \* 3 = instant non-zero range [t,t), 4 = range with Start = 0 < End
          AlignVals,  \* alignments: 0 and a, a+1, a+2 with a = 5
          SmallFrom,  \* frames of >= SmallFrom series draw from the restricted value sets:
          N4TRIds, N4LenVals, N4AlignVals,
          CfgIds,     \* codec configurations to compute expectations for
          Perms       \* raw orders emitted per frame: subset of {"id", "rev", "rot", "rep"};
                      \* "rep" = the frame repeated to 14..16 series (see Permute)

VARIABLE fr
vars == <<fr>>

TR(t) == CASE t = 0 -> <<0, 0>> [] t = 1 -> <<2, 3>> [] t = 2 -> <<1, 4>>
           [] t = 3 -> <<2, 2>> [] t = 4 -> <<0, 3>>

\* codec configurations: sorted state keys, variable-typed keys, alignment compression
Cfg(c) == CASE c = "k3f" -> [keys |-> <<1, 2, 3>>, var |-> {}, merge |-> TRUE]
            [] c = "k3v" -> [keys |-> <<1, 2, 3>>, var |-> {2}, merge |-> TRUE]
            [] c = "k13" -> [keys |-> <<1, 3>>, var |-> {}, merge |-> TRUE]
            [] c = "k3n" -> [keys |-> <<1, 2, 3>>, var |-> {}, merge |-> FALSE]
            [] c = "k2w" -> [keys |-> <<1, 2>>, var |-> {1, 2}, merge |-> TRUE]
            [] c = "k0" -> [keys |-> <<>>, var |-> {}, merge |-> TRUE]


-----------------------------------------------------------------------------
(* enumeration of frames: multisets of series in a canonical (rank) order; the emitted raw
   orders are the canonical one, its reverse and a rotation, so for <= 2 series every
   sequence is produced and for 3..4 series both orders of every tie are; "rep" turns
   each of them into a frame of 14..16 series with repeated keys, equal alignments within
   a key and alternating (unsorted) keys.                                                   *)
Series == [k : KeyVals, l : LenVals, t : TRIds, a : AlignVals]
Small == [k : KeyVals, l : N4LenVals, t : N4TRIds, a : N4AlignVals]
Allowed(n) == IF n >= SmallFrom THEN Small ELSE Series
\* rank: length, time range, then alignment and key DEscending, so that the canonical
\* order is mostly unsorted with respect to (key, alignment)
Rank(s) == ((s.l * 5 + s.t) * 8 + (7 - s.a)) * 4 + (3 - s.k)

Init == fr = <<>>
Next == /\ Len(fr) < MaxN
        /\ \E s \in Allowed(Len(fr) + 1) :
             /\ \A i \in DOMAIN fr : fr[i] \in Allowed(Len(fr) + 1)
             /\ IF fr = <<>> THEN TRUE ELSE Rank(s) >= Rank(fr[Len(fr)])
             /\ fr' = Append(fr, s)
Spec == Init /\ [][Next]_vars

RepBy(n) == CASE n = 0 -> 1 [] n = 1 -> 14 [] n = 2 -> 8 [] n = 3 -> 5 [] OTHER -> 4
Permute(p, f) ==
  LET n == Len(f) IN
  CASE p = "id" -> f
    [] p = "rev" -> [i \in 1..n |-> f[n + 1 - i]]
    [] p = "rot" -> [i \in 1..n |-> f[(i % n) + 1]]
    \* many series: the frame laid end to end RepBy(n) times. Every series then has copies
    \* with the same key and alignment (ties that only the raw index orders; merged when
    \* their length is 0, kept apart otherwise), keys alternate instead of being sorted, and
    \* the series count (14..16) is beyond what a small-input insertion sort handles
    [] p = "rep" -> [i \in 1..(n * RepBy(n)) |-> f[((i - 1) % n) + 1]]

-----------------------------------------------------------------------------
(* encoder *)
Upper(s) == s.a + s.l
Kept(c, f) == {i \in DOMAIN f : f[i].k \in Range(Cfg(c).keys)}
Less(f, i, j) == \/ f[i].k < f[j].k
                 \/ f[i].k = f[j].k /\ f[i].a < f[j].a
                 \/ f[i].k = f[j].k /\ f[i].a = f[j].a /\ i < j
Sorted(c, f) == SetToSortSeq(Kept(c, f), LAMBDA i, j : Less(f, i, j))

Min2(a, b) == IF a < b THEN a ELSE b
Max2(a, b) == IF a > b THEN a ELSE b
One(f, i) == [k |-> f[i].k, a |-> f[i].a, ts |-> TR(f[i].t)[1], te |-> TR(f[i].t)[2],
              l |-> f[i].l, src |-> <<i>>, up |-> Upper(f[i])]
RECURSIVE MergeRuns(_, _, _)
MergeRuns(f, idx, acc) ==
  IF idx = <<>> THEN acc
  ELSE LET i == Head(idx)
           n == Len(acc)
       IN IF n > 0 /\ acc[n].k = f[i].k /\ acc[n].up = f[i].a
          THEN MergeRuns(f, Tail(idx),
                 [acc EXCEPT ![n] = [k |-> acc[n].k, a |-> acc[n].a,
                                     ts |-> Min2(acc[n].ts, TR(f[i].t)[1]),
                                     te |-> Max2(acc[n].te, TR(f[i].t)[2]),
                                     l |-> acc[n].l + f[i].l,
                                     src |-> Append(acc[n].src, i),
                                     up |-> Upper(f[i])]])
          ELSE MergeRuns(f, Tail(idx), Append(acc, One(f, i)))
NoMerge(f, idx) == [j \in DOMAIN idx |-> One(f, idx[j])]
Merged(c, f) == IF Cfg(c).merge THEN MergeRuns(f, Sorted(c, f), <<>>)
                ELSE NoMerge(f, Sorted(c, f))

\* flag block of encodeInternal over the merged series m
FlagsOf(c, m) ==
  LET n == Len(m)
      keys == Cfg(c).keys
      eqLens == Cfg(c).var = {} /\ \A i \in 1..n : m[i].l = m[1].l
      eqTR == \A i \in 1..n : m[i].ts = m[1].ts /\ m[i].te = m[1].te
      eqAl == \A i \in 1..n : m[i].a = m[1].a
      trZero == eqTR /\ (n = 0 \/ (m[1].ts = 0 /\ m[1].te = 0))
      alZero == eqAl /\ (n = 0 \/ m[1].a = 0)
      allP == n = Len(keys) /\ \A i \in 1..n : m[i].k = keys[i]
  IN [eqLens |-> eqLens, eqTR |-> eqTR, trZero |-> trZero, eqAl |-> eqAl,
      alZero |-> alZero, allP |-> allP]
Flags(c, f) == FlagsOf(c, Merged(c, f))
B(b, v) == IF b THEN v ELSE 0
FlagByte(g) == B(g.allP, 1) + B(g.trZero, 2) + B(g.eqTR, 4) + B(g.eqLens, 8)
               + B(g.eqAl, 16) + B(g.alZero, 32)

\* wire fields <<name, value>>; "data" carries <<sample count, source raw indices>>
WireOf(g, m) ==
  LET hdr == <<<<"flags", FlagByte(g)>>, <<"seq", 1>>>>
             \o (IF g.eqLens THEN <<<<"len", IF Len(m) = 0 THEN -1 ELSE m[1].l>>>> ELSE <<>>)
             \o (IF g.eqTR /\ ~g.trZero THEN <<<<"tr", <<m[1].ts, m[1].te>>>>>> ELSE <<>>)
             \o (IF g.eqAl /\ ~g.alZero THEN <<<<"al", m[1].a>>>> ELSE <<>>)
      one(s) == (IF ~g.allP THEN <<<<"key", s.k>>>> ELSE <<>>)
                \o (IF ~g.eqLens THEN <<<<"len", s.l>>>> ELSE <<>>)
                \o <<<<"data", <<s.l, s.src>>>>>>
                \o (IF ~g.eqTR THEN <<<<"tr", <<s.ts, s.te>>>>>> ELSE <<>>)
                \o (IF ~g.eqAl THEN <<<<"al", s.a>>>> ELSE <<>>)
  IN hdr \o FlattenSeq([i \in DOMAIN m |-> one(m[i])])
Wire(c, f) == WireOf(Flags(c, f), Merged(c, f))

\* wire bytes that are not sample data: flags 1, seq 4, then 4 per len/key, 16 per time
\* range, 8 per alignment field
MetaOf(g, m) ==
  LET n == Len(m) IN
  5 + (IF g.allP THEN 0 ELSE 4 * n) + (IF g.eqLens THEN 4 ELSE 4 * n)
    + (IF g.trZero THEN 0 ELSE IF g.eqTR THEN 16 ELSE 16 * n)
    + (IF g.alZero THEN 0 ELSE IF g.eqAl THEN 8 ELSE 8 * n)
FieldBytes(fld) == CASE fld[1] = "flags" -> 1 [] fld[1] = "seq" -> 4 [] fld[1] = "len" -> 4
                     [] fld[1] = "key" -> 4 [] fld[1] = "tr" -> 16 [] fld[1] = "al" -> 8
                     [] fld[1] = "data" -> 0
WireBytes(w) == FoldLeft(LAMBDA acc, fld : acc + FieldBytes(fld), 0, w)

-----------------------------------------------------------------------------
(* decoder: DecodeStream over a field sequence. Returns [ok, out]; out = sequence of
   [k, a, ts, te, l, src]. A field of the wrong kind where another is expected is a
   framing error in the abstract world (ok = FALSE).                                        *)
UnFlags(b) == [allP |-> (b % 2) = 1, trZero |-> ((b \div 2) % 2) = 1, eqTR |-> ((b \div 4) % 2) = 1,
               eqLens |-> ((b \div 8) % 2) = 1, eqAl |-> ((b \div 16) % 2) = 1,
               alZero |-> ((b \div 32) % 2) = 1]
Is(w, p, name) == p <= Len(w) /\ w[p][1] = name
Bad == [ok |-> FALSE, out |-> <<>>]

\* decodeSeries at position p for key k; returns [ok, p, s]
DecOne(w, g, p, k, hl, htr, hal) ==
  LET p1 == IF g.eqLens THEN p ELSE p + 1
      okLen == g.eqLens \/ Is(w, p, "len")
      claim == IF g.eqLens THEN hl ELSE IF okLen THEN w[p][2] ELSE 0
      okData == Is(w, p1, "data") /\ w[p1][2][1] = claim
      p2 == p1 + 1
      okTR == g.eqTR \/ Is(w, p2, "tr")
      p3 == IF g.eqTR THEN p2 ELSE p2 + 1
      okAl == g.eqAl \/ Is(w, p3, "al")
      p4 == IF g.eqAl THEN p3 ELSE p3 + 1
  IN IF ~(okLen /\ okData /\ okTR /\ okAl) THEN [ok |-> FALSE, p |-> p, s |-> <<>>]
     ELSE [ok |-> TRUE, p |-> p4,
           s |-> [k |-> k, a |-> IF g.eqAl THEN hal ELSE w[p3][2],
                  ts |-> IF g.eqTR THEN htr[1] ELSE w[p2][2][1],
                  te |-> IF g.eqTR THEN htr[2] ELSE w[p2][2][2],
                  l |-> claim, src |-> w[p1][2][2]]]

RECURSIVE DecKeys(_, _, _, _, _, _, _, _)
DecKeys(w, g, p, keys, hl, htr, hal, acc) ==
  IF keys = <<>> THEN [ok |-> TRUE, out |-> acc]   \* trailing bytes are not looked at
  ELSE LET r == DecOne(w, g, p, Head(keys), hl, htr, hal)
       IN IF ~r.ok THEN Bad ELSE DecKeys(w, g, r.p, Tail(keys), hl, htr, hal, Append(acc, r.s))

RECURSIVE DecLoop(_, _, _, _, _, _, _, _)
DecLoop(w, g, p, known, hl, htr, hal, acc) ==
  IF p > Len(w) THEN [ok |-> TRUE, out |-> acc]    \* io.EOF at a key boundary ends the frame
  ELSE IF ~Is(w, p, "key") \/ w[p][2] \notin known THEN Bad
  ELSE LET r == DecOne(w, g, p + 1, w[p][2], hl, htr, hal)
       IN IF ~r.ok THEN Bad ELSE DecLoop(w, g, r.p, known, hl, htr, hal, Append(acc, r.s))

Dec(c, w) ==
  IF ~(Is(w, 1, "flags") /\ Is(w, 2, "seq")) THEN Bad
  ELSE LET g == UnFlags(w[1][2])
           p0 == 3
           okL == ~g.eqLens \/ Is(w, p0, "len")
           hl == IF g.eqLens /\ okL THEN w[p0][2] ELSE 0
           p1 == IF g.eqLens THEN p0 + 1 ELSE p0
           needTR == g.eqTR /\ ~g.trZero
           okT == ~needTR \/ Is(w, p1, "tr")
           htr == IF needTR /\ okT THEN w[p1][2] ELSE <<0, 0>>
           p2 == IF needTR THEN p1 + 1 ELSE p1
           needAl == g.eqAl /\ ~g.alZero
           okA == ~needAl \/ Is(w, p2, "al")
           hal == IF needAl /\ okA THEN w[p2][2] ELSE 0
           p3 == IF needAl THEN p2 + 1 ELSE p2
       IN IF ~(okL /\ okT /\ okA) THEN Bad
          ELSE IF g.allP THEN DecKeys(w, g, p3, Cfg(c).keys, hl, htr, hal, <<>>)
          ELSE DecLoop(w, g, p3, Range(Cfg(c).keys), hl, htr, hal, <<>>)

Strip(m) == [i \in DOMAIN m |-> [k |-> m[i].k, a |-> m[i].a, ts |-> m[i].ts, te |-> m[i].te,
                                  l |-> m[i].l, src |-> m[i].src]]

-----------------------------------------------------------------------------
(* properties checked on every frame, configuration and raw order *)
Frames == {Permute(p, fr) : p \in Perms}

MergeSoundOf(c, f, m) ==
    /\ FlattenSeq([i \in DOMAIN m |-> m[i].src]) = Sorted(c, f)
    /\ \A i \in DOMAIN m :
         LET s == m[i].src IN
         /\ m[i].a = f[s[1]].a
         /\ \A j \in 1..(Len(s) - 1) : f[s[j]].k = f[s[j + 1]].k /\ Upper(f[s[j]]) = f[s[j + 1]].a
         /\ \A j \in DOMAIN s : m[i].ts <= TR(f[s[j]].t)[1] /\ m[i].te >= TR(f[s[j]].t)[2]
         /\ \E j \in DOMAIN s : m[i].ts = TR(f[s[j]].t)[1]
         /\ \E j \in DOMAIN s : m[i].te = TR(f[s[j]].t)[2]
    /\ \A i \in 1..(Len(m) - 1) :
         \/ m[i].k < m[i + 1].k
         \/ m[i].k = m[i + 1].k /\ m[i].a <= m[i + 1].a
    \* with compression on, two neighbours left apart are not contiguous
    /\ Cfg(c).merge => \A i \in 1..(Len(m) - 1) : ~(m[i].k = m[i + 1].k /\ m[i].up = m[i + 1].a)

FlagsSoundOf(c, m, g) ==
    /\ g.trZero => g.eqTR
    /\ g.alZero => g.eqAl
    /\ g.allP => [i \in DOMAIN m |-> m[i].k] = Cfg(c).keys
    /\ g.eqLens => Cfg(c).var = {}

\* DecodeInvertsEncode: the decoder reconstructs exactly the series the encoder laid out, and
\*   the byte count formula of encodeInternal agrees with the fields actually written
\* MergeSound: merging never changes a channel's sample sequence, only joins alignment-
\*   contiguous neighbours, keeps the first alignment and the hull of the time ranges
\* FlagsSound: a flag is set only if what it lets the encoder omit is really redundant
Check(c, f) ==
  LET m == Merged(c, f)
      g == FlagsOf(c, m)
      w == WireOf(g, m)
      d == Dec(c, w)
  IN [dec |-> d.ok /\ d.out = Strip(m) /\ WireBytes(w) = MetaOf(g, m),
      merge |-> MergeSoundOf(c, f, m),
      flags |-> FlagsSoundOf(c, m, g)]
DecodeInvertsEncode == \A c \in CfgIds, f \in Frames : Check(c, f).dec
MergeSound == \A c \in CfgIds, f \in Frames : Check(c, f).merge
FlagsSound == \A c \in CfgIds, f \in Frames : Check(c, f).flags
AllSound == \A c \in CfgIds, f \in Frames :
              LET r == Check(c, f) IN r.dec /\ r.merge /\ r.flags

-----------------------------------------------------------------------------
(* emission: one JSON line per frame with the expectation for every raw order and config *)
Exp(c, f) == LET m == Merged(c, f)
                 g == FlagsOf(c, m)
             IN [f |-> FlagByte(g), m |-> MetaOf(g, m),
                 d |-> [i \in DOMAIN m |-> <<m[i].k, m[i].a, m[i].ts, m[i].te, m[i].src>>]]
Tuple(f) == [i \in DOMAIN f |-> <<f[i].k, f[i].l, TR(f[i].t)[1], TR(f[i].t)[2], f[i].a>>]
Out == [p \in Perms |-> LET f == Permute(p, fr) IN
                        [s |-> Tuple(f), e |-> [c \in CfgIds |-> Exp(c, f)]]]
Emit == PrintT(<<"HIST", ToJson(Out)>>)

\* vacuity probes (expected to be VIOLATED: they show the interesting cases are reachable)
ProbeAllFlagBytes(b) == \A c \in CfgIds, f \in Frames : FlagByte(Flags(c, f)) # b
ProbeMerge3 == \A c \in CfgIds, f \in Frames : \A i \in DOMAIN Merged(c, f) : Len(Merged(c, f)[i].src) < 3
=============================================================================
