------------------------------ MODULE CodecDecode ------------------------------
(* The decoder of core/pkg/distribution/framer/codec/codec.go (Codec.Decode / DecodeStream,
   reached from the network through transport/http/framer Codec.Decode for every WebSocket
   message whose first byte is not 254) as a PARSE STATE MACHINE over an abstract byte
   stream. The module generates the input while it parses it: every behaviour is one
   abstract input (`toks`, a sequence of fields with boundary-class values) together with
   the outcome the decoder must produce for it. TLC enumerates all of them.

   Code correspondence
     Init (scen)   the codec state the bytes meet:
                     static  NewStatic(keys S1)             (one state, queued, applied by Decode)
                     dyn0    NewDynamic, Update never called (panicIfNotUpdated("Decode"))
                     dyn1q   NewDynamic + one Update still in c.mu.updates
                     dyn2    NewDynamic, S1 applied by an earlier Decode, S2 queued
     Flags/SeqNo   reader.Uint8, reader.Uint32 + lookup c.mu.states[seq]
     HLen/HTR/HAl  the header fields selected by equalLens / equalTimeRanges&~zero /
                   equalAlignments&~zero
     Ser/Key       allChannelsPresent ? next key of the state : reader.Uint32 (io.EOF => frame)
     Len/Data      decodeSeries: per-series length (read BEFORE the key lookup), then
                   make([]byte, wire length * density) and reader.Read (io.ReadFull)
     TR/Al         per-series time range / alignment when the equal-flags are off
     End           the input ends at the current field boundary
     Cut           the input ends inside the field the decoder is about to read
   Field value classes for length fields: c0, c1, c2 (= "exact": that many units follow),
   the same followed by the end of the input (= "remaining"), a claim one unit larger
   than what follows (= "remaining+1", Data with n = claim-1), big (2^24) and huge (2^32-1).
   Seq classes: zero, v1..vn (valid), next (n+1: the peer is one update ahead), huge.

   Named deviations of the code as written from the property (guard constants):
     AllocFromWire      TRUE: the data buffer is sized from the wire-supplied length before
                        anything is read (alloc += claim*density). FALSE: bounded by what
                        is actually there.
     PanicIfNotUpdated  TRUE: Decode on a dynamic codec that was never updated panics.
                        FALSE: it returns an error.
   With both FALSE ("masked") NoPanic and AllocProportional hold; with the code as written
   TLC's counterexamples are exactly these two windows. The verdict about the real code is
   the harness's: it concretises every emitted input to bytes and runs the real decoder.

   Projection (harness zz_verif_codec_test.go TestVerifCodecDecode, zz_verif_httpcodec_test.go)
     out    <- Decode returned a frame | an error | panicked (recover())
     nser   <- frame.Count() when a frame is returned
     alloc  <- runtime.MemStats.TotalAlloc delta around Decode (bound 64*len+256KiB)
   Pinned beyond the property: WHICH of frame/error is returned for a malformed input
   (the property only demands one of the two): a mismatch there alone is drift.            *)
EXTENDS Integers, Sequences, FiniteSets, TLC, Json

CONSTANTS Scens,              \* subset of {"static", "dyn0", "dyn1q", "dyn2"}
          FlagVals,           \* flag bytes to enumerate (0..63)
          Dyn0Flags,          \* flag bytes used for the never-updated codec
          MaxSer,             \* series per input when keys are on the wire
          Dens,               \* bytes per sample of the fixed-size type
          AllocFromWire, PanicIfNotUpdated,
          C, K,               \* alloc <= C * size + K
          BigVal, HugeVal     \* stand-ins for 2^24 and 2^32-1 (TLC integers are 32 bit)

VARIABLES scen, toks, ph, g, si, kpos, nser, hl, cur, out, alloc, over, size
vars == <<scen, toks, ph, g, si, kpos, nser, hl, cur, out, alloc, over, size>>

StateKeys(i) == IF i = 1 THEN <<1, 2>> ELSE <<2, 3>>
KeyType(k) == IF k = 2 THEN "V" ELSE "F"      \* key 2 is variable-length
Unknown == 9
NStates(sc) == CASE sc = "static" -> 1 [] sc = "dyn0" -> 0 [] sc = "dyn1q" -> 1 [] sc = "dyn2" -> 2
RangeOf(s) == {s[i] : i \in DOMAIN s}
UnFlags(b) == [allP |-> (b % 2) = 1, trZero |-> ((b \div 2) % 2) = 1, eqTR |-> ((b \div 4) % 2) = 1,
               eqLens |-> ((b \div 8) % 2) = 1, eqAl |-> ((b \div 16) % 2) = 1,
               alZero |-> ((b \div 32) % 2) = 1]
NoFlags == UnFlags(0)
LenClasses == {"c0", "c1", "c2", "big", "huge"}
\* units of data actually present behind a big/huge claim in the "fat" inputs: more than any
\* fixed pre-allocation a decoder may make on the strength of the claim (the real decoder's is
\* 64 KiB), far fewer than claimed
FatN == 70000
ClaimVal(c) == CASE c = "c0" -> 0 [] c = "c1" -> 1 [] c = "c2" -> 2 [] c = "big" -> BigVal [] c = "huge" -> HugeVal
Unit(ty) == IF ty = "F" THEN Dens ELSE 1
Min2(a, b) == IF a < b THEN a ELSE b

Tok(t, c, v, n, cut) == [t |-> t, c |-> c, v |-> v, n |-> n, cut |-> cut]
FieldSize(t) == CASE t = "flags" -> 1 [] t = "seq" -> 4 [] t = "hlen" -> 4 [] t = "htr" -> 16
                  [] t = "hal" -> 8 [] t = "key" -> 4 [] t = "len" -> 4 [] t = "tr" -> 16
                  [] t = "al" -> 8 [] t = "junk" -> 3
NoCur == [k |-> 0, ty |-> "F", unk |-> FALSE, claim |-> "c0"]

Init == /\ scen \in Scens
        /\ toks = <<>> /\ ph = "flags" /\ g = NoFlags /\ si = 0 /\ kpos = 1 /\ nser = 0
        /\ hl = "c0" /\ cur = NoCur /\ out = "run" /\ alloc = 0 /\ over = FALSE /\ size = 0

\* a codec that was never updated decides before it looks at the input
Fin(o) == IF scen = "dyn0" THEN (IF PanicIfNotUpdated THEN "panic" ELSE "error") ELSE o

Emit1(t) == /\ toks' = Append(toks, t)
            /\ size' = size + (IF t.t = "data" THEN t.n * Unit(cur.ty) ELSE FieldSize(t.t) - (IF t.cut THEN 1 ELSE 0))

AfterSeq(f) == IF f.eqLens THEN "hlen"
               ELSE IF f.eqTR /\ ~f.trZero THEN "htr"
               ELSE IF f.eqAl /\ ~f.alZero THEN "hal" ELSE "ser"
AfterHLen(f) == IF f.eqTR /\ ~f.trZero THEN "htr" ELSE IF f.eqAl /\ ~f.alZero THEN "hal" ELSE "ser"
AfterHTR(f) == IF f.eqAl /\ ~f.alZero THEN "hal" ELSE "ser"
AfterData(f) == IF ~f.eqTR THEN "tr" ELSE IF ~f.eqAl THEN "al" ELSE "ser"
AfterTR(f) == IF ~f.eqAl THEN "al" ELSE "ser"

Flags(b) ==
  /\ ph = "flags" /\ b \in (IF scen = "dyn0" THEN Dyn0Flags ELSE FlagVals)
  /\ Emit1(Tok("flags", "", b, 0, FALSE))
  /\ g' = UnFlags(b) /\ ph' = "seq"
  /\ UNCHANGED <<scen, si, kpos, nser, hl, cur, out, alloc, over>>

SeqClasses == {"zero", "next", "huge"} \cup {"v1", "v2"}
SeqNo(c) ==
  /\ ph = "seq" /\ c \in SeqClasses
  /\ LET n == IF scen = "dyn0" THEN 1 ELSE NStates(scen)
         i == CASE c = "v1" -> 1 [] c = "v2" -> 2 [] OTHER -> 0
         valid == i >= 1 /\ i <= n
     IN /\ (c \in {"v1", "v2"} => valid)
        /\ Emit1(Tok("seq", c, IF c = "next" THEN n + 1 ELSE i, 0, FALSE))
        /\ IF valid THEN si' = i /\ ph' = AfterSeq(g) /\ out' = out
           ELSE si' = si /\ ph' = "done" /\ out' = Fin("error")
  /\ UNCHANGED <<scen, g, kpos, nser, hl, cur, alloc, over>>

HLen(c) ==
  /\ ph = "hlen" /\ c \in LenClasses
  /\ Emit1(Tok("hlen", c, 0, 0, FALSE))
  /\ hl' = c /\ ph' = AfterHLen(g)
  /\ UNCHANGED <<scen, g, si, kpos, nser, cur, out, alloc, over>>

Plain(p, t, nxt) ==
  /\ ph = p
  /\ Emit1(Tok(t, "", 0, 0, FALSE))
  /\ ph' = nxt
HTR == Plain("htr", "htr", AfterHTR(g)) /\ UNCHANGED <<scen, g, si, kpos, nser, hl, cur, out, alloc, over>>
HAl == Plain("hal", "hal", "ser") /\ UNCHANGED <<scen, g, si, kpos, nser, hl, cur, out, alloc, over>>

\* allChannelsPresent: the keys come from the state; after the last one the frame is complete
\* and whatever follows is not looked at
SerAll(junk) ==
  /\ ph = "ser" /\ g.allP
  /\ LET keys == StateKeys(si) IN
     IF kpos > Len(keys)
     THEN /\ out' = Fin("frame") /\ ph' = "done" /\ cur' = cur /\ kpos' = kpos
          /\ IF junk THEN Emit1(Tok("junk", "", 0, 0, FALSE)) ELSE UNCHANGED <<toks, size>>
     ELSE /\ ~junk
          /\ cur' = [k |-> keys[kpos], ty |-> KeyType(keys[kpos]), unk |-> FALSE, claim |-> "c0"]
          /\ kpos' = kpos + 1 /\ ph' = IF g.eqLens THEN "data" ELSE "len"
          /\ out' = out /\ UNCHANGED <<toks, size>>
  /\ UNCHANGED <<scen, g, si, nser, hl, alloc, over>>

\* keys on the wire
Key(k) ==
  /\ ph = "ser" /\ ~g.allP /\ nser < MaxSer
  /\ k \in RangeOf(StateKeys(si)) \cup {Unknown}
  /\ Emit1(Tok("key", IF k = Unknown THEN "unknown" ELSE "known", k, 0, FALSE))
  /\ cur' = [k |-> k, ty |-> KeyType(k), unk |-> k = Unknown, claim |-> "c0"]
  /\ IF ~g.eqLens THEN ph' = "len" /\ out' = out
     ELSE IF k = Unknown THEN ph' = "done" /\ out' = Fin("error")
     ELSE ph' = "data" /\ out' = out
  /\ UNCHANGED <<scen, g, si, kpos, nser, hl, alloc, over>>

Len1(c) ==
  /\ ph = "len" /\ c \in LenClasses
  /\ Emit1(Tok("len", c, 0, 0, FALSE))
  /\ cur' = [cur EXCEPT !.claim = c]
  /\ IF cur.unk THEN ph' = "done" /\ out' = Fin("error")     \* length is read before the key lookup
     ELSE ph' = "data" /\ out' = out
  /\ UNCHANGED <<scen, g, si, kpos, nser, hl, alloc, over>>

\* n units of sample data follow the length; fewer than claimed => the input ends there
Data(n) ==
  /\ ph = "data"
  /\ LET cc == IF g.eqLens THEN hl ELSE cur.claim
         v == ClaimVal(cc)
         u == Unit(cur.ty)
         full == n = v
     IN /\ n \in (IF cc \in {"big", "huge"} THEN {0, 2, FatN} ELSE 0..v)
        /\ Emit1(Tok("data", cur.ty \o ToString(cur.k), v, n, FALSE))   \* class = type and key, e.g. "F1", "V2"
        /\ alloc' = IF scen = "dyn0" THEN 0
                    ELSE alloc + (IF AllocFromWire THEN v * u ELSE Min2(v * u, n * u))
        /\ over' = (over \/ (scen # "dyn0" /\ cc \in {"big", "huge"}))
        /\ IF full THEN ph' = AfterData(g) /\ out' = out
                        /\ nser' = IF AfterData(g) = "ser" THEN nser + 1 ELSE nser
           ELSE ph' = "done" /\ out' = Fin("error") /\ nser' = nser
  /\ UNCHANGED <<scen, g, si, kpos, hl, cur>>

TR1 == /\ Plain("tr", "tr", AfterTR(g))
       /\ nser' = IF AfterTR(g) = "ser" THEN nser + 1 ELSE nser
       /\ UNCHANGED <<scen, g, si, kpos, hl, cur, out, alloc, over>>
Al1 == /\ Plain("al", "al", "ser")
       /\ nser' = nser + 1
       /\ UNCHANGED <<scen, g, si, kpos, hl, cur, out, alloc, over>>

\* the input ends at a field boundary
End ==
  /\ out = "run"
  /\ ph \in {"flags", "seq", "hlen", "htr", "hal", "len", "tr", "al"} \/ (ph = "ser" /\ ~g.allP)
  /\ out' = Fin(IF ph = "ser" THEN "frame" ELSE "error")
  /\ ph' = "done"
  /\ UNCHANGED <<scen, toks, g, si, kpos, nser, hl, cur, alloc, over, size>>

\* the input ends inside the next field
Cut ==
  /\ out = "run"
  /\ ph \in {"seq", "hlen", "htr", "hal", "len", "tr", "al"} \/ (ph = "ser" /\ ~g.allP)
  /\ Emit1(Tok(IF ph = "ser" THEN "key" ELSE ph, "", 0, 0, TRUE))
  /\ out' = Fin("error") /\ ph' = "done"
  /\ UNCHANGED <<scen, g, si, kpos, nser, hl, cur, alloc, over>>

Next == /\ out = "run"
        /\ \/ \E b \in 0..63 : Flags(b)
           \/ \E c \in SeqClasses : SeqNo(c)
           \/ \E c \in LenClasses : HLen(c)
           \/ HTR \/ HAl
           \/ \E j \in BOOLEAN : SerAll(j)
           \/ \E k \in 1..9 : Key(k)
           \/ \E c \in LenClasses : Len1(c)
           \/ \E n \in 0..2 \cup {FatN} : Data(n)
           \/ TR1 \/ Al1 \/ End \/ Cut
Spec == Init /\ [][Next]_vars

-----------------------------------------------------------------------------
Terminal == out # "run"

\* the property: a frame or an error, never a crash ...
NoPanic == out # "panic"
\* ... and memory in proportion to the input
AllocProportional == Terminal => alloc <= C * size + K

\* a frame is only returned for an input whose every series is complete
FrameWellFormed ==
  out = "frame" => /\ si \in 1..NStates(scen)
                   /\ g.allP => nser = Len(StateKeys(si))
                   /\ ph = "done"
\* an unknown sequence number or key is never a frame
UnknownIsError ==
  Terminal /\ (\E i \in DOMAIN toks : toks[i].c \in {"zero", "next", "huge", "unknown"} /\ toks[i].t \in {"seq", "key"})
    => out # "frame"
\* a truncated field or short data is never a frame
TruncatedIsError ==
  Terminal /\ (\E i \in DOMAIN toks : toks[i].cut \/ (toks[i].t = "data" /\ toks[i].n < toks[i].v))
    => out # "frame"

Emit == ~Terminal \/ PrintT(<<"HIST", ToJson([scen |-> scen, toks |-> toks, out |-> out, ns |-> nser,
                                              over |-> over, si |-> si])>>)

\* vacuity probes (expected VIOLATED)
ProbeFrame2 == ~(out = "frame" /\ nser = 2 /\ ~g.allP)
ProbeOver == ~(Terminal /\ over)
=============================================================================
