------------------------------- MODULE Unary -------------------------------
(* X02 (extension check, specification growth): freighter UNARY transports and the middleware
   chain.  One Send through K client middlewares, the wire, M server middlewares and the
   handler, and back, for the three implementations mock / http / grpc, AS WRITTEN in

     x/go/middleware/middleware.go   Chain.Exec          (the collector's recursion)
     freighter/go/middleware.go      MiddlewareCollector.Exec / Use
     freighter/go/mock/unary.go      UnaryClient.Send, UnaryServer.exec
     freighter/go/http/unary_client.go, unary_server.go, http.go (set/parse Request/ResponseCtx)
     freighter/go/grpc/unary.go, context.go (parseServerContext, attachContext)
     freighter/go/recovery/recovery.go  Middleware (panic boundary)
     x/go/errors/encode.go           Encode / Decode / Payload (error payload over the wire)

   The configuration of a call (cfg) is chosen in Init and never changes; the call itself is
   deterministic.  One action per station of the call:

     CEnter   client middleware idx is entered by Chain.Exec's `next` (registration order);
              behaviours: pass | failpre (returns an error WITHOUT calling next) |
              failpost (calls next, then returns its own error) | setp / setn (sets a
              string / non-string entry in ctx.Params before calling next) | seto (calls
              next, then sets a string entry in the Params of the RETURNED context)
     WireOut  the client finalizer: mock resolves the route (address.TargetNotFound when the
              target is unknown or no handler is bound), http does the POST, grpc invokes
              the method.  What crosses: mock - the very same Context (every param);
              http - string params as request headers (setRequestCtx); grpc - string
              params as metadata (attachContext).  Non-string params do not cross on http/grpc.
     SEnter   server middleware idx (same behaviours)
     Handler  the server finalizer: decodes and calls the bound handler.  Outcomes: ok (response),
              err (error), both (response AND error), panic, nohandler, unreachable.
              nohandler: mock refuses in the client finalizer (no server middleware runs),
              grpc returns "[freighter] - no handler registered" from the server finalizer
              (server middlewares DO run), http calls a nil func (= panic).
              panic: nothing in the transports recovers.  With recovery.Middleware installed as
              the outermost server middleware (cfg.rec) the panic unwinds the server chain (no
              server middleware sees a return) and becomes recovery.ErrPanic, which is sent to
              the client like any handler error.  Without it the panic unwinds through mock's
              client chain into Send's caller (modelled, result "panicked"); on http/grpc it
              kills the server process (not modelled: excluded in Init).
     SBack    server middleware idx sees next's return (error + returned context)
     WireBack the error is encoded (errors.Encode) and decoded (errors.Decode); http sends status
              400 + payload and the client decodes the body as a response only on 2xx; grpc sends
              a status whose message is "<type>---<data>".  A response crosses only without an
              error on http/grpc; mock hands over (res, err) as they are.  Returned-context
              params: mock - all, http - string params as response headers (setResponseCtx /
              parseResponseCtx), grpc - none.
     CBack    client middleware idx sees next's return
     Finish   Send returns (res, err): res is the variable the finalizer assigned, err is what
              the outermost middleware returned.

   Observable trace = sequence of marks: enter(side,i) with the verif params visible in the
   context passed in and the context fields; handler with the params visible in its context;
   exit(side,i) with the error returned by next, the verif params of the returned context and
   (on success) the context fields; plus the final result.  The harness
   (harness/freighter/go/zz_verif_unary_test.go) installs recording middlewares with these
   behaviours in the REAL collector of the REAL transports and the driver compares the recorded
   marks and result with `trace` / `result` of the behaviour with the same cfg (UnaryGen.tla).
   Projection: errors are compared by class (errors.Is per registered kind, exact text for
   unregistered ones; an error that originates on the client side must be the very same error
   value); "transport" = a non-nil error of none of the classes used in the case; params are
   the keys with the prefix x-verif- compared case-insensitively.

   Invariants decided (X02 statement):
     Result           Send returns exactly the handler's response, or an error of the class of
                      the error that was returned last on the way back, or a transport error
                      when unreachable / no handler; a response never appears without the
                      handler having run (ResultSound, ResultExact, TransportErr)
     NoRespAndErr     response and error together only in the two as-written cases named below
     WellNested       client middlewares run in registration order on the way out and in
                      reverse on the way back, server middlewares likewise around the handler
     ShortCircuit     failpre: handler not invoked, later middlewares not invoked, every earlier
                      one sees an error on the way back
     ErrFlow          every middleware sees exactly what the next one returned
     ParamFlow        a param set on the way in is visible to every later middleware of the same
                      side and to the server side iff the transport carries it
     OutParamFlow     likewise for params set on the returned context
     Ctx fields       CtxTable (as the code sets them; compared by the driver)

   Pinned beyond the statement / as-written deviations (named):
     * BothMock: mock returns response AND error when the handler (or a server middleware after
       the handler) returned both; http/grpc drop the response.
     * BothClientPost: a client middleware that fails AFTER next succeeded makes Send return the
       decoded response together with that error (all transports: `res` is assigned by the
       finalizer, `err` by the chain).
     * mock/http clients start with nil Params and leave Role/Variant zero on the request
       context; grpc's returned client context has no Variant; http's returned server context
       has neither Role nor Variant nor Target (CtxTable).
     * a middleware that fails before calling next returns the context it was given (as the
       repository's own middlewares do, core/pkg/api/auth): no returned-context verif params
       exist at a failure point.  (A ZERO Context returned by a gRPC server middleware makes
       UnaryServer.Exec dereference a nil context in attachContext: not exercised.)

   Known disagreement of the real code with ErrFlow / Result (reported by the check, signature
   "X02 http error received from the server: expected the error of a server middleware, got a
   decode failure [client codec mixed]"): the http server copies EVERY string param of the
   context returned by the server chain into the response headers (setResponseCtx).  When a
   server middleware fails before calling next and returns the request context, all request
   headers - Content-Type, Authorization, ... - are reflected, and the reflected Content-Type
   replaces the negotiated one: a client whose request codec differs from the negotiated
   response codec cannot decode the error payload and sees a decode error instead.            *)
EXTENDS Naturals, Sequences, FiniteSets

CONSTANTS MaxK, MaxM,     \* bounds on the number of client / server middlewares
          Transports,     \* subset of {"mock", "http", "grpc"}
          Behs,           \* subset of {"pass","failpre","failpost","setp","setn","seto"}
          Outcomes        \* subset of {"ok","err","both","panic","nohandler","unreachable"}

VARIABLES cfg,     \* [tr, K, M, cb, sb, h, rec]
          pc, idx,
          inP,     \* [s |-> string params, n |-> non-string params] of the context travelling in
          outP,    \* params of the context travelling back
          err,     \* error travelling back: "none" | origin label
          resp,    \* value of the finalizer's `res` variable: "none" | "r"
          ran,     \* the handler was invoked
          trace, result
vars == <<cfg, pc, idx, inP, outP, err, resp, ran, trace, result>>

Digit == <<"1", "2", "3", "4", "5">>
Lbl(side, i) == side \o Digit[i]
Mark(m, side, i, e, p, c) == [m |-> m, side |-> side, i |-> i, err |-> e, p |-> p, ctx |-> c]
NoRes == [resp |-> "none", err |-> "none"]

(* Context fields as the code sets them.  role: 0 unset, 1 client, 2 server; variant: 0 unset,
   1 unary.  target: addr = the address given to Send, svc = gRPC service name, path = route
   path of the http server, empty.  cin/sin: context passed to the middlewares on the way in;
   cout/sout: context returned on the way back when there is no error.                        *)
C(r, v, p, t) == [role |-> r, variant |-> v, proto |-> p, target |-> t]
CtxTable(tr) ==
  CASE tr = "mock" -> [cin |-> C(0, 0, "", "addr"), sin |-> C(0, 0, "", "addr"),
                       sout |-> C(0, 0, "", "addr"), cout |-> C(0, 0, "", "addr")]
    [] tr = "http" -> [cin |-> C(0, 0, "http", "addr"), sin |-> C(2, 1, "http", "path"),
                       sout |-> C(0, 0, "http", "empty"), cout |-> C(1, 1, "http", "addr")]
    [] tr = "grpc" -> [cin |-> C(1, 1, "grpc", "addr.svc"), sin |-> C(2, 1, "grpc", "svc"),
                       sout |-> C(2, 1, "grpc", "svc"), cout |-> C(1, 0, "grpc", "svc")]

Init ==
  /\ \E tr \in Transports, K \in 0..MaxK, M \in 0..MaxM, h \in Outcomes, rec \in BOOLEAN :
       \* the recovery middleware only matters for a panic; without it only mock survives
       /\ (~rec) => (h = "panic" /\ tr = "mock")
       \* the server chain never runs: one representative
       /\ (h = "unreachable" \/ (h = "nohandler" /\ tr = "mock")) => M = 0
       /\ \E cb \in [1..K -> Behs], sb \in [1..M -> Behs] :
            cfg = [tr |-> tr, K |-> K, M |-> M, cb |-> cb, sb |-> sb, h |-> h, rec |-> rec]
  /\ pc = IF cfg.K = 0 THEN "wout" ELSE "cin"
  /\ idx = 1
  /\ inP = [s |-> {}, n |-> {}]
  /\ outP = {}
  /\ err = "none" /\ resp = "none" /\ ran = FALSE
  /\ trace = <<>>
  /\ result = NoRes

Visible == inP.s \cup inP.n
AddIn(b, me) == IF b = "setp" THEN [inP EXCEPT !.s = @ \cup {me \o "s"}]
                ELSE IF b = "setn" THEN [inP EXCEPT !.n = @ \cup {me \o "n"}] ELSE inP

GoCBack(k) == /\ pc' = IF k = 0 THEN "fin" ELSE "cback"
              /\ idx' = IF k = 0 THEN idx ELSE k
GoSBack(k) == /\ pc' = IF k = 0 THEN "wback" ELSE "sback"
              /\ idx' = IF k = 0 THEN idx ELSE k

CEnter ==
  /\ pc = "cin"
  /\ LET b == cfg.cb[idx]  me == Lbl("c", idx) IN
     /\ trace' = Append(trace, Mark("enter", "c", idx, "none", Visible, "cin"))
     /\ IF b = "failpre"
          THEN /\ err' = me /\ outP' = {} /\ GoCBack(idx - 1) /\ UNCHANGED inP
          ELSE /\ inP' = AddIn(b, me)
               /\ IF idx = cfg.K THEN pc' = "wout" /\ idx' = idx ELSE pc' = "cin" /\ idx' = idx + 1
               /\ UNCHANGED <<err, outP>>
  /\ UNCHANGED <<cfg, resp, ran, result>>

WireOut ==
  /\ pc = "wout"
  /\ IF cfg.h = "unreachable" \/ (cfg.h = "nohandler" /\ cfg.tr = "mock")
       THEN /\ err' = "transport" /\ outP' = {} /\ GoCBack(cfg.K) /\ UNCHANGED inP
       ELSE /\ inP' = IF cfg.tr = "mock" THEN inP ELSE [inP EXCEPT !.n = {}]
            /\ pc' = IF cfg.M = 0 THEN "handler" ELSE "sin"
            /\ idx' = 1
            /\ UNCHANGED <<err, outP>>
  /\ UNCHANGED <<cfg, resp, ran, trace, result>>

SEnter ==
  /\ pc = "sin"
  /\ LET b == cfg.sb[idx]  me == Lbl("s", idx) IN
     /\ trace' = Append(trace, Mark("enter", "s", idx, "none", Visible, "sin"))
     /\ IF b = "failpre"
          THEN /\ err' = me /\ outP' = {} /\ GoSBack(idx - 1) /\ UNCHANGED inP
          ELSE /\ inP' = AddIn(b, me)
               /\ IF idx = cfg.M THEN pc' = "handler" /\ idx' = idx ELSE pc' = "sin" /\ idx' = idx + 1
               /\ UNCHANGED <<err, outP>>
  /\ UNCHANGED <<cfg, resp, ran, result>>

HMark == Mark("handler", "s", 0, "none", Visible, "none")

\* a panic below the server chain: recovered by the outermost recovery middleware, or (mock)
\* unwinding into Send's caller
Panic == IF cfg.rec
           THEN err' = "panic" /\ resp' = "none" /\ outP' = {} /\ pc' = "wback" /\ UNCHANGED idx
           ELSE err' = "panicked" /\ resp' = "none" /\ outP' = {} /\ pc' = "fin" /\ UNCHANGED idx

Handler ==
  /\ pc = "handler"
  /\ CASE cfg.h = "nohandler" /\ cfg.tr = "grpc" ->
            /\ err' = "transport" /\ resp' = "none" /\ outP' = {} /\ GoSBack(cfg.M)
            /\ UNCHANGED <<ran, trace>>
       [] cfg.h = "nohandler" /\ cfg.tr # "grpc" ->      \* http: nil func call
            /\ Panic /\ UNCHANGED <<ran, trace>>
       [] cfg.h = "panic" ->
            /\ trace' = Append(trace, HMark) /\ ran' = TRUE /\ Panic
       [] OTHER ->
            /\ trace' = Append(trace, HMark) /\ ran' = TRUE
            /\ resp' = IF cfg.h \in {"ok", "both"} THEN "r" ELSE "none"
            /\ err' = IF cfg.h \in {"err", "both"} THEN "h" ELSE "none"
            /\ outP' = {}
            /\ GoSBack(cfg.M)
  /\ UNCHANGED <<cfg, inP, result>>

SBack ==
  /\ pc = "sback"
  /\ LET b == cfg.sb[idx]  me == Lbl("s", idx) IN
     /\ trace' = Append(trace, Mark("exit", "s", idx, err, outP, IF err = "none" THEN "sout" ELSE "any"))
     /\ err' = IF b = "failpost" THEN me ELSE err
     /\ outP' = IF b = "seto" THEN outP \cup {"o" \o me} ELSE outP
     /\ GoSBack(idx - 1)
  /\ UNCHANGED <<cfg, inP, resp, ran, result>>

WireBack ==
  /\ pc = "wback"
  /\ resp' = IF cfg.tr = "mock" \/ err = "none" THEN resp ELSE "none"
  /\ outP' = IF cfg.tr = "grpc" THEN {} ELSE outP
  /\ GoCBack(cfg.K)
  /\ UNCHANGED <<cfg, inP, err, ran, trace, result>>

CBack ==
  /\ pc = "cback"
  /\ LET b == cfg.cb[idx]  me == Lbl("c", idx) IN
     /\ trace' = Append(trace, Mark("exit", "c", idx, err, outP, IF err = "none" THEN "cout" ELSE "any"))
     /\ err' = IF b = "failpost" THEN me ELSE err
     /\ outP' = IF b = "seto" THEN outP \cup {"o" \o me} ELSE outP
     /\ GoCBack(idx - 1)
  /\ UNCHANGED <<cfg, inP, resp, ran, result>>

Finish ==
  /\ pc = "fin"
  /\ result' = [resp |-> resp, err |-> err]
  /\ pc' = "done"
  /\ UNCHANGED <<cfg, idx, inP, outP, err, resp, ran, trace>>

Next == CEnter \/ WireOut \/ SEnter \/ Handler \/ SBack \/ WireBack \/ CBack \/ Finish
Spec == Init /\ [][Next]_vars

----------------------------------------------------------------------------
(* Invariants *)
Labels == {"none", "h", "transport", "panic", "panicked"} \cup
          {Lbl("c", i) : i \in 1..MaxK} \cup {Lbl("s", i) : i \in 1..MaxM}
TypeOK ==
  /\ pc \in {"cin", "wout", "sin", "handler", "sback", "wback", "cback", "fin", "done"}
  /\ err \in Labels /\ resp \in {"none", "r"} /\ ran \in BOOLEAN
  /\ result.resp \in {"none", "r"} /\ result.err \in Labels
  /\ \A n \in DOMAIN trace : trace[n].m \in {"enter", "exit", "handler"} /\ trace[n].err \in Labels

Done == pc = "done"
BehOf(side, i) == IF side = "c" THEN cfg.cb[i] ELSE cfg.sb[i]
Pos(mk) == IF mk.m = "handler" THEN cfg.K + cfg.M + 1
           ELSE IF mk.side = "c" THEN mk.i ELSE cfg.K + mk.i
Enters == {n \in DOMAIN trace : trace[n].m = "enter"}
Exits == {n \in DOMAIN trace : trace[n].m = "exit"}
HMarks == {n \in DOMAIN trace : trace[n].m = "handler"}
Same(a, b) == trace[a].side = trace[b].side /\ trace[a].i = trace[b].i

\* registration order on the way out, reverse order on the way back, around the handler; holds
\* in every prefix of the call
WellNested ==
  /\ \A a, b \in Enters : a < b => Pos(trace[a]) < Pos(trace[b])
  /\ \A a, b \in Exits : a < b => Pos(trace[a]) > Pos(trace[b])
  /\ \A a \in Exits, b \in Enters \cup HMarks : a > b
  /\ \A a \in Enters, b \in HMarks : a < b
  /\ \A b \in Exits : \E a \in Enters : Same(a, b) /\ BehOf(trace[a].side, trace[a].i) # "failpre"
  /\ Cardinality(HMarks) <= 1
  /\ Cardinality(HMarks) = 1 <=> ran
  \* no gaps: a middleware is entered only after all its predecessors
  /\ \A b \in Enters : \A q \in 1..(Pos(trace[b]) - 1) : \E a \in Enters : a < b /\ Pos(trace[a]) = q
  /\ ran => Cardinality(Enters) = cfg.K + cfg.M

\* every middleware that called next sees next return, unless a panic unwound it
Panicked == /\ Cardinality(Enters) = cfg.K + cfg.M
            /\ \A a \in Enters : BehOf(trace[a].side, trace[a].i) # "failpre"
            /\ (cfg.h = "panic" \/ (cfg.h = "nohandler" /\ cfg.tr = "http"))
Balanced ==
  Done => \A a \in Enters :
     LET mk == trace[a]
         unwound == Panicked /\ (mk.side = "s" \/ ~cfg.rec)
     IN (BehOf(mk.side, mk.i) # "failpre" /\ ~unwound) <=> (\E b \in Exits : Same(a, b))

ShortCircuit ==
  Done => \A a \in Enters : BehOf(trace[a].side, trace[a].i) = "failpre" =>
     /\ ~ran
     /\ \A n \in DOMAIN trace : Pos(trace[n]) <= Pos(trace[a])
     /\ \A b \in Exits : trace[b].err # "none"
     /\ result.err # "none" /\ result.resp = "none"

Returned(n) == IF BehOf(trace[n].side, trace[n].i) = "failpost" THEN Lbl(trace[n].side, trace[n].i)
               ELSE trace[n].err
ErrFlow ==
  /\ \A a, b \in Exits : (a < b /\ ~\E x \in Exits : a < x /\ x < b) => trace[b].err = Returned(a)
  /\ Done /\ Exits # {} /\ result.err # "panicked" =>
        result.err = Returned(CHOOSE b \in Exits : \A x \in Exits : x <= b)

ParamFlow ==
  \A y \in Enters \cup HMarks : \A side \in {"c", "s"} : \A i \in 1..(IF side = "c" THEN cfg.K ELSE cfg.M) :
    LET before == \E a \in Enters : a < y /\ trace[a].side = side /\ trace[a].i = i
        crossed == side = "c" /\ trace[y].side = "s"
    IN /\ (Lbl(side, i) \o "s") \in trace[y].p <=> (before /\ BehOf(side, i) = "setp")
       /\ (Lbl(side, i) \o "n") \in trace[y].p <=>
             (before /\ BehOf(side, i) = "setn" /\ (crossed => cfg.tr = "mock"))

OutParamFlow ==
  \A y \in Exits : \A side \in {"c", "s"} : \A i \in 1..(IF side = "c" THEN cfg.K ELSE cfg.M) :
    LET before == \E a \in Exits : a < y /\ trace[a].side = side /\ trace[a].i = i
        crossed == side = "s" /\ trace[y].side = "c"
    IN ("o" \o Lbl(side, i)) \in trace[y].p <=>
          (before /\ BehOf(side, i) = "seto" /\ (crossed => cfg.tr # "grpc"))

AnyFail(kinds) == (\E i \in 1..cfg.K : cfg.cb[i] \in kinds) \/ (\E i \in 1..cfg.M : cfg.sb[i] \in kinds)
ResultSound ==
  Done => /\ result.resp = "r" => ran /\ cfg.h \in {"ok", "both"}
          /\ result.err = "none" => result.resp = "r" /\ cfg.h = "ok"
ResultExact ==
  Done /\ ~AnyFail({"failpre", "failpost"}) =>
     CASE cfg.h = "ok" -> result = [resp |-> "r", err |-> "none"]
       [] cfg.h = "err" -> result = [resp |-> "none", err |-> "h"]
       [] cfg.h = "both" -> result = [resp |-> IF cfg.tr = "mock" THEN "r" ELSE "none", err |-> "h"]
       [] cfg.h = "panic" -> result = [resp |-> "none", err |-> IF cfg.rec THEN "panic" ELSE "panicked"]
       [] cfg.h = "nohandler" -> result = [resp |-> "none", err |-> IF cfg.tr = "http" THEN "panic" ELSE "transport"]
       [] cfg.h = "unreachable" -> result = [resp |-> "none", err |-> "transport"]
TransportErr ==
  Done /\ cfg.h \in {"nohandler", "unreachable"} => ~ran /\ result.resp = "none" /\ result.err # "none"

\* response together with an error: only the two as-written cases
BothMock == cfg.tr = "mock" /\ ran
BothClientPost == \E b \in Exits : trace[b].side = "c" /\ trace[b].err = "none" /\ cfg.cb[trace[b].i] = "failpost"
NoRespAndErr == Done /\ result.resp = "r" /\ result.err # "none" => BothMock \/ BothClientPost

\* vacuity witnesses (each must be violated)
WitBothNet == ~(Done /\ cfg.tr # "mock" /\ result.resp = "r" /\ result.err # "none")
WitShort == ~(Done /\ \E a \in Enters : trace[a].side = "s" /\ cfg.sb[trace[a].i] = "failpre" /\ Exits # {})
WitCarry == ~(\E y \in HMarks : \E q \in trace[y].p : q \in {Lbl("c", i) \o "s" : i \in 1..MaxK})
WitPanic == ~(Done /\ result.err = "panic" /\ cfg.tr = "grpc")
=============================================================================
