----------------------------- MODULE UnaryGen -----------------------------
(* Unary + emission: every completed call (pc = "done") of every configuration is printed once
   as a JSON case {cfg, trace, result, ctxs}: the expected mark sequence and result the real
   transports are compared with (tools/props/x02.py).  Exhaustive (breadth-first) over all
   chains of <= MaxK client and <= MaxM server middlewares, behaviours, handler outcomes and
   transports; the driver assigns concrete error kinds / payloads to the abstract labels.      *)
EXTENDS Unary, Json, TLC
Emit == pc # "done" \/ PrintT(<<"HIST", ToJson([cfg |-> cfg, trace |-> trace, result |-> result,
                                                   ctxs |-> CtxTable(cfg.tr)])>>)
=============================================================================
