------------------------------ MODULE GorpIndex ------------------------------
(* Secondary indexes of a gorp.Table (x/go/gorp) over a pebble-backed kv (x/go/kv/memkv),
   modelled as the code is written. C17: indexed queries equal full scans; uncommitted
   writes stay private; aborts vanish; nothing is kept for aborted or deleted rows.

   Code <-> spec
     kv            committed rows of the table (pebble DB), key -> indexed value | "none"
     idx.f / idx.r LookupIndex.forward / .reverse  (SortedIndex: entries / reverse; the two
                   index types process the same put/delete stream, so one structure stands
                   for both; the order of a SortedIndex is (value, unspecified among equals))
     tx[t].w       the pebble indexed batch of gorp tx t (last staged op per key)
     tx[t].d       delta.state of t in deltaOverlay.txDeltas (delta.forward is derived)
     IdxPut/IdxDel LookupIndex.putLocked / deleteLocked (SortedIndex.setCommitted / deleteCommitted)
     IdxGet        LookupIndex.Get / SortedIndex.Get = committed buckets, then delta.merge
     Val           abstract indexed values; the harness runs every behaviour once with "a"
                   concretised as "a" and once as "" (the Go zero value of the indexed field,
                   which deltaEntry uses as the value of a tombstone); order a < b < c is kept
     ViewOf(t)     what a read inside tx t returns: pebble Batch.Get / NewIter read the batch
                   over the *current* DB state (no snapshot): a tx sees its own staged
                   writes and every commit made so far, never another tx's batch
     Populate      OpenTable: idx.populate() lock, attachIndexObserver, runPopulate scan, finish
     Open          gorp.DB.OpenTx
     Set           Table.NewCreate().Entry(e).Exec(tx)            -> Writer.set (upsert)
     Upd           Table.NewUpdate().Where(MatchKeys(k)).Change() -> ErrNotFound when k is not in the view
     DelK          Table.NewDelete().Where(MatchKeys(k))          -> deletes only what it found
     UpdEq/DelEq   NewUpdate/NewDelete().Where(idx.Filter(v))     -> targets chosen through the index
       with u = "db": the gorp.DB itself as Tx (txIdentity nil): kv commit, then
       deltaOverlay.commitSet/commitDelete inline (modelled as one step: DirectAtomic)
     Remote        a row written below gorp (replicated write): reaches the index only through
                   attachIndexObserver -> idx.set / idx.delete
     KVCommit      tx.Commit: t.Tx.Commit -> pebble Apply
     Notify        tx.Commit: pebblekv.db.apply -> NotifyGenerator -> index observer (only when the
                   index observer is attached to the DB itself: SelfObserve; production uses
                   WithIndexObservable(remote only) = ~SelfObserve)
     Flush         tx.Commit: t.state.runCleanups(true) -> deltaOverlay cleanup -> idx.flush(delta)
     Commit        the three steps above as one (AtomicCommit = TRUE: "masked" configuration)
     Abort         tx.Close without commit: runCleanups(false), delta dropped, batch closed
     CommitFails   tx.Commit when kv.Tx.Commit returns an error (harness: fault-injecting kv
                   wrapper): runCleanups(false); same effect as Abort
     IdxQuery      Retrieve.Exec with Where(tree): resolveFilter (materializeFilters, intersectKeys /
                   unionKeys), execKeys over the candidate keys or execFilter scan, match() with
                   the construction-time or resolver-returned eval (filter.go And / Or / Not)
     ScanQuery     the same tree as a gorp.Match predicate over a full scan
     WalkVals      SortedQuery.walkOrder: committed sorted entries strictly past the cursor, first
                   `limit` of them (limit is applied BEFORE the Where post-filter; the staged
                   delta is not consulted)

   Named deviation of the as-written design from the property (checked in the "asis"
   configuration, AtomicCommit = FALSE):
     Window_CommitFlush  no lock spans KVCommit ; Notify ; Flush of one commit, so two
                         transactions that wrote the same row can apply to kv in one order and
                         to the index in the other: NoResidue / CommittedIndexExact fail.
   DirectAtomic: a direct (non-tx) write has the same three steps; it is modelled as one.

   Projection used by the harness (harness/x/go/gorp/zz_verif_gorp_test.go):
     kv, ViewOf(u) <- Retrieve over a full scan with Match(true) through db / the open tx
     idx.f         <- LookupIndex.Get(nil, v) and SortedIndex.Get(nil, v) for every v
     IdxGet(u, v)  <- LookupIndex.Get(tx, v) / SortedIndex.Get(tx, v)
     IdxQuery      <- Exec / Count / Exists of Where(tree built from li.Filter | si.Filter,
                      MatchKeys, Match, And, Or, Not)
     ScanQuery     <- Exec of Where(Match(Holds(tree)))
     UpdOut        <- error class of the Upd call ("ok" | "notfound" = query.ErrNotFound)

   Pinned beyond the property (compared at drift level only):
     * ordered iteration inside a tx that has staged writes (documented as not
       read-your-writes: walk positions come from committed state, rows are fetched
       through the tx);
     * `limit` applied before the Where post-filter on the ordered path;
     * Upd on a missing key fails with ErrNotFound, DelK on a missing key is a no-op.  *)
EXTENDS Naturals, FiniteSets, Sequences, TLC

CONSTANTS NKey, NVal, NTx,   \* sizes (<= 4, 3, 3)
          AtomicCommit,      \* TRUE: commit is one step (masked); FALSE: KVCommit ; [Notify] ; Flush
          SelfObserve        \* TRUE: index observer attached to the DB itself (gorp.Wrap default)

AllKeys == <<"k1", "k2", "k3", "k4">>
AllVals == <<"a", "b", "c">>
AllTx   == <<"t1", "t2", "t3">>
Key == {AllKeys[i] : i \in 1..NKey}
Val == {AllVals[i] : i \in 1..NVal}
Tx  == {AllTx[i] : i \in 1..NTx}
Absent == "none"   \* no row / no index mapping
Keep   == "keep"   \* key not touched by the batch / delta
Del    == "del"    \* staged delete
DB     == "db"     \* the view of a reader without a transaction
KRank(k) == CHOOSE i \in 1..4 : AllKeys[i] = k
VRank(v) == CHOOSE i \in 1..3 : AllVals[i] = v

VARIABLES phase,  \* "pre" (rows exist, table not opened) | "open"
          kv,     \* [Key -> Val \cup {Absent}]
          idx,    \* [f : [Val -> SUBSET Key], r : [Key -> Val \cup {Absent}]]
          tx      \* [Tx -> [st, w, d]]
vars == <<phase, kv, idx, tx>>

NoWrites == [k \in Key |-> Keep]
EmptyIdx == [f |-> [v \in Val |-> {}], r |-> [k \in Key |-> Absent]]
FreshTx  == [st |-> "idle", w |-> NoWrites, d |-> NoWrites]

---------------------------------------------------------------------------
(* committed index state, as LookupIndex.putLocked / deleteLocked *)
IdxPut(ix, k, v) ==
  IF ix.r[k] = v THEN ix
  ELSE LET f1 == IF ix.r[k] # Absent THEN [ix.f EXCEPT ![ix.r[k]] = @ \ {k}] ELSE ix.f
       IN [f |-> [f1 EXCEPT ![v] = @ \cup {k}], r |-> [ix.r EXCEPT ![k] = v]]
IdxDel(ix, k) ==
  IF ix.r[k] = Absent THEN ix
  ELSE [f |-> [ix.f EXCEPT ![ix.r[k]] = @ \ {k}], r |-> [ix.r EXCEPT ![k] = Absent]]
\* apply a write map (flush of a delta, observer replay of a batch, populate scan)
RECURSIVE IdxApplyS(_, _, _)
IdxApplyS(ix, m, S) ==
  IF S = {} THEN ix
  ELSE LET k == CHOOSE x \in S : TRUE
       IN IdxApplyS(IF m[k] = Del THEN IdxDel(ix, k) ELSE IdxPut(ix, k, m[k]), m, S \ {k})
IdxApply(ix, m) == IdxApplyS(ix, m, {k \in Key : m[k] # Keep})
\* a write map over a row map / over another write map
KvOver(base, m) == [k \in Key |-> IF m[k] = Keep THEN base[k] ELSE IF m[k] = Del THEN Absent ELSE m[k]]
WOver(base, m)  == [k \in Key |-> IF m[k] = Keep THEN base[k] ELSE m[k]]

\* Read-side operators take the state S = [kv, idx, tx] explicitly so that the history
\* generator can evaluate them on recorded states; Cur is the current state.
Cur == [kv |-> kv, idx |-> idx, tx |-> tx]
OpenTxS(S) == {t \in Tx : S.tx[t].st = "open"}
ViewsS(S)  == OpenTxS(S) \cup {DB}
ViewOfS(S, u) == IF u = DB THEN S.kv ELSE KvOver(S.kv, S.tx[u].w)
RowsS(S, u) == {k \in Key : ViewOfS(S, u)[k] # Absent}
OpenTx == OpenTxS(Cur)
Views  == ViewsS(Cur)
ViewOf(u) == ViewOfS(Cur, u)
Rows(u) == RowsS(Cur, u)

\* LookupIndex.Get / SortedIndex.Get: committed buckets, then delta.merge
CommittedS(S, vals) == UNION {S.idx.f[v] : v \in vals \cap Val}
IdxGetS(S, u, vals) ==
  IF u = DB THEN CommittedS(S, vals)
  ELSE LET d == S.tx[u].d
           touched == {k \in Key : d[k] # Keep}
       IN IF touched = {} THEN CommittedS(S, vals)
          ELSE (CommittedS(S, vals) \ {k \in touched : d[k] = Del \/ d[k] \notin vals})
               \cup {k \in touched : d[k] \in vals}
IdxGet(u, vals) == IdxGetS(Cur, u, vals)

---------------------------------------------------------------------------
(* filter trees *)
Eq(vs)   == [op |-> "eq", vals |-> vs]      \* idx.Filter(vs...); vs a sequence (may repeat)
KeysT(ks) == [op |-> "keys", keys |-> ks]   \* MatchKeys(ks...)
Pred(p)  == [op |-> "pred", p |-> p]        \* Match(p)
AndT(as) == [op |-> "and", args |-> as]
OrT(as)  == [op |-> "or", args |-> as]
NotT(a)  == [op |-> "not", arg |-> a]
Range(s) == {s[i] : i \in DOMAIN s}
PredHolds(p, k, v) == CASE p = "kodd" -> KRank(k) % 2 = 1
                        [] p = "vnota" -> v # "a"
                        [] OTHER -> TRUE

Trees == <<
  Eq(<<"a">>),                                             \* 1
  Eq(<<"a", "b">>),                                        \* 2
  Eq(<<"b", "b">>),                                        \* 3 repeated value
  KeysT(<<"k1", "k2">>),                                   \* 4
  Pred("kodd"),                                            \* 5
  AndT(<<Eq(<<"a">>), KeysT(<<"k1", "k2">>)>>),             \* 6
  AndT(<<Eq(<<"a", "b">>), Pred("kodd")>>),                 \* 7
  OrT(<<Eq(<<"a">>), KeysT(<<"k3">>)>>),                    \* 8 bounded union
  OrT(<<Eq(<<"b">>), Pred("kodd")>>),                       \* 9 unbounded union
  NotT(Eq(<<"a">>)),                                       \* 10
  NotT(OrT(<<Eq(<<"b">>), KeysT(<<"k1">>)>>)),              \* 11
  AndT(<<NotT(Eq(<<"b">>)), KeysT(<<"k1", "k2", "k3">>)>>), \* 12
  OrT(<<NotT(Eq(<<"a">>)), AndT(<<Eq(<<"a">>), Pred("kodd")>>)>>), \* 13
  AndT(<<Eq(<<"a">>), Eq(<<"b">>)>>),                       \* 14 empty intersection
  AndT(<<OrT(<<Eq(<<"a">>), Eq(<<"b">>)>>), NotT(KeysT(<<"k1">>))>>), \* 15
  NotT(AndT(<<Eq(<<"a">>), Pred("kodd")>>)),                \* 16
  NotT(NotT(Eq(<<"b">>))),                                 \* 17
  OrT(<<AndT(<<Eq(<<"a">>), Pred("vnota")>>), Eq(<<"c">>)>>) \* 18
>>

\* the tree as a predicate on a row (what gorp.Match(pred) evaluates during a scan)
RECURSIVE Holds(_, _, _)
Holds(T, k, v) ==
  CASE T.op = "eq"   -> v \in Range(T.vals)
    [] T.op = "keys" -> k \in Range(T.keys)
    [] T.op = "pred" -> PredHolds(T.p, k, v)
    [] T.op = "and"  -> \A i \in DOMAIN T.args : Holds(T.args[i], k, v)
    [] T.op = "or"   -> \E i \in DOMAIN T.args : Holds(T.args[i], k, v)
    [] T.op = "not"  -> ~Holds(T.arg, k, v)
ScanQueryS(T, S, u) == {k \in RowsS(S, u) : Holds(T, k, ViewOfS(S, u)[k])}
ScanQuery(T, u) == ScanQueryS(T, Cur, u)

\* filter.go: does the (materialised) filter carry a candidate key set, and which
RECURSIVE Bounded(_)
Bounded(T) ==
  CASE T.op \in {"eq", "keys"} -> TRUE
    [] T.op \in {"pred", "not"} -> FALSE
    [] T.op = "and" -> \E i \in DOMAIN T.args : Bounded(T.args[i])   \* intersectKeys
    [] T.op = "or"  -> \A i \in DOMAIN T.args : Bounded(T.args[i])   \* unionKeys
RECURSIVE RKeysS(_, _, _)
RKeysS(T, S, u) ==
  CASE T.op = "eq"   -> IdxGetS(S, u, Range(T.vals))
    [] T.op = "keys" -> Range(T.keys)
    [] T.op = "and"  -> {k \in Key : \A i \in DOMAIN T.args : Bounded(T.args[i]) => k \in RKeysS(T.args[i], S, u)}
    [] T.op = "or"   -> UNION {RKeysS(T.args[i], S, u) : i \in DOMAIN T.args}
    [] OTHER -> Key
\* evalChild on a materialised child: key-set membership, then the child's eval.
\* eq / and keep their construction-time eval (a predicate on the decoded row); or / not
\* get a resolver-returned eval closed over their materialised children.
RECURSIVE MEvalS(_, _, _, _, _)
MEvalS(T, S, u, k, v) ==
  /\ Bounded(T) => k \in RKeysS(T, S, u)
  /\ CASE T.op \in {"eq", "and", "pred"} -> Holds(T, k, v)
       [] T.op = "keys" -> TRUE
       [] T.op = "or"   -> \E i \in DOMAIN T.args : MEvalS(T.args[i], S, u, k, v)
       [] T.op = "not"  -> ~MEvalS(T.arg, S, u, k, v)
\* Retrieve.Exec: candidates (execKeys) or every row (execFilter), fetched through the view
IdxQueryS(T, S, u) == {k \in RowsS(S, u) : MEvalS(T, S, u, k, ViewOfS(S, u)[k])}
IdxQuery(T, u) == IdxQueryS(T, Cur, u)

\* SortedQuery.walkOrder over committed state: the values visited, in order
Rep(v, n) == [i \in 1..n |-> v]
RECURSIVE AscFrom(_, _)
AscFrom(S, i) == IF i > NVal THEN <<>> ELSE Rep(AllVals[i], Cardinality(S.idx.f[AllVals[i]])) \o AscFrom(S, i + 1)
RECURSIVE DescFrom(_, _)
DescFrom(S, i) == IF i < 1 THEN <<>> ELSE Rep(AllVals[i], Cardinality(S.idx.f[AllVals[i]])) \o DescFrom(S, i - 1)
Take(s, n) == IF n = 0 \/ n >= Len(s) THEN s ELSE SubSeq(s, 1, n)
\* q = [dir, cur, lim]; cur = "none" when After was not called
WalkValsS(S, q) ==
  LET s == IF q.dir = "asc"
           THEN AscFrom(S, IF q.cur = "none" THEN 1 ELSE VRank(q.cur) + 1)
           ELSE DescFrom(S, IF q.cur = "none" THEN NVal ELSE VRank(q.cur) - 1)
  IN Take(s, q.lim)
WalkVals(q) == WalkValsS(Cur, q)

---------------------------------------------------------------------------
TxOK(t) == /\ tx[t].st \in {"idle", "open", "applied", "notified", "done"}
           /\ tx[t].w \in [Key -> Val \cup {Keep, Del}]
           /\ tx[t].d \in [Key -> Val \cup {Keep, Del}]
TypeOK == /\ phase \in {"pre", "open"}
          /\ kv \in [Key -> Val \cup {Absent}]
          /\ idx.r \in [Key -> Val \cup {Absent}]
          /\ idx.f \in [Val -> SUBSET Key]
          /\ \A t \in Tx : TxOK(t)

Init == /\ phase = "pre"
        /\ kv \in [Key -> Val \cup {Absent}]     \* any pre-existing table content
        /\ idx = EmptyIdx
        /\ tx = [t \in Tx |-> FreshTx]

\* OpenTable over pre-existing rows: every row is inserted once, under the index lock
Populate ==
  /\ phase = "pre"
  /\ phase' = "open"
  /\ idx' = IdxApply(EmptyIdx, [k \in Key |-> IF kv[k] = Absent THEN Keep ELSE kv[k]])
  /\ UNCHANGED <<kv, tx>>

Open(t) ==
  /\ phase = "open" /\ tx[t].st \in {"idle", "done"}
  /\ tx' = [tx EXCEPT ![t] = [FreshTx EXCEPT !.st = "open"]]
  /\ UNCHANGED <<phase, kv, idx>>

\* Writer.set / Writer.delete for a map of writes m, through view u
Write(u, m) ==
  /\ phase = "open" /\ u \in Views
  /\ IF u = DB
     THEN /\ kv' = KvOver(kv, m)               \* DirectAtomic
          /\ idx' = IdxApply(idx, m)
          /\ UNCHANGED tx
     ELSE /\ tx' = [tx EXCEPT ![u].w = WOver(@, m), ![u].d = WOver(@, m)]
          /\ UNCHANGED <<kv, idx>>
  /\ UNCHANGED phase
One(k, x) == [j \in Key |-> IF j = k THEN x ELSE Keep]
Many(S, x) == [j \in Key |-> IF j \in S THEN x ELSE Keep]

Set(u, k, v)  == Write(u, One(k, v))
\* result class of Upd: "notfound" when the row is not in the view, and nothing is written
UpdOut(u, k)  == IF ViewOf(u)[k] = Absent THEN "notfound" ELSE "ok"
Upd(u, k, v)  == /\ u \in Views /\ phase = "open"
                 /\ IF ViewOf(u)[k] = Absent
                    THEN UNCHANGED <<phase, kv, idx, tx>>
                    ELSE Write(u, One(k, v))
DelK(u, k)    == /\ u \in Views /\ phase = "open"
                 /\ IF ViewOf(u)[k] = Absent
                    THEN UNCHANGED <<phase, kv, idx, tx>>
                    ELSE Write(u, One(k, Del))
\* targets are chosen by an indexed query; by IndexEqualsScan that is the scan result
UpdEq(u, v, v2) == /\ u \in Views /\ v # v2
                   /\ Write(u, Many(IdxQuery(Eq(<<v>>), u), v2))
DelEq(u, v)     == /\ u \in Views
                   /\ Write(u, Many(IdxQuery(Eq(<<v>>), u), Del))

\* replicated write: below gorp, reaches the index through the change observer only
Remote(k, x) ==
  /\ phase = "open"
  /\ kv' = KvOver(kv, One(k, x))
  /\ idx' = IF x = Del THEN IdxDel(idx, k) ELSE IdxPut(idx, k, x)
  /\ UNCHANGED <<phase, tx>>

Finish(t) == [tx EXCEPT ![t] = [FreshTx EXCEPT !.st = "done"]]

Commit(t) ==
  /\ AtomicCommit /\ tx[t].st = "open"
  /\ kv' = KvOver(kv, tx[t].w)
  /\ idx' = IdxApply(IF SelfObserve THEN IdxApply(idx, tx[t].w) ELSE idx, tx[t].d)
  /\ tx' = Finish(t)
  /\ UNCHANGED phase
KVCommit(t) ==
  /\ ~AtomicCommit /\ tx[t].st = "open"
  /\ kv' = KvOver(kv, tx[t].w)
  /\ tx' = [tx EXCEPT ![t].st = "applied"]
  /\ UNCHANGED <<phase, idx>>
Notify(t) ==
  /\ ~AtomicCommit /\ SelfObserve /\ tx[t].st = "applied"
  /\ idx' = IdxApply(idx, tx[t].w)
  /\ tx' = [tx EXCEPT ![t].st = "notified"]
  /\ UNCHANGED <<phase, kv>>
Flush(t) ==
  /\ ~AtomicCommit /\ tx[t].st = (IF SelfObserve THEN "notified" ELSE "applied")
  /\ idx' = IdxApply(idx, tx[t].d)
  /\ tx' = Finish(t)
  /\ UNCHANGED <<phase, kv>>
Abort(t) ==
  /\ tx[t].st = "open"
  /\ tx' = Finish(t)
  /\ UNCHANGED <<phase, kv, idx>>

\* tx.Commit whose underlying kv commit returns an error: runCleanups(false), then Close.
\* For the table and the index this is an abort: nothing of the batch or the delta survives.
CommitFails(t) == Abort(t)

Next ==
  \/ Populate
  \/ \E t \in Tx : Open(t) \/ Commit(t) \/ KVCommit(t) \/ Notify(t) \/ Flush(t) \/ Abort(t) \/ CommitFails(t)
  \/ \E u \in Tx \cup {DB}, k \in Key, v \in Val : Set(u, k, v) \/ Upd(u, k, v)
  \/ \E u \in Tx \cup {DB}, k \in Key : DelK(u, k)
  \/ \E u \in Tx \cup {DB}, v \in Val, v2 \in Val : UpdEq(u, v, v2)
  \/ \E u \in Tx \cup {DB}, v \in Val : DelEq(u, v)
  \/ \E k \in Key, x \in Val \cup {Del} : Remote(k, x)
Spec == Init /\ [][Next]_vars

---------------------------------------------------------------------------
(* properties *)
NT == Len(Trees)
IdxWellFormed == \A k \in Key, v \in Val : k \in idx.f[v] <=> idx.r[k] = v
DeltaMatchesBatch == \A t \in Tx : tx[t].d = tx[t].w
\* C17 clause 1: a query answered through the index = the full scan, for every view and tree
IndexEqualsScan == phase = "open" =>
  \A u \in Views : \A i \in 1..NT : IdxQuery(Trees[i], u) = ScanQuery(Trees[i], u)
GetEqualsView == phase = "open" =>
  \A u \in Views : \A v \in Val : IdxGet(u, {v}) = {k \in Key : ViewOf(u)[k] = v}
\* a tx sees its own uncommitted writes ...
ReadYourWrites == \A t \in OpenTx : \A k \in Key :
  /\ tx[t].w[k] \in Val => /\ k \in IdxGet(t, {tx[t].w[k]})
                           /\ \A v \in Val \ {tx[t].w[k]} : k \notin IdxGet(t, {v})
  /\ tx[t].w[k] = Del => \A v \in Val : k \notin IdxGet(t, {v})
\* ... and nothing another tx has staged: whatever a view returns is committed or its own
Isolation == phase = "open" => \A u \in Views : \A k \in Key, v \in Val :
  k \in IdxGet(u, {v}) =>
     \/ u # DB /\ tx[u].w[k] = v
     \/ (u = DB \/ tx[u].w[k] = Keep) /\ kv[k] = v
\* a staged write changes nothing anybody else can observe
IsolationStep == [][\A t \in Tx :
  (tx[t].st = "open" /\ tx'[t].st = "open" /\ tx'[t].w # tx[t].w) =>
     /\ kv' = kv /\ idx' = idx
     /\ \A u \in Tx \ {t} : tx'[u] = tx[u]]_vars
\* after commit every reader that has not itself written the row sees the committed value
CommitVisible == [][\A t \in Tx : Commit(t) =>
                \A k \in Key : tx[t].w[k] # Keep =>
                     /\ kv'[k] = (IF tx[t].w[k] = Del THEN Absent ELSE tx[t].w[k])
                     /\ \A u \in Views' : (u = DB \/ tx'[u].w[k] = Keep) =>
                          \A v \in Val : (k \in IdxGet(u, {v}))' <=> tx[t].w[k] = v]_vars
\* after abort nobody sees anything of it
AbortVanishes == [][\A t \in Tx : (Abort(t) \/ CommitFails(t)) =>
  /\ kv' = kv /\ idx' = idx
  /\ \A u \in Views' : \A v \in Val : IdxGet(u, {v})' = IdxGet(u, {v})
  /\ \A u \in Views' : \A i \in 1..NT : IdxQuery(Trees[i], u)' = IdxQuery(Trees[i], u)]_vars
\* the committed index is exactly the inverse of the committed table (masked configuration)
CommittedIndexExact == phase = "open" => idx.r = kv
\* quiescent form: once every transaction has ended the index keeps nothing else
Quiet == \A t \in Tx : tx[t].st \in {"idle", "done"}
NoResidue == (phase = "open" /\ Quiet) => idx.r = kv
=============================================================================
