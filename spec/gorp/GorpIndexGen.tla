---- MODULE GorpIndexGen ----
(* GorpIndex + history variable: emits behaviours of length Depth as JSON. Every step
   record carries the call, the result class, and the abstract post-state the
   specification computed: committed rows, committed index (reverse map), the row map of
   every open view, the result set of every filter tree in every view and the value
   sequence of every ordered walk.  Commit is the atomic (masked) step; with Nest = "tx"
   ("set") a behaviour may contain one NestedCommit(t1, t2) (NestedSet(t1, k, v)): the
   as-written interleaving
       KVCommit(t1) ; KVCommit(t2) ; [Notify(t2)] ; Flush(t2) ; [Notify(t1)] ; Flush(t1)
   (Window_CommitFlush), which the harness reproduces by committing t2 from a kv change
   handler that runs inside t1's commit.  *)
EXTENDS GorpIndex, Json
CONSTANTS Depth, Nest,
          MaxDirect,  \* at most this many direct / replicated writes per behaviour (the
                      \* simulator picks successors uniformly; this keeps behaviours tx-heavy)
          MaxTxOps    \* at most this many staged calls per transaction before it ends
VARIABLES hist, nested, emitted, nd, nw
gvars == <<vars, hist, nested, emitted, nd, nw>>

\* ordered queries: direction x cursor x limit
OQ == <<
  [dir |-> "asc",  cur |-> "none", lim |-> 0], [dir |-> "desc", cur |-> "none", lim |-> 0],
  [dir |-> "asc",  cur |-> "none", lim |-> 1], [dir |-> "desc", cur |-> "none", lim |-> 1],
  [dir |-> "asc",  cur |-> "none", lim |-> 2], [dir |-> "desc", cur |-> "none", lim |-> 2],
  [dir |-> "asc",  cur |-> "a", lim |-> 0],    [dir |-> "desc", cur |-> "a", lim |-> 0],
  [dir |-> "asc",  cur |-> "a", lim |-> 1],    [dir |-> "desc", cur |-> "b", lim |-> 1],
  [dir |-> "asc",  cur |-> "a", lim |-> 2],    [dir |-> "desc", cur |-> "b", lim |-> 2],
  [dir |-> "asc",  cur |-> "b", lim |-> 0],    [dir |-> "desc", cur |-> "b", lim |-> 0],
  [dir |-> "asc",  cur |-> "b", lim |-> 3],    [dir |-> "desc", cur |-> "c", lim |-> 3] >>
OQok == {i \in DOMAIN OQ : OQ[i].cur = "none" \/ OQ[i].cur \in Val}

ASSUME PrintT(<<"TREES", ToJson(Trees)>>)
ASSUME PrintT(<<"OQS", ToJson(OQ)>>)

\* a step record is light (the call and the post-state); the expectations are expanded
\* from the recorded state when the behaviour is emitted
Rec(a, u, k, v, v2) ==
  [a |-> a, u |-> u, k |-> k, v |-> v, v2 |-> v2,
   out |-> IF a = "upd" THEN UpdOut(u, k) ELSE IF a = "commitfail" THEN "commitfail" ELSE "ok",
   S |-> Cur']
Expand(r) ==
  [a |-> r.a, u |-> r.u, k |-> r.k, v |-> r.v, v2 |-> r.v2, out |-> r.out,
   kv |-> r.S.kv, idx |-> r.S.idx.r,
   deltas |-> Cardinality({t \in OpenTxS(r.S) : r.S.tx[t].d # NoWrites}),  \* len(overlay.txDeltas)
   views |-> [w \in ViewsS(r.S) |-> ViewOfS(r.S, w)],
   q |-> [w \in ViewsS(r.S) |-> [i \in 1..NT |-> ScanQueryS(Trees[i], r.S, w)]],
   ord |-> [i \in DOMAIN OQ |-> IF i \in OQok THEN WalkValsS(r.S, OQ[i]) ELSE <<>>]]
Log(a, u, k, v, v2) ==
  /\ hist' = Append(hist, Rec(a, u, k, v, v2))
  /\ IF u = DB /\ a # "populate" THEN nd < MaxDirect /\ nd' = nd + 1 ELSE nd' = nd
  /\ IF u # DB /\ a \in {"set", "upd", "del", "updeq", "deleq", "delset"}
     THEN nw[u] < MaxTxOps /\ nw' = [nw EXCEPT ![u] = @ + 1]
     ELSE IF a = "open" THEN nw' = [nw EXCEPT ![u] = 0] ELSE nw' = nw
  /\ UNCHANGED <<nested, emitted>>

\* as-written interleaving of two commits (see header)
NestedCommit(t1, t2) ==
  /\ Nest = "tx" /\ ~nested /\ t1 # t2
  /\ tx[t1].st = "open" /\ tx[t2].st = "open"
  /\ kv' = KvOver(KvOver(kv, tx[t1].w), tx[t2].w)
  /\ idx' = IdxApply(IdxApply(idx, tx[t2].d), tx[t1].d)
  /\ tx' = [tx EXCEPT ![t1] = [FreshTx EXCEPT !.st = "done"], ![t2] = [FreshTx EXCEPT !.st = "done"]]
  /\ nested' = TRUE
  /\ UNCHANGED <<phase, emitted, nd, nw>>
  /\ hist' = Append(hist, Rec("nest", t1, "-", "-", t2))

\* the same window with a direct (non-tx) write to a row inside it
NestedSet(t1, k, v) ==
  /\ Nest = "set" /\ ~nested
  /\ tx[t1].st = "open" /\ tx[t1].w[k] # Keep      \* only rows the committing tx wrote
  /\ kv' = KvOver(KvOver(kv, tx[t1].w), One(k, v))
  /\ idx' = IdxApply(IdxPut(idx, k, v), tx[t1].d)
  /\ tx' = [tx EXCEPT ![t1] = [FreshTx EXCEPT !.st = "done"]]
  /\ nested' = TRUE
  /\ UNCHANGED <<phase, emitted, nd, nw>>
  /\ hist' = Append(hist, Rec("nestset", t1, k, v, "-"))

\* emission is an action (evaluated once, for the state the simulator actually chose)
EmitStep == /\ Len(hist) = Depth /\ ~emitted
          /\ PrintT(<<"HIST", ToJson([i \in DOMAIN hist |-> Expand(hist[i])])>>)
          /\ emitted' = TRUE
          /\ UNCHANGED <<vars, hist, nested, nd, nw>>
Step ==
  /\ Len(hist) < Depth
  /\ \/ Populate /\ Log("populate", DB, "-", "-", "-")
     \/ \E t \in Tx :
          \/ Open(t) /\ Log("open", t, "-", "-", "-")
          \/ /\ Commit(t) /\ Log("commit", t, "-", "-", "-")
             \* in a Nest behaviour the first commit made while another tx is open is a nested one
             /\ (Nest = "tx" /\ ~nested) => OpenTx = {t}
          \/ Abort(t) /\ Log("abort", t, "-", "-", "-")
          \/ CommitFails(t) /\ Log("commitfail", t, "-", "-", "-")
     \/ \E t1 \in Tx, t2 \in Tx : NestedCommit(t1, t2)
     \/ \E t1 \in Tx, k \in Key, v \in Val : NestedSet(t1, k, v)
     \/ \E u \in Tx \cup {DB}, k \in Key, v \in Val :
          \/ Set(u, k, v) /\ Log("set", u, k, v, "-")
          \/ Upd(u, k, v) /\ Log("upd", u, k, v, "-")
          \* two calls in one step: delete row k, then create it again with v (same view).
          \* The post-state is that of Set; what differs is the path through the staged delta
          \* (tombstone, then value) / the committed maps.
          \/ ViewOf(u)[k] # Absent /\ Set(u, k, v) /\ Log("delset", u, k, v, "-")
     \/ \E u \in Tx \cup {DB}, k \in Key : DelK(u, k) /\ Log("del", u, k, "-", "-")
     \/ \E u \in Tx \cup {DB}, v \in Val, v2 \in Val : UpdEq(u, v, v2) /\ Log("updeq", u, "-", v, v2)
     \/ \E u \in Tx \cup {DB}, v \in Val : DelEq(u, v) /\ Log("deleq", u, "-", v, "-")
     \/ \E k \in Key, x \in Val \cup {Del} : Remote(k, x) /\ Log("remote", DB, k, x, "-")
GNext == Step \/ EmitStep
GInit == Init /\ hist = <<>> /\ nested = FALSE /\ emitted = FALSE /\ nd = 0 /\ nw = [t \in Tx |-> 0]
GSpec == GInit /\ [][GNext]_gvars
\* the first record is always populate; its kv is the pre-existing table content
\* the invariants of the design spec that relate the emitted expectations to the index
GenSound == IndexEqualsScan /\ GetEqualsView
====
