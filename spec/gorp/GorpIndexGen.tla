---- MODULE GorpIndexGen ----
(* GorpIndex + history variable: emits behaviours of length Depth as JSON. Every step
   record carries the call, the result class, and the abstract post-state the
   specification computed: committed rows, committed index (reverse map), the row map of
   every open view, the result set of every filter tree in every view and the value
   sequence of every ordered walk.  Commit is the atomic (masked) step; with Nest = TRUE a
   behaviour may contain one NestedCommit(t1, t2): the as-written interleaving
       KVCommit(t1) ; KVCommit(t2) ; [Notify(t2)] ; Flush(t2) ; [Notify(t1)] ; Flush(t1)
   (Window_CommitFlush), which the harness reproduces by committing t2 from a kv change
   handler that runs inside t1's commit.  *)
EXTENDS GorpIndex, Json
CONSTANTS Depth, Nest
VARIABLES hist, nested
gvars == <<vars, hist, nested>>

\* ordered queries: direction x cursor x limit
OQ == <<
  [dir |-> "asc",  cur |-> "none", lim |-> 0], [dir |-> "desc", cur |-> "none", lim |-> 0],
  [dir |-> "asc",  cur |-> "none", lim |-> 1], [dir |-> "desc", cur |-> "none", lim |-> 1],
  [dir |-> "asc",  cur |-> "none", lim |-> 2], [dir |-> "desc", cur |-> "none", lim |-> 2],
  [dir |-> "asc",  cur |-> "a", lim |-> 0],    [dir |-> "desc", cur |-> "a", lim |-> 0],
  [dir |-> "asc",  cur |-> "a", lim |-> 1],    [dir |-> "desc", cur |-> "b", lim |-> 1],
  [dir |-> "asc",  cur |-> "a", lim |-> 2],    [dir |-> "desc", cur |-> "b", lim |-> 2],
  [dir |-> "asc",  cur |-> "b", lim |-> 0],    [dir |-> "desc", cur |-> "b", lim |-> 0],
  [dir |-> "asc",  cur |-> "b", lim |-> 3],    [dir |-> "desc", cur |-> "c", lim |-> 3] >>
OQok == {i \in DOMAIN OQ : OQ[i].cur = "none" \/ OQ[i].cur \in Val}

ASSUME PrintT(<<"TREES", ToJson(Trees)>>)
ASSUME PrintT(<<"OQS", ToJson(OQ)>>)

Rec(a, u, k, v, v2) ==
  [a |-> a, u |-> u, k |-> k, v |-> v, v2 |-> v2, out |-> out',
   kv |-> kv', idx |-> idx'.r,
   views |-> [w \in Views' |-> ViewOf(w)'],
   q |-> [w \in Views' |-> [i \in 1..NT |-> ScanQuery(Trees[i], w)']],
   ord |-> [i \in DOMAIN OQ |-> IF i \in OQok THEN WalkVals(OQ[i])' ELSE <<>>]]
Log(a, u, k, v, v2) == hist' = Append(hist, Rec(a, u, k, v, v2)) /\ UNCHANGED nested

\* as-written interleaving of two commits (see header)
NestedCommit(t1, t2) ==
  /\ Nest /\ ~nested /\ t1 # t2
  /\ tx[t1].st = "open" /\ tx[t2].st = "open"
  /\ kv' = KvOver(KvOver(kv, tx[t1].w), tx[t2].w)
  /\ idx' = IdxApply(IdxApply(idx, tx[t2].d), tx[t1].d)
  /\ tx' = [tx EXCEPT ![t1] = [FreshTx EXCEPT !.st = "done"], ![t2] = [FreshTx EXCEPT !.st = "done"]]
  /\ out' = "commit"
  /\ nested' = TRUE
  /\ UNCHANGED phase
  /\ hist' = Append(hist, Rec("nest", t1, "-", "-", t2))

GNext ==
  /\ Len(hist) < Depth
  /\ \/ Populate /\ Log("populate", DB, "-", "-", "-")
     \/ \E t \in Tx :
          \/ Open(t) /\ Log("open", t, "-", "-", "-")
          \/ Commit(t) /\ Log("commit", t, "-", "-", "-")
          \/ Abort(t) /\ Log("abort", t, "-", "-", "-")
     \/ \E t1 \in Tx, t2 \in Tx : NestedCommit(t1, t2)
     \/ \E u \in Tx \cup {DB}, k \in Key, v \in Val :
          \/ Set(u, k, v) /\ Log("set", u, k, v, "-")
          \/ Upd(u, k, v) /\ Log("upd", u, k, v, "-")
     \/ \E u \in Tx \cup {DB}, k \in Key : DelK(u, k) /\ Log("del", u, k, "-", "-")
     \/ \E u \in Tx \cup {DB}, v \in Val, v2 \in Val : UpdEq(u, v, v2) /\ Log("updeq", u, "-", v, v2)
     \/ \E u \in Tx \cup {DB}, v \in Val : DelEq(u, v) /\ Log("deleq", u, "-", v, "-")
     \/ \E k \in Key, x \in Val \cup {Del} : Remote(k, x) /\ Log("remote", DB, k, x, "-")
GInit == Init /\ hist = <<>> /\ nested = FALSE
GSpec == GInit /\ [][GNext]_gvars

\* the pre-existing rows are the first record's concern: the harness reads them from `pre`
Emit == Len(hist) # Depth \/ PrintT(<<"HIST", ToJson(hist)>>)
\* the invariants of the design spec that relate the emitted expectations to the index
GenSound == IndexEqualsScan /\ GetEqualsView
====
