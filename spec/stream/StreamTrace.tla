---------------------------- MODULE StreamTrace ----------------------------
(* Trace validation: is the recorded sequence of call/return events of the real transports
   (many scripts, concatenated, separated by "reset" events) a behaviour of Stream?
   Events (all fields always present):
     [ev |-> "reset"]                      a new stream
     [ev |-> "call", s, op, id, k]         s \in {"c","h"}; id = message identity of a Send;
                                           k = class the client must observe (handler "ret")
     [ev |-> "ret",  s, op, res, id]       res = class of the returned value; id for res="msg"
   The effect steps CDo/HDo/DeliverClose are silent and may happen anywhere between a call's
   "call" and "ret" events. Acceptance: the cursor reaches the end of the trace (high-water
   mark in TLC register 1, -workers 1). Every invariant of Stream is evaluated in every state
   of every matching behaviour.                                                              *)
EXTENDS Stream, Json
VARIABLE l
Trace == ndJsonDeserialize("trace.ndjson")
ASSUME TLCSet(1, 0)
E == Trace[l]
More == l <= Len(Trace)

TInit == Init /\ l = 1

TReset ==
  /\ More /\ E.ev = "reset"
  /\ c2s' = <<>> /\ s2c' = <<>>
  /\ cClosed' = FALSE /\ cKnows' = FALSE /\ cTerm' = "none"
  /\ hState' = "running" /\ hKind' = "none" /\ hEOF' = FALSE
  /\ cNext' = 1 /\ hNext' = 1
  /\ sentC' = <<>> /\ sentS' = <<>> /\ recvC' = <<>> /\ recvS' = <<>>
  /\ cPC' = "idle" /\ cOp' = "none" /\ cArg' = 0 /\ cRes' = NoRes
  /\ hPC' = "idle" /\ hOp' = "none" /\ hArg' = "none" /\ hRes' = NoRes
  /\ cPost' = <<>>
  /\ l' = l + 1

TCallC ==
  /\ More /\ E.ev = "call" /\ E.s = "c"
  /\ E.op = "send" => E.id = cNext
  /\ CCall(E.op)
  /\ l' = l + 1
TCallH ==
  /\ More /\ E.ev = "call" /\ E.s = "h"
  /\ E.op = "send" => E.id = hNext
  /\ HCall(E.op, IF E.op = "ret" THEN E.k ELSE "none")
  /\ l' = l + 1
Match(r) == r.r = E.res /\ (E.res = "msg" => r.id = E.id)
TRetC ==
  /\ More /\ E.ev = "ret" /\ E.s = "c"
  /\ cOp = E.op /\ cPC = "done" /\ Match(cRes)
  /\ CRet
  /\ l' = l + 1
TRetH ==
  /\ More /\ E.ev = "ret" /\ E.s = "h"
  /\ hOp = E.op /\ hPC = "done" /\ Match(hRes)
  /\ HRet
  /\ l' = l + 1
TSilent == (CDo \/ HDo \/ DeliverClose) /\ UNCHANGED l

TNext == TReset \/ TCallC \/ TCallH \/ TRetC \/ TRetH \/ TSilent
TSpec == TInit /\ [][TNext]_<<vars, l>>

Mark == IF l > TLCGet(1) THEN TLCSet(1, l) ELSE TRUE
Accepted == \/ TLCGet(1) = Len(Trace) + 1
            \/ (PrintT(<<"HW", TLCGet(1)>>) /\ FALSE)
=============================================================================
