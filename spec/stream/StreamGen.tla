----------------------------- MODULE StreamGen -----------------------------
(* Stream + history variable: emits interleaved client/handler scripts as JSON.
   A script is the sequence of "call" and "ret" events of one behaviour; the silent effect
   steps (CDo/HDo) are not part of it. The harness issues the call of a "call" event and
   waits for that call's completion at its "ret" event (a barrier), so calls of the two sides
   overlap exactly as in the behaviour. DeliverClose is left out: the generator uses the most
   conservative enabledness (a Send needs room until the client has seen the terminal), which
   keeps every script deadlock-free on every transport whose capacity is >= Cap.
   Budget rule: a call is issued only if the events needed to complete every pending call still
   fit into Depth, so emitted scripts never end with a call in flight.                          *)
EXTENDS Stream, Json
CONSTANTS Depth,       \* script length in events
          MaxClose,    \* bound on CloseSend calls per script
          MaxPost      \* bound on client calls issued after the terminal was observed
VARIABLE hist
Pending == (IF cPC # "idle" THEN 1 ELSE 0) + (IF hPC # "idle" THEN 1 ELSE 0)
Ev(e, s, op) == [e |-> e, s |-> s, op |-> op]
Count(e, s, op) == Cardinality({i \in DOMAIN hist : hist[i] = Ev(e, s, op)})
PostCalls == Len(cPost) + (IF cTerm # "none" /\ cPC # "idle" THEN 1 ELSE 0)
Budget == Len(hist) + Pending + 2 <= Depth
GNext ==
  \/ /\ Budget
     /\ \E op \in {"send", "close", "recv"} :
          /\ op = "close" => Count("call", "c", "close") < MaxClose
          /\ cTerm # "none" => PostCalls < MaxPost
          /\ CCall(op) /\ hist' = Append(hist, Ev("call", "c", op))
  \/ /\ Budget
     /\ \E op \in {"send", "recv", "ret"} :
          /\ HCall(op, IF op = "ret" THEN "err" ELSE "none")
          /\ hist' = Append(hist, Ev("call", "h", op))
  \/ (CDo /\ UNCHANGED hist)
  \/ (HDo /\ UNCHANGED hist)
  \/ (CRet /\ hist' = Append(hist, Ev("ret", "c", cOp)))
  \/ (HRet /\ hist' = Append(hist, Ev("ret", "h", hOp)))
GInit == Init /\ hist = <<>>
GSpec == GInit /\ [][GNext]_<<vars, hist>>
Emit == ~(Pending = 0 /\ Len(hist) >= Depth - 1) \/ PrintT(<<"HIST", ToJson(hist)>>)
=============================================================================
