------------------------------- MODULE Stream -------------------------------
(* One freighter stream (freighter/go/stream.go ClientStream / ServerStream) as implemented
   by the three Go transports:
     mock  freighter/go/mock/stream.go   (Go channels; buffer size = Cap)
     ws    freighter/go/http/stream*.go  (WebSocket; typed "close" message carries the error)
     grpc  freighter/go/grpc/stream.go   (grpc-go bidi stream; status/trailers carry the error)

   Every public call is three steps so that calls of the two sides may overlap:
     CCall/HCall  the call starts                      (trace event "call")
     CDo/HDo      its effect, one atomic step          (silent; anywhere inside the window)
     CRet/HRet    the call returns cRes/hRes           (trace event "ret")
   Action <-> code:
     CDo "send"   mock ClientStream.Send: select{requests<-msg | serverClosed -> EOF};
                  ws clientStream.Send: peerCloseErr!=nil -> EOF, sendClosed -> StreamClosed, else write;
                  grpc ClientStream.Send: closeSent -> StreamClosed, SendMsg (io.EOF once finished)
     CDo "close"  CloseSend: mock enqueues an EOF-typed message; ws sends a "close" message;
                  grpc half-closes. In every transport it travels behind earlier requests.
     CDo "recv"   client Receive: next response, or the terminal result which is then cached
                  (mock receiveErr, ws peerCloseErr, grpc finished stream).
     HDo "recv"   handler Receive: next request, or EOF once the CloseSend marker is reached (cached)
     HDo "send"   handler Send
     HDo "ret"    the handler function returns error kind k: the transport appends the terminal
                  marker behind all responses (mock exec; ws serverStream.close; grpc status).
     DeliverClose transport step: the client's transport learns that the server closed before
                  the application called Receive (mock: serverClosed channel observed by Send's
                  select; grpc: trailers processed). This is the legal nondeterminism "a Send
                  racing with / following the handler's return may succeed or return EOF".
   Queues c2s / s2c are FIFO with capacity Cap messages; a blocked receiver adds one slot
   (Go unbuffered-channel rendezvous when Cap = 0). Network transports have a larger, byte-based
   capacity: a script generated for capacity Cap is deadlock-free on any transport whose real
   capacity is >= Cap (the trace specification therefore uses a large Cap).

   Projection used by the harness (harness/freighter/go/zz_verif_stream_test.go):
     cRes.r / hRes.r <- class of the value returned by the real call:
         "nil" | "msg" (id = payload identity, verified byte-for-byte against the pattern of that
         id and size) | the name of the error kind matched with errors.Is (eof, closed, custom,
         canceled, ...) | "other:<text>" / "panic:<text>" (never produced by the spec)
     Term(k)         <- class the client must observe when the handler returned kind k
     Everything else (queues, cKnows, ghosts) is internal and reconstructed by trace validation.

   Pinned beyond the property statement (a disagreement here is drift, not a violation):
     - CloseSend returns nil.
     - handler Send returns nil while the handler is running.
     - client Send while the handler has not returned: nil, or StreamClosed after CloseSend
       (the property only says what Send returns once the stream has ended).
     - Not modelled: client-side context cancellation, transport failure, and the WebSocket
       server's 500 ms close deadline (a client idle for longer after the handler's return).  *)
EXTENDS Naturals, Sequences, FiniteSets, TLC

CONSTANTS Cap,      \* queue capacity per direction, in messages
          MaxMsg,   \* bound on Send calls per side
          Kinds,    \* set of strings: what the handler may return ("nil" = nil error)
          CloseNeedsRoom  \* named deviation, see CCloseDo

VARIABLES
  c2s, s2c,                 \* FIFO queues of items [t, id, k]
  cClosed,                  \* client called CloseSend
  cKnows,                   \* client transport knows the server closed
  cTerm,                    \* cached terminal result at the client ("none" = not yet)
  hState, hKind,            \* "running" | "returned"; kind the handler returned
  hEOF,                     \* handler has seen end-of-requests (cached)
  cNext, hNext,             \* next message id per side
  sentC, sentS, recvC, recvS,   \* ghost: ids sent (accepted) / received per side
  cPC, cOp, cArg, cRes,     \* client call in progress: "idle" | "called" | "done"
  hPC, hOp, hArg, hRes,     \* handler call in progress
  cPost                     \* ghost: client results observed after the terminal was cached

qvars == <<c2s, s2c>>
cvars == <<cClosed, cKnows, cTerm, cNext, cPC, cOp, cArg, cRes, cPost>>
hvars == <<hState, hKind, hEOF, hNext, hPC, hOp, hArg, hRes>>
gvars == <<sentC, sentS, recvC, recvS>>
vars == <<qvars, cvars, hvars, gvars>>

Item(t, id, k) == [t |-> t, id |-> id, k |-> k]
Res(r, id) == [r |-> r, id |-> id]
NoRes == Res("none", 0)
\* what the client must observe for handler result k: nil and EOF both end the stream normally
Term(k) == IF k \in {"nil", "eof"} THEN "eof" ELSE k

CWaiting == cPC = "called" /\ cOp = "recv"
HWaiting == hPC = "called" /\ hOp = "recv"
Room(q, waiting) == Len(q) < Cap + (IF waiting THEN 1 ELSE 0)

Init ==
  /\ c2s = <<>> /\ s2c = <<>>
  /\ cClosed = FALSE /\ cKnows = FALSE /\ cTerm = "none"
  /\ hState = "running" /\ hKind = "none" /\ hEOF = FALSE
  /\ cNext = 1 /\ hNext = 1
  /\ sentC = <<>> /\ sentS = <<>> /\ recvC = <<>> /\ recvS = <<>>
  /\ cPC = "idle" /\ cOp = "none" /\ cArg = 0 /\ cRes = NoRes
  /\ hPC = "idle" /\ hOp = "none" /\ hArg = "none" /\ hRes = NoRes
  /\ cPost = <<>>

----------------------------------------------------------------------------
(* client *)
CCall(op) ==
  /\ cPC = "idle"
  /\ op \in {"send", "close", "recv"}
  /\ op = "send" => cNext <= MaxMsg
  /\ cPC' = "called" /\ cOp' = op
  /\ cArg' = IF op = "send" THEN cNext ELSE 0
  /\ cNext' = IF op = "send" THEN cNext + 1 ELSE cNext
  /\ UNCHANGED <<qvars, cClosed, cKnows, cTerm, cRes, cPost, hvars, gvars>>

\* ghost log of post-terminal client results, capped to keep the state space finite
Post(r) == IF Len(cPost) < 3 THEN Append(cPost, r) ELSE cPost
SendFail == (IF cClosed THEN {"closed"} ELSE {}) \cup (IF cKnows THEN {"eof"} ELSE {})
CSendDo ==
  /\ cPC = "called" /\ cOp = "send"
  /\ IF cClosed \/ cKnows
     THEN \* documented failure results; both orders of the two tests exist in the transports
          /\ \E r \in SendFail : cRes' = Res(r, 0)
          /\ UNCHANGED <<c2s, sentC>>
     ELSE /\ Room(c2s, HWaiting)
          /\ c2s' = Append(c2s, Item("msg", cArg, "none"))
          /\ sentC' = Append(sentC, cArg)
          /\ cRes' = Res("nil", 0)
  /\ cPC' = "done"
  /\ cPost' = IF cTerm # "none" THEN Post(cRes') ELSE cPost
  /\ UNCHANGED <<s2c, cClosed, cKnows, cTerm, cNext, cOp, cArg, hvars, sentS, recvC, recvS>>

\* Deviation CloseNeedsRoom (mock only, as written): mock ClientStream.CloseSend enqueues its
\* marker with a plain blocking channel send unless an earlier Send already failed, so after the
\* server closed with the request buffer full it never returns. The property does not speak
\* about CloseSend's termination; the generator sets CloseNeedsRoom = TRUE so that no script
\* depends on it, the design check covers both values.
CCloseDo ==
  /\ cPC = "called" /\ cOp = "close"
  /\ IF cClosed \/ (cKnows /\ ~CloseNeedsRoom)
     THEN UNCHANGED c2s
     ELSE /\ Room(c2s, HWaiting)
          /\ c2s' = Append(c2s, Item("fin", 0, "none"))
  /\ cClosed' = TRUE
  /\ cRes' = Res("nil", 0) /\ cPC' = "done"
  /\ UNCHANGED <<s2c, cKnows, cTerm, cNext, cOp, cArg, cPost, hvars, gvars>>

CRecvDo ==
  /\ cPC = "called" /\ cOp = "recv"
  /\ IF cTerm # "none"
     THEN /\ cRes' = Res(cTerm, 0)
          /\ cPost' = Post(cRes')
          /\ UNCHANGED <<s2c, cTerm, cKnows, recvC>>
     ELSE /\ s2c # <<>>
          /\ s2c' = Tail(s2c)
          /\ cPost' = cPost
          /\ IF Head(s2c).t = "msg"
             THEN /\ cRes' = Res("msg", Head(s2c).id)
                  /\ recvC' = Append(recvC, Head(s2c).id)
                  /\ UNCHANGED <<cTerm, cKnows>>
             ELSE /\ cTerm' = Term(Head(s2c).k)
                  /\ cKnows' = TRUE
                  /\ cRes' = Res(Term(Head(s2c).k), 0)
                  /\ UNCHANGED recvC
  /\ cPC' = "done"
  /\ UNCHANGED <<c2s, cClosed, cNext, cOp, cArg, hvars, sentC, sentS, recvS>>

CDo == CSendDo \/ CCloseDo \/ CRecvDo

CRet ==
  /\ cPC = "done" /\ cPC' = "idle"
  /\ UNCHANGED <<qvars, cClosed, cKnows, cTerm, cNext, cOp, cArg, cRes, cPost, hvars, gvars>>

----------------------------------------------------------------------------
(* handler *)
HCall(op, k) ==
  /\ hState = "running" /\ hPC = "idle"
  /\ op \in {"send", "recv", "ret"}
  /\ op = "send" => hNext <= MaxMsg
  /\ IF op = "ret" THEN k \in Kinds ELSE k = "none"
  /\ hPC' = "called" /\ hOp' = op /\ hArg' = k
  /\ hNext' = IF op = "send" THEN hNext + 1 ELSE hNext
  /\ UNCHANGED <<qvars, cvars, hState, hKind, hEOF, hRes, gvars>>

HSendDo ==
  /\ hPC = "called" /\ hOp = "send"
  /\ Room(s2c, CWaiting)
  /\ s2c' = Append(s2c, Item("msg", hNext - 1, "none"))
  /\ sentS' = Append(sentS, hNext - 1)
  /\ hRes' = Res("nil", 0) /\ hPC' = "done"
  /\ UNCHANGED <<c2s, cvars, hState, hKind, hEOF, hNext, hOp, hArg, sentC, recvC, recvS>>

HRecvDo ==
  /\ hPC = "called" /\ hOp = "recv"
  /\ IF hEOF
     THEN /\ hRes' = Res("eof", 0)
          /\ UNCHANGED <<c2s, hEOF, recvS>>
     ELSE /\ c2s # <<>>
          /\ c2s' = Tail(c2s)
          /\ IF Head(c2s).t = "msg"
             THEN /\ hRes' = Res("msg", Head(c2s).id)
                  /\ recvS' = Append(recvS, Head(c2s).id)
                  /\ UNCHANGED hEOF
             ELSE /\ hEOF' = TRUE
                  /\ hRes' = Res("eof", 0)
                  /\ UNCHANGED recvS
  /\ hPC' = "done"
  /\ UNCHANGED <<s2c, cvars, hState, hKind, hNext, hOp, hArg, sentC, sentS, recvC>>

\* the handler function returns: terminal marker goes behind every response already sent.
\* (mock: the marker is enqueued by the exec goroutine, it does not need room for HRet)
HReturnDo ==
  /\ hPC = "called" /\ hOp = "ret"
  /\ hState' = "returned" /\ hKind' = hArg
  /\ s2c' = Append(s2c, Item("term", 0, hArg))
  /\ hRes' = Res("nil", 0) /\ hPC' = "done"
  /\ UNCHANGED <<c2s, cvars, hEOF, hNext, hOp, hArg, gvars>>

HDo == HSendDo \/ HRecvDo \/ HReturnDo

HRet ==
  /\ hPC = "done" /\ hPC' = "idle"
  /\ UNCHANGED <<qvars, cvars, hState, hKind, hEOF, hNext, hOp, hArg, hRes, gvars>>

----------------------------------------------------------------------------
(* transport *)
DeliverClose ==
  /\ hState = "returned" /\ ~cKnows
  /\ cKnows' = TRUE
  /\ UNCHANGED <<qvars, cClosed, cTerm, cNext, cPC, cOp, cArg, cRes, cPost, hvars, gvars>>

Next == \/ \E op \in {"send", "close", "recv"} : CCall(op)
        \/ CDo \/ CRet
        \/ \E op \in {"send", "recv"} : HCall(op, "none")
        \/ \E k \in Kinds : HCall("ret", k)
        \/ HDo \/ HRet
        \/ DeliverClose

Fair == WF_vars(CDo) /\ WF_vars(HDo) /\ WF_vars(CRet) /\ WF_vars(HRet)
Spec == Init /\ [][Next]_vars /\ Fair

----------------------------------------------------------------------------
(* properties, one per clause of C14 *)
IsPrefix(a, b) == Len(a) <= Len(b) /\ \A i \in 1..Len(a) : a[i] = b[i]
Increasing(s) == \A i \in 1..Len(s) : \A j \in 1..Len(s) : i < j => s[i] < s[j]

ResOK(r) == r = NoRes \/ (r.r \in {"nil", "msg", "eof", "closed"} \cup {Term(k) : k \in Kinds})
TypeOK ==
  /\ cPC \in {"idle", "called", "done"} /\ hPC \in {"idle", "called", "done"}
  /\ cOp \in {"none", "send", "close", "recv"} /\ hOp \in {"none", "send", "recv", "ret"}
  /\ hState \in {"running", "returned"}
  /\ cTerm \in {"none"} \cup {Term(k) : k \in Kinds}
  /\ ResOK(cRes) /\ ResOK(hRes)
  /\ \A i \in 1..Len(c2s) : c2s[i].t \in {"msg", "fin"}
  /\ \A i \in 1..Len(s2c) : s2c[i].t \in {"msg", "term"}

\* the receiving side sees a prefix of what was sent, in send order, without duplicates
PrefixInOrder ==
  /\ IsPrefix(recvS, sentC) /\ IsPrefix(recvC, sentS)
  /\ Increasing(recvS) /\ Increasing(recvC)

\* the terminal result reaches the client only after every response sent before the return
NoLossBeforeReturn == cTerm # "none" => recvC = sentS

\* EOF for nil (and EOF), the same kind for every other registered kind
TerminalMatches == cTerm # "none" => (hState = "returned" /\ cTerm = Term(hKind))

\* once cached, the terminal result never changes, no further message is delivered, and
\* every later Receive returns it / every later Send returns EOF (or StreamClosed after CloseSend)
TerminalStableInv ==
  \A i \in 1..Len(cPost) : \/ cPost[i].r = cTerm
                           \/ cPost[i].r \in {"eof", "closed"}
TerminalStable ==
  [][cTerm # "none" => (cTerm' = cTerm /\ recvC' = recvC)]_vars
TerminalStableRecv ==
  [][(cTerm # "none" /\ cPC = "called" /\ cOp = "recv" /\ cPC' = "done") => cRes'.r = cTerm]_vars
TerminalStableSend ==
  [][(cTerm # "none" /\ cPC = "called" /\ cOp = "send" /\ cPC' = "done")
       => (cRes'.r \in {"eof", "closed"} /\ (cRes'.r = "closed" => cClosed))]_vars

\* the handler sees end-of-stream only after all earlier requests
CloseSendSeenAfterRequests == hEOF => (cClosed /\ recvS = sentC)

\* closing the sending side does not stop the client from receiving
ReceiveAfterCloseSend ==
  (cClosed /\ cPC = "called" /\ cOp = "recv" /\ (s2c # <<>> \/ cTerm # "none")) => ENABLED CRecvDo

\* a Receive issued after the handler returned eventually returns
ReceiveAfterReturnReturns ==
  (hState = "returned" /\ cPC = "called" /\ cOp = "recv") ~> (cPC = "idle")

\* vacuity witnesses: tools/props/c14.py requires TLC to violate each of them (reachability)
WitTermErr == ~(cTerm \notin {"none", "eof"} /\ Len(recvC) >= 2)
WitHEOF == ~(hEOF /\ Len(recvS) >= 2 /\ Len(recvC) >= 1)
WitSendRace == ~(cPC = "done" /\ cOp = "send" /\ cRes.r = "eof" /\ cTerm = "none")
=============================================================================
