---- MODULE CesiumIterGen ----
(* Generator of iterator command sequences (the stimuli of C10's trace validation).
   The sequences are layout independent: the harness runs each against many stored
   layouts (CesiumStoreGen scripts), bounds, chunk sizes and both drive modes, and
   CesiumIterTrace.tla judges what the real iterators report.
   Times are EXTENDED abstract times of the layout's CesiumStore script:
     -1 = before all data, 0..MaxT = the abstract times (even = sample slots, odd = the
     points between), MaxT+1 = after all data.
   Span kinds are concretised by the harness relative to the timestamp map:
     ns1 (1 ns), sub (a third of the sample spacing), one (the spacing), x25 (2.5 spacings),
     whole (span of the bounds), over (more than the bounds), hopK (up to the K-th next
     abstract point: view ends exactly on samples / between samples whatever the map).
   Families (constant Mode):
     "mixed"  every sequence  seek step* [setbounds seek step*]  of length Depth (BFS;
              shorter ones are prefixes) - or random ones with -simulate
     "sweep"  seek, then one step repeated, with at most one turn into one repeated
              step of the other direction (full traversals, also after a turn)          *)
EXTENDS Integers, Sequences, FiniteSets, TLC, Json
CONSTANTS Depth, Mode,
          SeekT,      \* seek arguments (extended abstract times + 2: cfg files cannot hold negative numbers)
          Kinds,      \* span kinds
          BoundsT,    \* bounds ends for setbounds (extended abstract times + 2)
          MaxSeeks    \* seeks per sequence ("mixed")
VARIABLES hist
Cmd(c, k, t, a, b) == [c |-> c, k |-> k, t |-> t, a |-> a, b |-> b]
Seeks == {Cmd("seekfirst", "", 0, 0, 0), Cmd("seeklast", "", 0, 0, 0)}
           \cup {Cmd(c, "", t - 2, 0, 0) : c \in {"seekle", "seekge"}, t \in SeekT}
FwdSteps == {Cmd("next", k, 0, 0, 0) : k \in Kinds} \cup {Cmd("nextauto", "", 0, 0, 0)}
BwdSteps == {Cmd("prev", k, 0, 0, 0) : k \in Kinds} \cup {Cmd("prevauto", "", 0, 0, 0)}
Steps == FwdSteps \cup BwdSteps
SetBs == {Cmd("setbounds", "", 0, a - 2, b - 2) : a \in BoundsT, b \in BoundsT}
IsSeek(x) == x.c \in {"seekfirst", "seeklast", "seekle", "seekge"}
Count(P(_)) == Cardinality({i \in DOMAIN hist : P(hist[i])})
IsSetB(x) == x.c = "setbounds"
Last == hist[Len(hist)]

Mixed(x) ==
  IF Len(hist) = 0 \/ IsSetB(Last) THEN x \in Seeks
  ELSE \/ x \in Steps
       \/ x \in Seeks /\ Count(IsSeek) < MaxSeeks /\ ~IsSeek(Last)
       \/ x \in {s \in SetBs : s.a < s.b} /\ Count(IsSetB) = 0 /\ Len(hist) < Depth - 1

Dir(x) == IF x \in FwdSteps THEN "f" ELSE "b"
Sweep(x) ==
  IF Len(hist) = 0 THEN x \in Seeks
  ELSE IF Len(hist) = 1 THEN x \in Steps
  ELSE /\ x \in Steps
       /\ \/ x = Last                                        \* keep going
          \/ /\ Dir(x) # Dir(Last)                           \* the one turn
             /\ \A i \in 2..Len(hist) : hist[i] = hist[2]

GInit == hist = <<>>
GNext == /\ Len(hist) < Depth
         /\ \E x \in Seeks \cup Steps \cup SetBs :
              /\ IF Mode = "sweep" THEN Sweep(x) ELSE Mixed(x)
              /\ hist' = Append(hist, x)
GSpec == GInit /\ [][GNext]_hist
\* simulation: the chosen behaviour is printed when it reaches Depth (one more stuttering
\* free step marks the end so that only complete walks print)
Emit == Len(hist) # Depth \/ PrintT(<<"HIST", ToJson(hist)>>)
====
