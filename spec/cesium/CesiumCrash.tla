---------------------------- MODULE CesiumCrash ----------------------------
(* File-system-granular model of how ONE cesium channel persists its domain index, data
   files and channel directory, with a process crash possible between any two
   file-system calls (C02).  cesium/internal/domain/{writer,index_persist,delete,
   file_controller}.go and cesium/internal/meta/meta.go, in the order the code issues
   the calls:

     commit (persisting)   append data (already done by Write) ; update pointers in memory ;
                           Truncate(index.domain, len*26) ; WriteAt(index.domain, from persistHead)
     delete                pointer surgery in memory ; Truncate ; WriteAt
     garbage collection    create N_gc ; copy live regions ; shift offsets in memory ;
                           Rename(N, N_temp) ; Rename(N_gc, N) ; Remove(N_temp) ;
                           (after all files) Truncate ; WriteAt(index.domain, 0)
     channel creation      mkdir ; create+write meta.json.tmp ; Rename(meta.json.tmp, meta.json)

   Abstract content: a sample is a natural number (its identity); a data file is a
   sequence of samples; a pointer is [file, off, n] and addresses SubSeq(file, off+1,
   off+n).  The durable index is a sequence of records, each a pointer or the value
   Torn (a record whose bytes mix an old and a new pointer).

   The three guard constants name the windows the code has AS IT IS; with all of them
   FALSE ("masked") the crash/recover invariants hold - TLC then shows there is no other
   window in this protocol - and with any of them TRUE ("as is") TLC produces the
   counterexample that the real-code crash enumeration (zz_verif_crash_test.go) finds
   and known_findings.json lists:
     TornIndexWrite    WriteAt of a pointer record may be torn            (C02-torn-index-write)
     TruncateThenWrite a crash may fall between Truncate and WriteAt      (C02-torn-index-write)
     GCWindow          a crash may fall between GC's renames and the final
                       index persist                                       (C02-gc-swap-window)
     CreateWindow      a crash may fall between mkdir and the meta rename  (C02-channel-create-window) *)
EXTENDS Integers, Sequences, FiniteSets, TLC
CONSTANTS MaxSamples,      \* samples ever appended
          MaxPtrs,         \* pointers in the index
          TornIndexWrite, TruncateThenWrite, GCWindow, CreateWindow
Torn == [file |-> 0, off |-> 0, n |-> 0, torn |-> TRUE]
Ptr(f, o, n) == [file |-> f, off |-> o, n |-> n, torn |-> FALSE]
VARIABLES dir,        \* "none" | "dir" | "tmp" | "ready": channel directory state on disk
          files,      \* [1..2 -> Seq(Nat)] data files on disk (file 2 doubles as N_gc target)
          present,    \* [1..2 -> BOOLEAN] does N.domain exist
          gcfile,     \* Seq(Nat): content of 1.domain_gc (<<>> when absent)
          disk,       \* Seq(record): index.domain on disk
          mem,        \* Seq(pointer): pointers in memory
          next,       \* next sample identity
          durable,    \* ghost: samples whose commit completed with index persistence
          pc,         \* "idle" | "trunc" | "write" | "gc1".."gc5" | "crashed" (gc4/gc5 = GC's final persist)
          head        \* persist head of the persist in progress
vars == <<dir, files, present, gcfile, disk, mem, next, durable, pc, head>>

Init == /\ dir = "none" /\ files = [f \in 1..2 |-> <<>>] /\ present = [f \in 1..2 |-> FALSE]
        /\ gcfile = <<>> /\ disk = <<>> /\ mem = <<>> /\ next = 1 /\ durable = {} /\ pc = "idle" /\ head = 1

\* ---- channel creation: mkdir ; write meta.json.tmp ; rename
Mkdir == pc = "idle" /\ dir = "none" /\ dir' = "dir" /\ UNCHANGED <<files, present, gcfile, disk, mem, next, durable, pc, head>>
WriteTmp == pc = "idle" /\ dir = "dir" /\ dir' = "tmp" /\ UNCHANGED <<files, present, gcfile, disk, mem, next, durable, pc, head>>
RenameMeta == /\ pc = "idle" /\ dir = "tmp" /\ dir' = "ready"
              /\ present' = [present EXCEPT ![1] = TRUE]
              /\ UNCHANGED <<files, gcfile, disk, mem, next, durable, pc, head>>

\* ---- what a pointer addresses, on a given file map
Addr(p, fs, pr) == IF p.torn \/ ~pr[p.file] \/ p.off + p.n > Len(fs[p.file]) THEN <<>>
                   ELSE SubSeq(fs[p.file], p.off + 1, p.off + p.n)
RECURSIVE Cat(_, _, _)
Cat(ps, fs, pr) == IF ps = <<>> THEN <<>> ELSE Addr(Head(ps), fs, pr) \o Cat(Tail(ps), fs, pr)
ToSet(s) == {s[i] : i \in 1..Len(s)}
Max2(a, b) == IF a > b THEN a ELSE b

\* ---- writer: append + commit as "first commit inserts, later commits extend in place";
\* the commit's index persistence is the two calls Truncate ; WriteAt
AppendCommit(k) ==
  /\ pc = "idle" /\ dir = "ready" /\ next + k - 1 <= MaxSamples
  /\ LET new == [i \in 1..k |-> next + i - 1]
         f2 == [files EXCEPT ![1] = @ \o new]
         extend == mem # <<>> /\ mem[Len(mem)].file = 1
                   /\ mem[Len(mem)].off + mem[Len(mem)].n = Len(files[1])
         m2 == IF extend THEN [mem EXCEPT ![Len(mem)].n = @ + k]
               ELSE Append(mem, Ptr(1, Len(files[1]), k))
     IN /\ Len(m2) <= MaxPtrs
        /\ files' = f2 /\ mem' = m2 /\ next' = next + k
        /\ head' = IF extend THEN Len(mem) ELSE Len(mem) + 1
        /\ pc' = "trunc"
  /\ UNCHANGED <<dir, present, gcfile, disk, durable>>

\* delete the samples of pointer i's tail (keep j < n samples): pointer surgery + persist from i
DeleteTail(i, j) ==
  /\ pc = "idle" /\ i \in 1..Len(mem) /\ j \in 0..(mem[i].n - 1)
  /\ LET gone == ToSet(Addr(mem[i], files, present)) \ ToSet(Addr([mem[i] EXCEPT !.n = j], files, present))
     IN /\ mem' = IF j = 0 THEN SubSeq(mem, 1, i - 1) \o SubSeq(mem, i + 1, Len(mem))
                  ELSE [mem EXCEPT ![i].n = j]
        /\ durable' = durable \ gone
  /\ head' = i /\ pc' = "trunc"
  /\ UNCHANGED <<dir, files, present, gcfile, disk, next>>

\* index persist, call 1: Truncate(index.domain, len(mem))
PersistTruncate ==
  /\ pc \in {"trunc", "gc4"}
  /\ disk' = IF Len(disk) > Len(mem) THEN SubSeq(disk, 1, Len(mem)) ELSE disk
  /\ pc' = IF pc = "trunc" THEN "write" ELSE "gc5"
  /\ UNCHANGED <<dir, files, present, gcfile, mem, next, durable, head>>
\* index persist, call 2: WriteAt(index.domain, records head..len(mem))
PersistWrite ==
  /\ pc \in {"write", "gc5"}
  /\ disk' = [i \in 1..Max2(Len(disk), Len(mem)) |->
                IF i < head \/ i > Len(mem) THEN disk[i] ELSE mem[i]]
  /\ durable' = durable \cup ToSet(Cat(mem, files, present))
  /\ pc' = "idle"
  /\ UNCHANGED <<dir, files, present, gcfile, mem, next, head>>

\* ---- garbage collection of file 1 (only when some of it is dead)
Live == Cat(SelectSeq(mem, LAMBDA p : p.file = 1), files, present)
GCCopy == /\ pc = "idle" /\ present[1] /\ Len(Live) < Len(files[1])
          /\ gcfile' = Live /\ pc' = "gc1"
          /\ UNCHANGED <<dir, files, present, disk, mem, next, durable, head>>
\* shift offsets in memory and Rename(1, 1_temp)
RECURSIVE Shift(_, _)
Shift(ps, acc) == IF ps = <<>> THEN <<>>
                  ELSE IF Head(ps).file = 1
                       THEN <<[Head(ps) EXCEPT !.off = acc]>> \o Shift(Tail(ps), acc + Head(ps).n)
                       ELSE <<Head(ps)>> \o Shift(Tail(ps), acc)
GCRename1 == /\ pc = "gc1" /\ mem' = Shift(mem, 0) /\ present' = [present EXCEPT ![1] = FALSE]
             /\ pc' = "gc2" /\ UNCHANGED <<dir, files, gcfile, disk, next, durable, head>>
GCRename2 == /\ pc = "gc2" /\ files' = [files EXCEPT ![1] = gcfile] /\ present' = [present EXCEPT ![1] = TRUE]
             /\ gcfile' = <<>> /\ pc' = "gc3"
             /\ UNCHANGED <<dir, disk, mem, next, durable, head>>
\* Remove(1_temp), then the final persist from record 1
GCFinish == /\ pc = "gc3" /\ head' = 1 /\ pc' = "gc4"
            /\ UNCHANGED <<dir, files, present, gcfile, disk, mem, next, durable>>

\* ---- crash + recovery (cesium.Open): volatile state is rebuilt from disk
CrashAllowed ==
  \/ pc = "idle" /\ dir \in {"none", "ready"}
  \/ pc = "idle" /\ dir \in {"dir", "tmp"} /\ CreateWindow
  \/ pc = "trunc"                                  \* nothing of the persist issued yet
  \/ pc = "write" /\ TruncateThenWrite
  \/ pc \in {"gc1"}                                \* only N_gc exists besides the intact state
  \/ pc \in {"gc2", "gc3", "gc4", "gc5"} /\ GCWindow
Crash == /\ CrashAllowed /\ pc' = "crashed"
         /\ mem' = disk
         /\ UNCHANGED <<dir, files, present, gcfile, disk, next, durable, head>>
\* torn variant of WriteAt: the crash interrupts the write of record `t`
TornCrash(t) == /\ pc = "write" /\ TornIndexWrite /\ t \in head..Len(mem)
                /\ disk' = [i \in 1..Max2(Len(disk), t) |->
                              IF i < head THEN disk[i] ELSE IF i < t THEN mem[i]
                              ELSE IF i = t THEN Torn ELSE disk[i]]
                /\ mem' = disk' /\ pc' = "crashed"
                /\ UNCHANGED <<dir, files, present, gcfile, next, durable, head>>

Next == \/ Mkdir \/ WriteTmp \/ RenameMeta
        \/ \E k \in 1..2 : AppendCommit(k)
        \/ \E i \in 1..MaxPtrs, j \in 0..MaxSamples : DeleteTail(i, j)
        \/ PersistTruncate \/ PersistWrite
        \/ GCCopy \/ GCRename1 \/ GCRename2 \/ GCFinish
        \/ Crash \/ \E t \in 1..MaxPtrs : TornCrash(t)
Spec == Init /\ [][Next]_vars

\* ---- what C02 states, evaluated in the recovered state
Recovered == pc = "crashed"
OpenSucceeds == Recovered => dir \in {"none", "ready"}          \* a directory without meta.json fails Open
Readable == ToSet(Cat(mem, files, present))
DurableIntact == Recovered => durable \subseteq Readable
\* no read returns something never written for this channel: torn records / stale offsets
NoGarbage == Recovered => \A i \in 1..Len(mem) :
               /\ ~mem[i].torn
               /\ present[mem[i].file] /\ mem[i].off + mem[i].n <= Len(files[mem[i].file])
TypeOK == pc \in {"idle", "trunc", "write", "gc1", "gc2", "gc3", "gc4", "gc5", "crashed"}
=============================================================================
