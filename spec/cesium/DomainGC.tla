------------------------------ MODULE DomainGC ------------------------------
(* Design-level model of ONE data file of a cesium domain database under concurrent
   readers, a time-range delete and a garbage-collection pass
   (cesium/internal/domain: file_controller.go acquireReader/newReader, reader.go newReader,
   delete.go Delete / garbageCollectFile). It exists because the C09 check found three
   genuine defects here; each is kept as a NAMED DEVIATION (guard constant) so that the
   repaired design is checked (all FALSE: every invariant holds) and each defect alone is
   shown to reproduce its counterexample (C09 driver, "design" stage).

     Dev_OpenBeforeLock    newReader opens the file BEFORE taking fc.readers.Lock
                           (fixed by 10c93ab): a handle to the file as it was before
                           compaction is registered after the GC pass finished.
     Dev_NoOffsetRefresh   domain.DB.newReader addresses the file with the offset of the
                           pointer copy the iterator took earlier (fixed by 316f9a0).
     Dev_GCNoDeleteLock    garbageCollectFile does not take idx.deleteLock
                           (fixed by 60a7a08): a delete that resolved its offsets before a
                           compaction writes them back after it.

   The file is a sequence of cells, each labelled with the domain it belongs to ("x" = a
   tombstone left by an earlier delete). A pointer is [off, size]. Compaction writes a NEW
   file version holding the cells of the snapshotted pointers back to back, then - atomically
   under the index lock - re-bases every pointer and makes the new version current.
   Handles refer to a file VERSION (an open handle keeps the old file alive, as on POSIX
   and MemFS).

   Locks: readersLk (RW; GC holds it shared for the whole pass, newReader takes it
   exclusively to register a handle), idxLk (RW, steps under it are atomic here),
   deleteLk (mutex). GC runs only while the pool holds no handle for the file, and no
   handle can be registered while it runs.

   Binding to the code: the property-level consequences (reads return exactly the
   committed samples during and after concurrent delete / GC) are decided on real
   goroutines by the C09 check (zz_verif_conc_test.go + CesiumLinTrace.tla); this module
   is the explanation of the three fixes and a regression guard for their design.      *)
EXTENDS Integers, Sequences, FiniteSets, TLC
CONSTANTS Dev_OpenBeforeLock, Dev_NoOffsetRefresh, Dev_GCNoDeleteLock,
          Readers          \* set of plain reader processes, e.g. {"r1"}
Procs == Readers \cup {"del", "gc"}
UsesReader == Readers \cup {"del"}      \* the delete resolves its cut through a reader too

VARIABLES content,    \* [version -> sequence of labels]
          cur,        \* current file version
          ptrs,       \* [domain -> [off, size]]  in-memory index (live domains)
          pool,       \* set of file versions for which the pool holds a handle
          readersLk,  \* [sh |-> set of procs holding it shared, ex |-> proc or "none"]
          deleteLk,   \* proc or "none"
          pc, loc,    \* per process: program counter, locals
          bad,        \* a read returned cells of another domain / a corrupt pointer was written
          badCut      \* same, for a reader whose domain was cut after it was positioned (residual window)
vars == <<content, cur, ptrs, pool, readersLk, deleteLk, pc, loc, bad, badCut>>

Doms == {"A", "B"}
\* p: the delete's copy of the pointer it cuts; rp: the pointer copy of the iterator a reader is opened from
NoLoc == [p |-> [off |-> 0, size |-> 0], rp |-> [off |-> 0, size |-> 0], d |-> "A", ver |-> -1, ok |-> TRUE, snap |-> <<>>,
          cut |-> FALSE]   \* cut: the domain was cut by a delete after this reader's iterator was positioned
Init ==
  /\ content = [v \in {0} |-> <<"A", "A", "x", "B", "B", "B">>]
  /\ cur = 0
  /\ ptrs = [d \in Doms |-> IF d = "A" THEN [off |-> 1, size |-> 2] ELSE [off |-> 4, size |-> 3]]
  /\ pool = {}
  /\ readersLk = [sh |-> {}, ex |-> "none"]
  /\ deleteLk = "none"
  /\ pc = [p \in Procs |-> "start"]
  /\ loc = [p \in Procs |-> NoLoc]
  /\ bad = FALSE /\ badCut = FALSE

Cells(v, p) == [i \in 1..p.size |-> content[v][p.off + i - 1]]
AllLabel(v, p, d) == /\ p.off >= 1 /\ p.off + p.size - 1 <= Len(content[v])
                     /\ \A i \in 1..p.size : content[v][p.off + i - 1] = d
Goto(self, l) == pc' = [pc EXCEPT ![self] = l]
Set(self, f, x) == loc' = [loc EXCEPT ![self][f] = x]

\* ---------------------------------------------------------------- reader steps
\* (plain readers read domain d; the delete reads B to resolve where to cut it)
RStart(self) ==
  /\ pc[self] = "start" /\ self \in Readers
  /\ \E d \in Doms : loc' = [loc EXCEPT ![self] = [NoLoc EXCEPT !.d = d, !.rp = ptrs[d]]]   \* iterator positioned: pointer copy
  /\ Goto(self, "acquire")
  /\ UNCHANGED <<content, cur, ptrs, pool, readersLk, deleteLk, bad, badCut>>

\* acquireReader: a pooled handle is taken under the shared readers lock
AcquirePooled(self) ==
  /\ pc[self] = "acquire" /\ self \in UsesReader
  /\ readersLk.ex = "none" /\ pool # {}
  /\ \E v \in pool : Set(self, "ver", v)
  /\ Goto(self, "refresh")
  /\ UNCHANGED <<content, cur, ptrs, pool, readersLk, deleteLk, bad, badCut>>
\* newReader as repaired: open and register under the exclusive readers lock (one step)
NewReaderLocked(self) ==
  /\ pc[self] = "acquire" /\ self \in UsesReader /\ ~Dev_OpenBeforeLock
  /\ pool = {} /\ readersLk.ex = "none" /\ readersLk.sh = {}
  /\ pool' = pool \cup {cur} /\ Set(self, "ver", cur)
  /\ Goto(self, "refresh")
  /\ UNCHANGED <<content, cur, ptrs, readersLk, deleteLk, bad, badCut>>
\* newReader as it was: open first ...
NewReaderOpen(self) ==
  /\ pc[self] = "acquire" /\ self \in UsesReader /\ Dev_OpenBeforeLock
  /\ pool = {}
  /\ Set(self, "ver", cur)
  /\ Goto(self, "register")
  /\ UNCHANGED <<content, cur, ptrs, pool, readersLk, deleteLk, bad, badCut>>
\* ... then queue for the lock and register whatever was opened
NewReaderRegister(self) ==
  /\ pc[self] = "register"
  /\ readersLk.ex = "none" /\ readersLk.sh = {}
  /\ pool' = pool \cup {loc[self].ver}
  /\ Goto(self, "refresh")
  /\ UNCHANGED <<content, cur, ptrs, readersLk, deleteLk, loc, bad, badCut>>

\* domain.DB.newReader as repaired: with the handle held, take the offset the index holds now
Refresh(self) ==
  /\ pc[self] = "refresh"
  /\ IF ~Dev_NoOffsetRefresh /\ ptrs[loc[self].d].size = loc[self].rp.size
     THEN Set(self, "rp", ptrs[loc[self].d])
     ELSE UNCHANGED loc
  /\ Goto(self, "read")
  /\ UNCHANGED <<content, cur, ptrs, pool, readersLk, deleteLk, bad, badCut>>

Read(self) ==
  /\ pc[self] = "read"
  /\ LET good == AllLabel(loc[self].ver, loc[self].rp, loc[self].d)
     IN IF self \in Readers
        THEN /\ bad' = (bad \/ (~good /\ ~loc[self].cut))
             /\ badCut' = (badCut \/ (~good /\ loc[self].cut))
             /\ Goto(self, "done") /\ UNCHANGED loc
        ELSE \* the delete: the cut it resolves is right only if it read its own domain
             /\ Set(self, "ok", good) /\ Goto(self, "apply") /\ UNCHANGED <<bad, badCut>>
  /\ UNCHANGED <<content, cur, ptrs, pool, readersLk, deleteLk>>

\* ---------------------------------------------------------------- delete: drop the first cell of B
DStart ==
  /\ pc["del"] = "start" /\ deleteLk = "none"
  /\ deleteLk' = "del"
  /\ loc' = [loc EXCEPT !["del"] = [NoLoc EXCEPT !.d = "B", !.p = ptrs["B"]]]     \* pointer copy (start)
  /\ Goto("del", "seek")
  /\ UNCHANGED <<content, cur, ptrs, pool, readersLk, bad, badCut>>
\* calculateStartOffset positions a fresh iterator on the domain and opens a reader from it
DSeek ==
  /\ pc["del"] = "seek"
  /\ Set("del", "rp", ptrs["B"])
  /\ Goto("del", "acquire")
  /\ UNCHANGED <<content, cur, ptrs, pool, readersLk, deleteLk, bad, badCut>>
\* under the index lock: the kept piece is written from the pointer COPY taken at DStart
DApply ==
  /\ pc["del"] = "apply"
  /\ LET st == loc["del"].p
         np == [off |-> st.off + 1, size |-> st.size - 1]
     IN /\ ptrs' = [ptrs EXCEPT !["B"] = np]
        /\ bad' = (bad \/ ~loc["del"].ok)
  /\ deleteLk' = "none"
  /\ Goto("del", "done")
  \* readers positioned on B before this moment now hold a pointer that names no domain any more
  /\ loc' = [q \in Procs |-> IF q \in Readers /\ pc[q] \notin {"start", "done"} /\ loc[q].d = "B"
                              THEN [loc[q] EXCEPT !.cut = TRUE] ELSE loc[q]]
  /\ UNCHANGED <<content, cur, pool, readersLk, badCut>>

\* ---------------------------------------------------------------- garbage collection
GStart ==
  /\ pc["gc"] = "start"
  /\ Dev_GCNoDeleteLock \/ deleteLk = "none"
  /\ readersLk.ex = "none"
  /\ pool = {}                                   \* "no open file handles", else the pass skips the file
  /\ deleteLk' = IF Dev_GCNoDeleteLock THEN deleteLk ELSE "gc"
  /\ readersLk' = [readersLk EXCEPT !.sh = @ \cup {"gc"}]
  /\ Set("gc", "snap", <<ptrs["A"], ptrs["B"]>>)  \* pointer snapshot
  /\ Goto("gc", "copy")
  /\ UNCHANGED <<content, cur, ptrs, pool, bad, badCut>>
GCopy ==
  /\ pc["gc"] = "copy"
  /\ LET sa == loc["gc"].snap[1] sb == loc["gc"].snap[2]
         new == Cells(cur, sa) \o Cells(cur, sb)
     IN content' = [v \in DOMAIN content \cup {cur + 1} |-> IF v = cur + 1 THEN new ELSE content[v]]
  /\ Goto("gc", "swap")
  /\ UNCHANGED <<cur, ptrs, pool, readersLk, deleteLk, loc, bad, badCut>>
\* under the index lock: re-base every pointer contained in a snapshotted one, rename
GSwap ==
  /\ pc["gc"] = "swap"
  /\ LET sa == loc["gc"].snap[1] sb == loc["gc"].snap[2]
         dA == sa.off - 1
         dB == sb.off - (sa.size + 1)
     IN ptrs' = [d \in Doms |-> [ptrs[d] EXCEPT !.off = @ - (IF d = "A" THEN dA ELSE dB)]]
  /\ cur' = cur + 1
  /\ readersLk' = [readersLk EXCEPT !.sh = @ \ {"gc"}]
  /\ deleteLk' = IF deleteLk = "gc" THEN "none" ELSE deleteLk
  /\ Goto("gc", "done")
  /\ UNCHANGED <<content, pool, loc, bad, badCut>>

Next == \/ \E self \in Procs : RStart(self) \/ AcquirePooled(self) \/ NewReaderLocked(self) \/ NewReaderOpen(self)
                               \/ NewReaderRegister(self) \/ Refresh(self) \/ Read(self)
        \/ DStart \/ DSeek \/ DApply \/ GStart \/ GCopy \/ GSwap
Spec == Init /\ [][Next]_vars

TypeOK == /\ cur \in 0..1 /\ pool \subseteq 0..1 /\ bad \in BOOLEAN /\ badCut \in BOOLEAN
          /\ \A p \in Procs : pc[p] \in {"start", "seek", "acquire", "register", "refresh", "read", "apply", "copy", "swap", "done"}
\* no reader (and no offset resolution of a delete) sees cells of another domain, provided its
\* domain still is what it was positioned on
ReadsOwnDomain == ~bad
\* RESIDUAL WINDOW of the code as repaired (expected to FAIL; kept to show the limit precisely):
\* an iterator positioned on a domain, then a compaction AND a delete that cuts that domain,
\* then OpenReader: the pointer copy names no existing domain, its offset is not refreshed
\* and the read returns cells of a neighbour. Reads concurrent with deletes are outside
\* C09's statement (which speaks about the content readable afterwards).
ReadsOwnDomainEvenIfCut == ~badCut
\* whenever nobody holds the index lock (every state here), each pointer addresses its own cells
PointersAddressOwnCells == \A d \in Doms : AllLabel(cur, ptrs[d], d)
\* a pooled handle never refers to a replaced file once the pass that replaced it is over
NoStaleHandle == (pc["gc"] = "done") => pool \subseteq {cur}
=============================================================================
