---- MODULE CesiumStoreGen ----
(* CesiumStore + history variable. Two generators:
     GSpecBFS  every behaviour up to Depth (bounded-exhaustive; small constants)
     GSpecSim  for `tlc -simulate`: arguments are drawn with RandomElement so that each
               action KIND is one successor and kinds are chosen uniformly
   Each step record carries the arguments, the outcome class and the abstract
   post-state (committed samples per channel, domains with adjacent ones merged). *)
EXTENDS CesiumStore, Json, SequencesExt
CONSTANTS Depth,
          DeletesOn,  \* FALSE: write-only scripts (C01); TRUE: deletes and GC interleaved (C04)
          PlanId      \* 0: free random walk; n > 0: the walk follows scenario plan n (simulation only)
VARIABLES hist,
          unsure   \* [Chan -> SUBSET Time]: points whose domain coverage the model does not pin
gvars == <<vars, hist, unsure>>

RECURSIVE MergeAdj(_)
MergeAdj(ds) == IF \E d1, d2 \in ds : d1[2] = d2[1]
                THEN LET p == CHOOSE p \in ds \X ds : p[1][2] = p[2][1]
                     IN MergeAdj((ds \ {p[1], p[2]}) \cup {<<p[1][1], p[2][2]>>})
                ELSE ds
St == [cm |-> [c \in Chan |-> [t \in Even |-> committed'[c][t]]],
       dm |-> [c \in Chan |-> MergeAdj(domains'[c])],
       un |-> unsure']

\* ---- coverage uncertainty. How domain.DB.Delete trims the pieces it keeps depends on
\* byte-level coincidences (validateDelete) the model does not reproduce; reads never
\* depend on it, but the outcome of a later open / index-delete guard can. Points whose
\* coverage is not certain after a delete are remembered and the generator avoids
\* operations whose outcome depends on them (filter inside Next).
Rng(x, y) == {z \in Time : x <= z /\ z <= y}
UnsureAfterDelete(c, a, b) ==
  LET hit == {d \in domains[c] : Overlap(d, a, b)}
      S(d) == {t \in Samples(c) : d[1] <= t /\ t < d[2]}
      L(d) == {t \in S(d) : t < a}
      M(d) == {t \in S(d) : a <= t /\ t < b}
      R(d) == {t \in S(d) : t >= b}
      sure(d) == (IF L(d) # {} THEN Rng(d[1], Max(L(d))) ELSE {})
                 \cup (IF R(d) # {} THEN Rng(Min(R(d)), d[2] - 1) ELSE {})
                 \cup (IF M(d) # {} THEN Rng(Min(M(d)), Max(M(d))) ELSE {})
  IN unsure[c] \cup UNION {Rng(d[1], d[2] - 1) \ sure(d) : d \in hit}
UnsureDelete(cs, a, b) == IF res' = "ok" /\ a < b
                          THEN [c \in Chan |-> IF c \in cs THEN UnsureAfterDelete(c, a, b) ELSE unsure[c]]
                          ELSE unsure
\* a commit makes the writer's whole range certainly covered
UnsureCommit(w) == [c \in Chan |-> IF c \in wr[w].chans /\ wr'[w].ins
                                    THEN unsure[c] \ Rng(wr[w].start, wr'[w].hwm) ELSE unsure[c]]
SureOpen(cs, s) == \A c \in cs : s \notin unsure[c]
SureWrite(w, ts) ==
  /\ \A c \in wr[w].chans \cup (IF "I" \in wr[w].chans THEN {} ELSE {"I"}) :
        unsure[c] \cap Rng(wr[w].start, Max(ts) + 1) = {}
  \* A domain ends at lastSample+1ns. An abstract odd time is concretised as "+1ns" OR as a
  \* midpoint, so whether this write's end touches a domain that STARTS at that odd time (a
  \* writer opened before its first sample) depends on the concretisation: not generated.
  /\ (\A c3 \in Chan : \A d3 \in domains[c3] : d3[1] # Max(ts) + 1)
\* Deletes the generator avoids (their OUTCOME class is not stated by any property and
\* depends on trimming details): an index delete whose guard would look at coverage the
\* model is unsure of; a bound that falls in the sample-free tail of a domain (the code
\* answers with a "discontinuous" error).
SureDelete(cs, a, b) ==
  /\ \A c \in cs : \A d \in domains[c] :
        (d[1] <= b /\ b < d[2] /\ a < b) => IdxIn(b, d[2]) # {}
  /\ \/ "I" \notin cs
     \/ MustRefuse(cs, a, b)
     \/ \A c \in DataChan :
          /\ unsure[c] \cap Rng(a, b - 1) = {}
          /\ IF c \in cs
             THEN \A d \in domains[c] : Overlap(d, a, b) =>
                     \E t \in Samples(c) : a <= t /\ t < b /\ Inside(d, t)
             ELSE \A d \in domains[c] : ~Overlap(d, a, b)
Rec(a, args) == [a |-> a, args |-> args, res |-> res', st |-> St]
Push(a, args) == hist' = Append(hist, Rec(a, args))
GOpen(w, cs, s, au) == SureOpen(cs, s) /\ OpenWriter(w, cs, s, au) /\ UNCHANGED unsure /\ Push("open", [w |-> w, chans |-> cs, start |-> s, auto |-> au])
GWrite(w, ts) == WriteGuard(w, ts) /\ SureWrite(w, ts) /\ Write(w, ts) /\ unsure' = UnsureCommit(w) /\ Push("write", [w |-> w, times |-> ts, id |-> nextId, dataonly |-> "I" \notin wr[w].chans])
GWriteConflict(w, ts) == WriteConflict(w, ts) /\ UNCHANGED unsure /\ Push("write", [w |-> w, times |-> ts, id |-> nextId, dataonly |-> FALSE])
GCommit(w) == Commit(w) /\ unsure' = UnsureCommit(w) /\ Push("commit", [w |-> w])
GClose(w) == CloseWriter(w) /\ UNCHANGED unsure /\ Push("close", [w |-> w])
GReopen == Reopen /\ UNCHANGED unsure /\ Push("reopen", [x |-> 0])
GGC == GC /\ UNCHANGED unsure /\ Push("gc", [x |-> 0])
GDelete(cs, a, b) == SureDelete(cs, a, b) /\ Delete(cs, a, b) /\ unsure' = UnsureDelete(cs, a, b) /\ Push("delete", [chans |-> cs, a |-> a, b |-> b, must |-> MustRefuse(cs, a, b)])

\* usefulness filters (inside Next): keep random walks on scripts that move data
FirstEven(s) == IF s % 2 = 0 THEN s ELSE s + 1
UsefulOpen(cs, s) ==
  \/ \E c \in cs : \E d \in domains[c] : Inside(d, s)          \* conflict case
  \/ IF "I" \in cs
     THEN /\ (EarlyStart \/ s % 2 = 0) /\ FirstEven(s) \in Even
          /\ (\A c \in cs : \A d \in domains[c] : ~Overlap(d, s, FirstEven(s) + 1))
          /\ (s % 2 = 0 \/ (\A c2 \in Chan : \A d2 \in domains[c2] : d2[2] # s))    \* (same reason, the other way round)
     ELSE s \in Samples("I") /\ \A c \in cs : ~Has(c, s) /\ \A d \in domains[c] : ~Overlap(d, s, s + 1)
LastIs(a) == Len(hist) > 0 /\ hist[Len(hist)].a = a
AnyData == \E c \in Chan : Samples(c) # {}
\* bounded-exhaustive generator: every behaviour up to Depth that passes the same
\* usefulness filters as the simulation generator
GNextBFS == /\ Len(hist) < Depth
            /\ \/ \E w \in Writers, cs \in ChanSets, s \in Time, au \in BOOLEAN :
                    ~wr[w].open /\ UsefulOpen(cs, s) /\ GOpen(w, cs, s, au)
               \/ \E w \in Writers, ts \in SUBSET Even : GWrite(w, ts)
               \/ \E w \in Writers : wr[w].open /\ wr[w].buf # {} /\ GCommit(w)
               \/ \E w \in Writers : wr[w].open /\ wr[w].n > 0 /\ GClose(w)
               \/ (AnyData /\ ~LastIs("reopen") /\ GReopen)
               \/ (DeletesOn /\ LastIs("delete") /\ GGC)
               \/ (DeletesOn /\ \E cs \in DeleteSets, a, b \in Time :
                      /\ a < b /\ \E c \in Chan : \E t \in Samples(c) : a <= t /\ t < b
                      /\ GDelete(cs, a, b))
GInit == Init /\ hist = <<>> /\ unsure = [c \in Chan |-> {}]
GSpecBFS == GInit /\ [][GNextBFS]_gvars

\* ---- simulation generator: a kind and three selectors are chosen; every (kind, selectors)
\* combination is one successor, so kinds are weighted by construction, not by how many
\* argument values they quantify over.
Nth(S, i) == SetToSeq(S)[(i % Cardinality(S)) + 1]
OpenW == {w \in Writers : wr[w].open}
ClosedW == Writers \ OpenW
ConflictSets(w) == {ts \in SUBSET Even : ConflictGuard(w, ts)}
LegalWrites(w) == {ts \in SUBSET Even : ts # {} /\ Cardinality(ts) <= MaxLen /\ WriteGuard(w, ts) /\ SureWrite(w, ts)}
Sel == 0..3
NT == Cardinality(Time)
\* first sample slot after everything stored so far (plan 7: sessions follow one another in time)
NextFree == LET used == UNION {Samples(c) : c \in Chan}
                free == {t \in Even : \A u \in used : u < t}
            IN IF free = {} THEN 0 ELSE Min(free)
GEnd == /\ Len(hist) = Depth /\ hist' = Append(hist, [a |-> "end"]) /\ UNCHANGED <<vars, unsure>>
\* ---- scenario plans: the KIND of each step is prescribed, the arguments stay random.
\* A free walk rarely strings together e.g. "write, delete everything, rewrite from an
\* earlier start, delete the new head, read"; plans make such multi-step scenarios common.
Plans == <<
  \* 1: rewrite after delete, then cut the rewritten data
  <<"open", "write", "write", "close", "delete", "open", "write", "write", "close", "delete", "gc", "reopen", "delete", "open", "write", "close">>,
  \* 2: two sessions, then deletes spanning both, GC, reopen
  <<"open", "write", "close", "open", "write", "write", "close", "delete", "gc", "delete", "reopen", "open", "write", "close", "delete", "gc">>,
  \* 3: index first, data-only writers afterwards, deletes of data only, data-only rewrite
  <<"open", "write", "write", "close", "open", "write", "close", "delete", "open", "write", "close", "reopen", "delete", "gc", "open", "write">>,
  \* 4: explicit commits, several commits per session, reopen between
  <<"open", "write", "commit", "write", "commit", "close", "reopen", "open", "write", "commit", "close", "delete", "gc", "reopen", "delete", "gc">>,
  \* 5: a closed session, then a long session of many small writes (rollover inside a session), reopen
  <<"open", "write", "close", "open", "write", "write", "write", "close", "reopen", "open", "write", "write", "close", "reopen", "gc", "gc">>,
  \* 6: one session of many commits (with MaxLen = 1: one sample per commit; under a tiny file cap
  \*    the 8-byte index channel rolls over at every commit while a 1-byte data channel does not)
  <<"open", "write", "write", "write", "write", "write", "close", "reopen", "open", "write", "write", "close">>,
  \* 7: a durable session (explicit commit, closed), then auto-commit sessions of several commits (under
  \*    interval index persistence and a tiny file cap: unpersisted commits, rollover, persisted commits)
  <<"open", "write", "commit", "close", "open", "write", "write", "commit", "write", "close", "open", "write", "commit", "close">>,
  \* 8: a durable late session, then an auto-commit session that starts earlier, commits, and then
  \*    runs into the late data with a write that is refused ("cwrite"), close, reopen
  <<"open", "write", "commit", "close", "open", "write", "cwrite", "close", "reopen", "open", "write", "close">>
>>
CanKind(kd) ==
  CASE kd = "open" -> ClosedW # {}
    [] kd = "write" -> \E w \in OpenW : LegalWrites(w) # {}
    [] kd = "cwrite" -> \E w \in OpenW : ConflictSets(w) # {}
    [] kd = "commit" -> \E w \in OpenW : ~wr[w].failed /\ (~wr[w].auto \/ PlanId \in {7, 8})
    [] kd = "close" -> OpenW # {}
    [] kd = "delete" -> DeletesOn /\ AllClosed /\ AnyData
    [] kd = "gc" -> DeletesOn
    [] kd = "reopen" -> AllClosed /\ AnyData
    [] OTHER -> FALSE
Planned == IF PlanId = 0 \/ Len(hist) >= Len(Plans[PlanId]) THEN "any"
           ELSE IF CanKind(Plans[PlanId][Len(hist) + 1]) THEN Plans[PlanId][Len(hist) + 1] ELSE "any"
KindOK(kd) == Planned = "any" \/ Planned = kd
GNextSim == GEnd \/
  /\ Len(hist) < Depth
  /\ \E k \in 1..10, i \in Sel, j \in Sel, m \in Sel :
       \/ /\ k = 1 /\ ClosedW # {} /\ KindOK("open")
          /\ LET cs == Nth(ChanSets, j) st == IF PlanId = 6 THEN 2 * (m % 2) ELSE IF PlanId = 7 THEN NextFree ELSE IF PlanId = 8 THEN (IF Len(hist) = 0 THEN 6 ELSE 2 * (m % 2)) ELSE (m + 4 * i) % NT
             IN UsefulOpen(cs, st) /\ GOpen(Nth(ClosedW, i), cs, st, IF PlanId \in {7, 8} THEN Len(hist) > 0 ELSE ((i + j) % 2 = 0 \/ PlanId = 6))
       \/ /\ k \in {2, 3, 4, 5} /\ OpenW # {} /\ KindOK("write")
          /\ LET w == Nth(OpenW, i)
                 W == LegalWrites(w)
             IN W # {} /\ GWrite(w, IF PlanId \in {6, 7, 8} THEN CHOOSE ts \in W : \A o \in W : Max(ts) <= Max(o)   \* dense: the next slot(s)
                                    ELSE Nth(W, m + 4 * j + 16 * (k - 2)))
       \/ /\ k = 5 /\ m = 3 /\ OpenW # {} /\ KindOK("cwrite")
          /\ LET w == Nth(OpenW, i) IN ConflictSets(w) # {} /\ GWriteConflict(w, Nth(ConflictSets(w), j))
       \/ /\ k = 6 /\ OpenW # {} /\ j = 0 /\ KindOK("commit")
          /\ LET w == Nth(OpenW, i) IN (wr[w].buf # {} \/ m = 0) /\ (~wr[w].auto \/ m = 0 \/ PlanId \in {7, 8}) /\ GCommit(w)
       \/ /\ k = 7 /\ OpenW # {} /\ j = 0 /\ m < 2 /\ KindOK("close")
          /\ LET w == Nth(OpenW, i) IN (wr[w].n > 0 \/ LegalWrites(w) = {}) /\ GClose(w)
       \/ /\ k = 8 /\ j < 2 /\ AnyData
          /\ (IF i < 2 THEN ~LastIs("reopen") /\ KindOK("reopen") /\ GReopen
              ELSE DeletesOn /\ KindOK("gc") /\ (LastIs("delete") \/ LastIs("reopen") \/ Planned = "gc") /\ GGC)
       \/ /\ k \in {9, 10} /\ DeletesOn /\ KindOK("delete")
          /\ LET a == (j + 4 * (k - 9) + 2 * (i % 2)) % NT
                 b == a + m + (IF i > 1 THEN 4 ELSE 0)
                 cs == Nth(DeleteSets, i + j)
             IN /\ b \in Time
                /\ \E c \in Chan : \E t \in Samples(c) : a <= t /\ t < b   \* effective or refused
                /\ GDelete(cs, a, b)
GSpecSim == GInit /\ [][GNextSim]_gvars

\* ---- session-granular bounded-exhaustive generator. A writer session is the fixed
\* sequence open(start = first sample) ; write ; close and counts as ONE macro step, like a
\* delete, a GC pass or a reopen. Depth bounds the number of macro steps, so that scenarios
\* made of several sessions and deletes ("write, delete everything, rewrite a superset,
\* trim the new head") are reached EXHAUSTIVELY at small constants. At most two steps
\* without a session in a row (long delete chains on one session are the subject of
\* GSpecBFS); GC and reopen directly after a delete only. Deletes act on everything
\* ({I,D,V}) or on the data channels only.
SessSets == {{"D", "V"}, {"I", "D", "V"}}
Macros == Cardinality({i \in 1..Len(hist) : hist[i].a \notin {"write", "close"}})
IsQuiet(i) == hist[i].a \in {"delete", "gc", "reopen"}
QuietRun == IF Len(hist) >= 2 /\ IsQuiet(Len(hist)) /\ IsQuiet(Len(hist) - 1) THEN 2
            ELSE IF Len(hist) >= 1 /\ IsQuiet(Len(hist)) THEN 1 ELSE 0
GNextSess ==
  IF OpenW # {}
  THEN LET w == CHOOSE w \in OpenW : TRUE
       IN IF wr[w].n = 0
          THEN \E ts \in SUBSET Even : ts # {} /\ Min(ts) = wr[w].start /\ GWrite(w, ts)
          ELSE GClose(w)
  ELSE /\ Macros < Depth
       /\ \/ \E w \in Writers, s \in Even :
               /\ \A c \in Chan : \A d \in domains[c] : ~Inside(d, s)
               /\ GOpen(w, {"I", "D", "V"}, s, TRUE)
          \/ (QuietRun < 2 /\ AnyData /\ LastIs("delete") /\ GReopen)
          \/ (QuietRun < 2 /\ LastIs("delete") /\ GGC)
          \/ (QuietRun < 2 /\ \E cs \in SessSets, a, b \in Time :
                 /\ a < b /\ \E c \in cs : \E t \in Samples(c) : a <= t /\ t < b
                 /\ GDelete(cs, a, b))
GSpecSess == GInit /\ [][GNextSess]_gvars
EmitSess == Macros # Depth \/ OpenW # {} \/ PrintT(<<"HIST", ToJson(hist)>>)

Emit == Len(hist) # Depth \/ PrintT(<<"HIST", ToJson(hist)>>)
\* simulation: print only the behaviour that was actually chosen (GEnd has one successor)
EmitSim == Len(hist) # Depth + 1 \/ PrintT(<<"HIST", ToJson(SubSeq(hist, 1, Depth))>>)
====
