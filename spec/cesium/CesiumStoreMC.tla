---- MODULE CesiumStoreMC ----
(* Exhaustive configurations of CesiumStore: SpecW (several writers, no deletes) and
   SpecD (one writer, deletes/GC/reopen interleaved). *)
EXTENDS CesiumStore
NextW == \/ \E w \in Writers, cs \in ChanSets, s \in Time, au \in BOOLEAN : OpenWriter(w, cs, s, au)
         \/ \E w \in Writers, ts \in SUBSET Even : Write(w, ts)
         \/ \E w \in Writers : Commit(w) \/ CloseWriter(w)
         \/ Reopen
SpecW == Init /\ [][NextW]_vars
SpecD == Init /\ [][Next]_vars
====
