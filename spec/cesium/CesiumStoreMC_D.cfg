SPECIFICATION SpecD
CONSTANTS
  T = 3
  Writers = {"w1"}
  EarlyStart = FALSE
  MaxLen = 2
  MaxId = 2
  ChanSets = {{"I"}, {"I","D","V"}, {"D"}}
INVARIANTS TypeOK SamplesInDomains DomainsDisjoint DataHasIndex NoUncommittedVisible
PROPERTIES DeleteExact IndexGuard
CHECK_DEADLOCK FALSE
