SPECIFICATION SpecW
CONSTANTS
  T = 3
  Writers = {"w1", "w2"}
  EarlyStart = FALSE
  MaxLen = 2
  MaxId = 3
  ChanSets = {{"I"}, {"I","D","V"}, {"D"}}
INVARIANTS TypeOK SamplesInDomains DomainsDisjoint DataHasIndex NoUncommittedVisible
CHECK_DEADLOCK FALSE
