---------------------------- MODULE CesiumStore ----------------------------
(* User-level model of one cesium index group: index channel "I" and data channels
   "D" (fixed density) and "V" (variable length), both indexed by "I".
   Shared by C01 (reads = committed samples), C04 (deletes / GC), C10 (iterators,
   CesiumIter.tla) and C07 (DistFramer instantiates it per node).

   Code each action stands for (cesium/):
     OpenWriter  DB.OpenWriter -> newStreamWriter -> unary.DB.OpenWriter per channel
                 (control gate + domain.DB.OpenWriter: start inside a domain => conflict)
     Write       Writer.Write -> streamWriter.write -> idxWriter.write (+ auto Commit)
     Commit      Writer.Commit -> idxWriter.Commit -> unary.Writer.CommitWithEnd(hwm+1)
     CloseWriter Writer.Close (uncommitted buffered samples are dropped)
     Reopen      DB.Close ; cesium.Open
     Delete      DB.DeleteTimeRange -> unary.DB.delete -> domain.DB.Delete
     GC          DB.garbageCollect (private; called in-package by the harness)

   Abstract time: 0..2T+1. Samples live at EVEN times only; odd times are the points
   "between samples" so that range ends can fall between samples. The harness maps
   abstract time through a strictly monotone table to telem.TimeStamp with
   ts(2k+1) in [ts(2k)+1, ts(2k+2)-1].  A domain committed with last sample at 2k
   has end 2k+1 (the code's lastTimestamp+1ns).

   Projection: committed[c][t] = id  <->  reading channel c returns, at the position
   of index timestamp ts(t), the value the harness derives from (c, t, id).
   `domains` is pinned beyond the properties (drift-level comparison with the real
   domain index, adjacent domains merged); it exists to decide legality of opens,
   writes and the index-delete guard the way the code does.                         *)
EXTENDS Integers, FiniteSets, Sequences, TLC
CONSTANTS T, Writers, MaxLen, MaxId, ChanSets,
          EarlyStart   \* TRUE: a writer may start before its first sample (domain start between samples)
Chan == {"I", "D", "V"}
DataChan == {"D", "V"}
Time == 0..(2*T+1)
Even == {t \in Time : t % 2 = 0}
VARIABLES committed,  \* [Chan -> [Even -> 0..MaxId]]   0 = no sample
          domains,    \* [Chan -> SUBSET (Time \X Time)] committed ranges <<lo, hi>>, lo < hi
          wr,         \* [Writers -> writer record]
          nextId,     \* id of the next Write
          res         \* outcome class of the last step
vars == <<committed, domains, wr, nextId, res>>

NoWriter == [open |-> FALSE, chans |-> {}, start |-> 0, hwm |-> -1, buf |-> {},
             auto |-> FALSE, ins |-> FALSE, n |-> 0, failed |-> FALSE]
Init == /\ committed = [c \in Chan |-> [t \in Even |-> 0]]
        /\ domains = [c \in Chan |-> {}]
        /\ wr = [w \in Writers |-> NoWriter]
        /\ nextId = 1
        /\ res = "ok"

Has(c, t) == committed[c][t] # 0
Samples(c) == {t \in Even : Has(c, t)}
Inside(d, t) == d[1] <= t /\ t < d[2]
Overlap(d, lo, hi) == d[1] < hi /\ lo < d[2]        \* half-open, both non-empty
OpenChans == UNION {wr[w].chans : w \in {x \in Writers : wr[x].open}}
Max(S) == CHOOSE x \in S : \A y \in S : y <= x
Min(S) == CHOOSE x \in S : \A y \in S : x <= y

\* ---- effective (adjacent-merged) index coverage, used for data-only writers
RECURSIVE Reach(_, _)
Reach(t, ds) == IF \E d \in ds : d[1] = t THEN Reach((CHOOSE d \in ds : d[1] = t)[2], ds) ELSE t
\* end of the effective index domain containing t (t itself if none)
EffEnd(t) == IF \E d \in domains["I"] : Inside(d, t)
             THEN Reach((CHOOSE d \in domains["I"] : Inside(d, t))[2], domains["I"]) ELSE t

\* ------------------------------------------------------------------ writers
\* A writer's own domain (once inserted by its first non-empty commit)
Own(w) == <<wr[w].start, wr[w].hwm + 1>>
\* domains of c other than the one this writer has already inserted
Others(w, c) == IF wr[w].ins THEN domains[c] \ {d \in domains[c] : d[1] = wr[w].start} ELSE domains[c]

OpenWriter(w, cs, s, auto) ==
  /\ ~wr[w].open
  /\ cs \in ChanSets
  /\ cs \cap OpenChans = {}            \* C01 scripts: one writer per channel at a time
  /\ s \in Time
  /\ IF \E c \in cs : \E d \in domains[c] : Inside(d, s)
     THEN /\ res' = "conflict" /\ UNCHANGED <<committed, domains, wr, nextId>>
     ELSE /\ wr' = [wr EXCEPT ![w] = [open |-> TRUE, chans |-> cs, start |-> s, hwm |-> s - 1,
                                      buf |-> {}, auto |-> auto, ins |-> FALSE, n |-> 0, failed |-> FALSE]]
          /\ res' = "ok" /\ UNCHANGED <<committed, domains, nextId>>

\* times a Write of n samples lands on
IdxAfter(w) == {t \in Samples("I") : t >= wr[w].start}
RECURSIVE NthSet(_, _)
NthSet(S, n) == IF n = 0 \/ S = {} THEN {} ELSE {Min(S)} \cup NthSet(S \ {Min(S)}, n - 1)
DataOnlyTimes(w, n) == NthSet(IdxAfter(w), wr[w].n + n) \ NthSet(IdxAfter(w), wr[w].n)

DoCommit(w, cm, dm, times) ==
  \* returns <<committed', domains'>> after committing buffered pairs `times` (set of <<t,id>>)
  LET hi == Max({p[1] : p \in times}) + 1
      nd == <<wr[w].start, hi>>
  IN << [c \in Chan |-> IF c \in wr[w].chans
                         THEN [t \in Even |-> IF \E p \in times : p[1] = t
                                              THEN (CHOOSE p \in times : p[1] = t)[2] ELSE cm[c][t]]
                         ELSE cm[c]],
        [c \in Chan |-> IF c \in wr[w].chans
                         THEN (dm[c] \ {d \in dm[c] : d[1] = wr[w].start /\ wr[w].ins}) \cup {nd}
                         ELSE dm[c]] >>

\* Write of explicit sample times (index-writing writer) or of n samples (data-only)
WriteGuard(w, times) ==
  /\ wr[w].open /\ ~wr[w].failed /\ times # {} /\ Cardinality(times) <= MaxLen /\ nextId <= MaxId
  /\ IF "I" \in wr[w].chans
     THEN /\ times \subseteq Even
          /\ \A t \in times : t > wr[w].hwm /\ t >= wr[w].start
          \* unless EarlyStart, the first sample sits exactly at the writer's start
          /\ (EarlyStart \/ wr[w].n > 0 \/ Min(times) = wr[w].start)
     ELSE /\ times = DataOnlyTimes(w, Cardinality(times))
          /\ wr[w].start \in Samples("I")
          /\ Max(times) < EffEnd(wr[w].start)
  \* legality: the writer's range must not run into another domain of its channels
  /\ \A c \in wr[w].chans : \A d \in Others(w, c) : ~Overlap(d, wr[w].start, Max(times) + 1)
Write(w, times) ==
  /\ WriteGuard(w, times)
  /\ LET pairs == {<<t, nextId>> : t \in times}
         w2 == [wr[w] EXCEPT !.hwm = Max(times), !.buf = @ \cup pairs, !.n = @ + Cardinality(times)]
     IN IF wr[w].auto
        THEN LET r == DoCommit(w, committed, domains, w2.buf)
             IN /\ committed' = r[1] /\ domains' = r[2]
                /\ wr' = [wr EXCEPT ![w] = [w2 EXCEPT !.buf = {}, !.ins = TRUE]]
        ELSE /\ wr' = [wr EXCEPT ![w] = w2] /\ UNCHANGED <<committed, domains>>
  /\ nextId' = nextId + 1 /\ res' = "ok"

\* A write of an auto-commit, index-writing writer whose range runs into another domain of EVERY
\* one of its channels: the commit is refused ("write overlaps with existing data"), nothing
\* of it becomes visible, everything committed before stays, and the writer is failed: every
\* later Write / Commit / Close reports the same error (Close still closes).
ConflictGuard(w, times) ==
  /\ wr[w].open /\ ~wr[w].failed /\ wr[w].auto /\ "I" \in wr[w].chans
  /\ times # {} /\ Cardinality(times) <= MaxLen /\ nextId <= MaxId /\ times \subseteq Even
  /\ \A t \in times : t > wr[w].hwm /\ t >= wr[w].start
  /\ (EarlyStart \/ wr[w].n > 0 \/ Min(times) = wr[w].start)
  /\ \A c \in wr[w].chans : \E d \in Others(w, c) : Overlap(d, wr[w].start, Max(times) + 1)
WriteConflict(w, times) ==
  /\ ConflictGuard(w, times)
  /\ wr' = [wr EXCEPT ![w].failed = TRUE]
  /\ nextId' = nextId + 1 /\ res' = "conflict" /\ UNCHANGED <<committed, domains>>
WriteFailed(w) ==
  /\ wr[w].open /\ wr[w].failed /\ nextId <= MaxId
  /\ nextId' = nextId + 1 /\ res' = "conflict" /\ UNCHANGED <<committed, domains, wr>>

\* (an explicit Commit on an auto-commit writer is legal and finds nothing to commit)
Commit(w) ==
  /\ wr[w].open /\ ~wr[w].failed
  /\ IF wr[w].buf = {}
     THEN UNCHANGED <<committed, domains, wr>>
     ELSE LET r == DoCommit(w, committed, domains, wr[w].buf)
          IN /\ committed' = r[1] /\ domains' = r[2]
             /\ wr' = [wr EXCEPT ![w].buf = {}, ![w].ins = TRUE]
  /\ res' = "ok" /\ UNCHANGED nextId

CloseWriter(w) ==
  /\ wr[w].open
  /\ wr' = [wr EXCEPT ![w] = NoWriter]
  /\ res' = (IF wr[w].failed THEN "conflict" ELSE "ok") /\ UNCHANGED <<committed, domains, nextId>>

AllClosed == \A w \in Writers : ~wr[w].open
Reopen == AllClosed /\ res' = "ok" /\ UNCHANGED <<committed, domains, wr, nextId>>
GC == res' = "ok" /\ UNCHANGED <<committed, domains, wr, nextId>>

\* ------------------------------------------------------------------ deletes
\* domain.DB.Delete with unary's calculateStart/EndOffset, for channel c over [a, b):
\* the cut ends snap to sample boundaries (positions come from the index channel).
IdxIn(lo, hi) == {t \in Samples("I") : lo <= t /\ t < hi}
DelDomains(c, a, b) ==
  LET ds == domains[c]
      hit == {d \in ds : Overlap(d, a, b)}
      left(d) ==  \* piece of d kept before a
        IF d[1] < a /\ IdxIn(d[1], a) # {}
        THEN {<<d[1], IF a \in Samples("I") /\ a < d[2] THEN a ELSE Max(IdxIn(d[1], a)) + 1>>} ELSE {}
      right(d) == \* piece of d kept from b on
        IF b < d[2] /\ IdxIn(b, d[2]) # {}
        THEN {<<Min(IdxIn(b, d[2])), d[2]>>} ELSE {}
  IN (ds \ hit) \cup UNION {left(d) \cup right(d) : d \in hit}

DeleteSets == {{"D"}, {"V"}, {"D", "V"}, {"I"}, {"I", "D", "V"}}
Delete(cs, a, b) ==
  /\ AllClosed /\ cs \in DeleteSets /\ a \in Time /\ b \in Time /\ a <= b
  /\ LET deps == IF "I" \in cs THEN DataChan \ cs ELSE {}
         guard == \E c \in deps : \E d \in domains[c] : a < b /\ Overlap(d, a, b)
     IN IF guard
        THEN /\ res' = "refused" /\ UNCHANGED <<committed, domains>>
        ELSE /\ committed' = [c \in Chan |-> IF c \in cs
                                THEN [t \in Even |-> IF a <= t /\ t < b THEN 0 ELSE committed[c][t]]
                                ELSE committed[c]]
             /\ domains' = [c \in Chan |-> IF c \in cs /\ a < b THEN DelDomains(c, a, b) ELSE domains[c]]
             /\ res' = "ok"
  /\ UNCHANGED <<wr, nextId>>
\* firm form of the index-delete guard (what C04 states): a dependant has a SAMPLE in [a,b)
MustRefuse(cs, a, b) == "I" \in cs /\ \E c \in DataChan \ cs : \E t \in Samples(c) : a <= t /\ t < b

Next == \/ \E w \in Writers, cs \in ChanSets, s \in Time, au \in BOOLEAN : OpenWriter(w, cs, s, au)
        \/ \E w \in Writers, ts \in SUBSET Even : Write(w, ts) \/ WriteConflict(w, ts)
        \/ \E w \in Writers : WriteFailed(w)
        \/ \E w \in Writers : Commit(w) \/ CloseWriter(w)
        \/ Reopen \/ GC
        \/ \E cs \in DeleteSets, a, b \in Time : Delete(cs, a, b)
Spec == Init /\ [][Next]_vars

\* ------------------------------------------------------------------ properties
Read(c, a, b) == {<<t, committed[c][t]>> : t \in {x \in Samples(c) : a <= x /\ x < b}}
TypeOK == /\ \A c \in Chan : \A d \in domains[c] : d[1] < d[2]
          /\ res \in {"ok", "conflict", "refused"}
\* committed samples always lie inside a committed domain of their channel, and domains
\* of one channel never overlap (C03 at the user level)
SamplesInDomains == \A c \in Chan : \A t \in Samples(c) : \E d \in domains[c] : Inside(d, t)
DomainsDisjoint == \A c \in Chan : \A d1, d2 \in domains[c] : d1 # d2 => ~Overlap(d1, d2[1], d2[2])
\* every data sample has an index sample at its time (reads can always be time-stamped)
DataHasIndex == \A c \in DataChan : Samples(c) \subseteq Samples("I")
\* uncommitted (buffered) samples are never visible
NoUncommittedVisible == \A w \in Writers : \A p \in wr[w].buf : \A c \in wr[w].chans :
                            committed[c][p[1]] # p[2]
\* C01: reopen never changes what a read returns; C04: neither does GC
ReopenGCInvisible == [][(res' = "ok" /\ UNCHANGED <<wr, nextId, domains>>) => TRUE]_vars
\* C04: a delete removes exactly [a,b) from the named channels (stated as an action property
\* over every step that shrinks `committed`)
DeleteExact == [][\A c \in Chan : \A t \in Even :
                    (committed[c][t] # 0 /\ committed'[c][t] = 0) => AllClosed]_vars
\* C04: index data is never removed while a dependant still has a sample there
IndexGuard == [][\A t \in Even : (committed["I"][t] # 0 /\ committed'["I"][t] = 0) =>
                    \A c \in DataChan : committed'[c][t] = 0]_vars
=============================================================================
