---------------------------- MODULE CesiumIter ----------------------------
(* C10 - one cesium iterator over ONE channel of a CesiumStore state.

   `stored` is the projection of CesiumStore's committed[c]: the committed samples of the
   channel in time order, as a sequence of <<time, id>> (ids are the write identities of
   CesiumStore; the harness derives distinguishable bytes from (c, time, id) and maps the
   bytes an iterator returns back to <<time, id>>).  The store may GROW while an iterator is
   open (action Grow: commits of writers add samples; deletes under an open iterator are
   outside C10): `stored` always is the content committed by the commits that have RETURNED,
   and every clause reads it in the state BEFORE the command - a step issued after a commit
   returned sees that commit (the iterator is not a snapshot; domain/iterator.go says so).
   Time is an integer line 0..N.  In CesiumStore samples sit at even
   abstract times; an iterator view however may end at ANY nanosecond (view.end + span), so
   for trace validation the driver maps every timestamp occurring in a recorded trace
   (samples, bounds, views, seek arguments, span targets) to its rank among them - order and
   equality, the only things the property talks about, are preserved.

   Code each action stands for (cesium/internal/unary/iterator.go; cesium.Iterator /
   streamIterator forward every command to one unary.Iterator per channel):
     SetBounds(a,b)  Iterator.SetBounds / OpenIterator(Bounds)  (view := [b,b), not positioned)
     Seek("first")   Iterator.SeekFirst      Seek("last")  Iterator.SeekLast
     Seek("ge",t)    Iterator.SeekGE(t)      Seek("le",t)  Iterator.SeekLE(t)
     Next(target)    Iterator.Next(span),  target = view.end + span
     Prev(target)    Iterator.Prev(span),  target = view.start - span
     NextAuto        Iterator.Next(AutoSpan) -> autoNext
     PrevAuto        Iterator.Prev(AutoSpan) -> autoPrev
     Grow            Writer.Commit / auto-committing Writer.Write of any writer (extends a domain
                     the iterator may be positioned on, or appends a new one) - no iterator call
   Observation after every command: View(), Value() (as <<time,id>> in frame order),
   Valid(), Error().

   The CLAUSES below are the property; each is a predicate on one transition (unprimed =
   before the command, primed = what the iterator reports after it).
     verdict-bearing (what C10 states):
       FrameIsView      the frame holds exactly the stored samples inside the reported view, in order
       ViewOrdered, InBounds   a step's view is a range inside the bounds
       AdjFwd / AdjBwd  consecutive same-direction steps: view'.start = view.end (mirrored)
       AutoProgressFwd/Bwd  an automatic step moves the view on while samples remain in the bounds
       SeekFirstNoSkip / SeekLastNoSkip  no stored sample between the bound and the position
       SeekFinds        SeekFirst / SeekLast succeed when the bounds hold a stored sample
       TraversalOnce    (state) since SeekFirst only forward steps => the samples returned so far
                        are exactly Read(bounds.start, view.end): each once, in order (mirrored)
     pinned beyond the property (drift level; compared, never a verdict):
       SpanEndFwd/Bwd   view' = [view.end, view.end+span) /\ bounds   (API comment of Next/Prev)
       TurnFwd/TurnBwd  a step after a step in the other direction starts at view.end / ends at view.start
       StartAtSeek      the first step after a seek starts (ends) at the seek position
       AutoCountFwd/Bwd an automatic step returns exactly min(chunk, remaining) samples
       AutoDataFwd/Bwd  an automatic step returns data (and is Valid) while samples remain.  The
                        code counts a chunk in INDEX samples; where the data channel has a hole under
                        index samples a chunk can be empty, Valid() false, although data remains
       ValidIffData     Valid() <=> the frame has data
       SeekInBounds, SeekGEPos, SeekLEPos   where a seek lands (layout dependent in the code:
                        domain starts/ends; the spec only constrains it)
   The ACTIONS describe an iterator that satisfies all of them; TLC checks on this module that
   the per-step clauses imply TraversalOnce (the "so a full traversal ..." of the statement). *)
EXTENDS Integers, Sequences, FiniteSets, TLC
CONSTANTS N,        \* time line 0..N
          Chunks    \* AutoChunkSize values
VARIABLES stored,   \* Seq(<<time, id>>), strictly increasing times
          chunk,    \* AutoChunkSize
          bounds,   \* <<start, end>>
          view,     \* <<start, end>>
          frame,    \* Seq(<<time, id>>) returned by the last command
          valid,    \* Valid()
          last,     \* "none" | "seek" | "fwd" | "afwd" | "bwd" | "abwd"
          run,      \* "off" | "first" | "last": uniform traversal in progress since that seek
          acc       \* samples returned since the seek that started the run
ivars == <<stored, chunk, bounds, view, frame, valid, last, run, acc>>

Time == 0..N
Min2(a, b) == IF a <= b THEN a ELSE b
Max2(a, b) == IF a >= b THEN a ELSE b
Clamp(t) == Min2(Max2(t, bounds[1]), bounds[2])
ReadIn(seq, a, b) == SelectSeq(seq, LAMBDA p : a <= p[1] /\ p[1] < b)
Read(a, b) == ReadIn(stored, a, b)      \* the content committed before the command
FwdKinds == {"fwd", "afwd"}
BwdKinds == {"bwd", "abwd"}

\* ------------------------------------------------------------------ clauses
FrameIsView == frame' = Read(view'[1], view'[2])
ViewOrdered == view'[1] <= view'[2]
InBounds == bounds'[1] <= view'[1] /\ view'[2] <= bounds'[2]
AdjFwd == view'[1] = view[2]
AdjBwd == view'[2] = view[1]
AutoProgressFwd == Read(view[2], bounds[2]) # <<>> => view'[2] > view[2]
AutoProgressBwd == Read(bounds[1], view[1]) # <<>> => view'[1] < view[1]
SeekFirstNoSkip == Read(bounds[1], view'[1]) = <<>>
SeekLastNoSkip == Read(view'[2], bounds[2]) = <<>>
\* state form of "a full traversal visits every sample in the bounds exactly once"
TraversalOnce == /\ (run = "first" /\ last \in FwdKinds) => acc = Read(bounds[1], view[2])
                 /\ (run = "last" /\ last \in BwdKinds) => acc = Read(view[1], bounds[2])
\* drift level
SpanEndFwd(target) == view'[2] = Min2(Max2(target, view'[1]), bounds[2])
SpanEndBwd(target) == view'[1] = Max2(Min2(target, view'[2]), bounds[1])
AutoDataFwd == Read(view[2], bounds[2]) # <<>> => (frame' # <<>> /\ valid')
AutoDataBwd == Read(bounds[1], view[1]) # <<>> => (frame' # <<>> /\ valid')
AutoCountFwd == Len(frame') = Min2(chunk, Len(Read(view[2], bounds[2])))
AutoCountBwd == Len(frame') = Min2(chunk, Len(Read(bounds[1], view[1])))
ValidIffData == valid' <=> (frame' # <<>>)
SeekInBounds == view'[1] = view'[2] /\ bounds[1] <= view'[1] /\ view'[1] <= bounds[2]
SeekGEPos(t) == view'[1] >= Clamp(t) /\ Read(Clamp(t), view'[1]) = <<>>
SeekLEPos(t) == view'[1] <= Clamp(t) /\ (view'[1] < Clamp(t) => Read(view'[1], Min2(Clamp(t) + 1, bounds[2])) = <<>>)

\* ------------------------------------------------------------------ actions
Keep == UNCHANGED <<stored, chunk>>
SetBounds(a, b) ==
  /\ a <= b
  /\ bounds' = <<a, b>> /\ view' = <<b, b>> /\ frame' = <<>> /\ valid' = FALSE
  /\ last' = "none" /\ run' = "off" /\ acc' = <<>> /\ Keep

SeekTo(p, r) == /\ view' = <<p, p>> /\ frame' = <<>> /\ valid' = FALSE /\ last' = "seek"
                /\ run' = r /\ acc' = <<>> /\ UNCHANGED bounds /\ Keep
Seek(kind, t) ==
  \E p \in bounds[1]..bounds[2] :
    /\ CASE kind = "first" -> Read(bounds[1], p) = <<>>
         [] kind = "last"  -> Read(p, bounds[2]) = <<>>
         [] kind = "ge"    -> p >= Clamp(t) /\ Read(Clamp(t), p) = <<>>
         [] kind = "le"    -> p <= Clamp(t) /\ (p < Clamp(t) => Read(p, Min2(Clamp(t) + 1, bounds[2])) = <<>>)
    /\ SeekTo(p, IF kind \in {"first", "last"} THEN kind ELSE "off")

Positioned == last # "none"
StepFwd(v, k) ==
  /\ view' = v /\ frame' = Read(v[1], v[2]) /\ valid' = (Read(v[1], v[2]) # <<>>) /\ last' = k
  /\ run' = IF run = "first" THEN "first" ELSE "off"
  /\ acc' = IF run = "first" THEN acc \o Read(v[1], v[2]) ELSE <<>>
  /\ UNCHANGED bounds /\ Keep
StepBwd(v, k) ==
  /\ view' = v /\ frame' = Read(v[1], v[2]) /\ valid' = (Read(v[1], v[2]) # <<>>) /\ last' = k
  /\ run' = IF run = "last" THEN "last" ELSE "off"
  /\ acc' = IF run = "last" THEN Read(v[1], v[2]) \o acc ELSE <<>>
  /\ UNCHANGED bounds /\ Keep
\* target = view.end + span, span >= 1; N + 1 stands for "beyond everything"
Next(target) == Positioned /\ target > view[2] /\ StepFwd(<<view[2], Min2(target, bounds[2])>>, "fwd")
Prev(target) == Positioned /\ target < view[1] /\ StepBwd(<<Max2(target, bounds[1]), view[1]>>, "bwd")
NextAuto ==
  /\ Positioned
  /\ \E e \in view[2]..bounds[2] :
       /\ Len(Read(view[2], e)) = Min2(chunk, Len(Read(view[2], bounds[2])))
       /\ StepFwd(<<view[2], e>>, "afwd")
PrevAuto ==
  /\ Positioned
  /\ \E s \in bounds[1]..view[1] :
       /\ Len(Read(s, view[1])) = Min2(chunk, Len(Read(bounds[1], view[1])))
       /\ StepBwd(<<s, view[1]>>, "abwd")

\* The store grows under the open iterator. Nothing the iterator reports changes; a traversal
\* in progress stays exactly-once only while no sample appears in the part already traversed.
GrowTo(ns) ==
  /\ \A i \in DOMAIN stored : \E j \in DOMAIN ns : ns[j] = stored[i]
  /\ stored' = ns
  /\ LET keep == /\ ~(last \in {"afwd", "abwd"} /\ ~valid)   \* an automatic traversal that had ended is over
                  /\ \/ (run = "first" /\ ReadIn(ns, bounds[1], view[2]) = acc)
                     \/ (run = "last" /\ ReadIn(ns, view[1], bounds[2]) = acc)
     IN /\ run' = IF keep THEN run ELSE "off"
        /\ acc' = IF keep THEN acc ELSE <<>>
  /\ UNCHANGED <<chunk, bounds, view, frame, valid, last>>

\* ------------------------------------------------------------------ design-level model
\* every layout over the time line (ids: the time itself + 1), every chunk size
RECURSIVE SeqOf(_, _)
SeqOf(S, lo) == IF lo > N THEN <<>>
                ELSE IF lo \in S THEN <<<<lo, lo + 1>>>> \o SeqOf(S, lo + 1) ELSE SeqOf(S, lo + 1)
Init == /\ \E S \in SUBSET Time : stored = SeqOf(S, 0)
        /\ chunk \in Chunks
        /\ \E a, b \in Time : a <= b /\ bounds = <<a, b>> /\ view = <<b, b>>
        /\ frame = <<>> /\ valid = FALSE /\ last = "none" /\ run = "off" /\ acc = <<>>
NextStep == \/ \E a, b \in Time : SetBounds(a, b)
            \/ \E k \in {"first", "last"} : Seek(k, 0)
            \/ \E k \in {"ge", "le"}, t \in Time : Seek(k, t)
            \/ \E t \in -1..(N + 1) : Next(t) \/ Prev(t)
            \/ NextAuto \/ PrevAuto
            \/ \E S \in SUBSET Time : LET ns == SeqOf(S \cup {stored[i][1] : i \in DOMAIN stored}, 0)
                                      IN ns # stored /\ GrowTo(ns)
Spec == Init /\ [][NextStep]_ivars

TypeOK == /\ bounds[1] <= bounds[2] /\ view[1] <= view[2]
          /\ bounds[1] <= view[1] /\ view[2] <= bounds[2]
          /\ last \in {"none", "seek"} \cup FwdKinds \cup BwdKinds
          /\ run \in {"off", "first", "last"}
\* a growth step changes nothing the iterator reports
GrowClauses == [][stored' # stored => UNCHANGED <<chunk, bounds, view, frame, valid, last>>]_ivars
\* a finished traversal has returned every sample in the bounds exactly once
FullTraversalOnce ==
  /\ (run = "first" /\ last \in FwdKinds /\ (view[2] = bounds[2] \/ (last = "afwd" /\ ~valid)))
        => acc = Read(bounds[1], bounds[2])
  /\ (run = "last" /\ last \in BwdKinds /\ (view[1] = bounds[1] \/ (last = "abwd" /\ ~valid)))
        => acc = Read(bounds[1], bounds[2])
\* action properties: every step of the model satisfies the clauses
IsStepF == last' \in FwdKinds /\ stored' = stored /\ ~UNCHANGED ivars
IsStepB == last' \in BwdKinds /\ stored' = stored /\ ~UNCHANGED ivars
StepClauses == [][(IsStepF \/ IsStepB) => (FrameIsView /\ ViewOrdered /\ InBounds /\ ValidIffData)]_ivars
Adjacent == [][/\ (IsStepF /\ last \in FwdKinds \cup {"seek"}) => AdjFwd
               /\ (IsStepB /\ last \in BwdKinds \cup {"seek"}) => AdjBwd]_ivars
AutoClauses == [][/\ (last' = "afwd" /\ IsStepF) => (AutoProgressFwd /\ AutoDataFwd /\ AutoCountFwd)
                  /\ (last' = "abwd" /\ IsStepB) => (AutoProgressBwd /\ AutoDataBwd /\ AutoCountBwd)]_ivars
SeekClauses == [][(last' = "seek" /\ stored' = stored /\ ~UNCHANGED ivars) =>
                    /\ SeekInBounds /\ FrameIsView
                    /\ (run' = "first" => SeekFirstNoSkip)
                    /\ (run' = "last" => SeekLastNoSkip)]_ivars
=============================================================================
