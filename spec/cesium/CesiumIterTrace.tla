---------------------------- MODULE CesiumIterTrace ----------------------------
(* Trace validation for C10: every event of a recorded iterator trace is fully logged
   (the iterator REPORTS its view, frame, validity), so each event is taken as the next
   state and every clause of CesiumIter.tla is evaluated on that transition.  The clauses
   that fail are collected in `viol` (the property's clauses) and `drift` (what the spec
   pins beyond the property) and printed as <<"VIOL", json>>; the driver attributes them.
   (A failing clause does not stop the run: many traces are concatenated and known
   findings must not mask other violations.)  Acceptance = the cursor reaches the end.

   Events (times are ranks, see CesiumIter.tla; all fields always present):
     [ev |-> "layout", tid, stored]                      a new trace over this stored content
     [ev |-> "grow", stored]                             commits returned while the iterator is open:
                                                         the content every later command must see
     [ev |-> "cmd", c, t, target, b, chunk, view, frame, valid, ok, err]      ok = the call's return value
        c \in open setbounds seekfirst seeklast seekle seekge next prev nextauto prevauto
   An iterator that reported an Error() is `failed` until the next seek: nothing it returns
   is judged (C10 does not speak about it).  Likewise an iterator whose last seek returned
   false (no domain found) is not positioned and its steps are not judged.  The error itself is a violation (UnexpectedError)
   unless it is the one an automatic step leaves behind when no sample remains in the
   direction of travel (observed behaviour, not a statement of C10).                       *)
EXTENDS CesiumIter, Json
VARIABLES l, viol, drift, tid, k, failed
tvars == <<ivars, l, viol, drift, tid, k, failed>>
Trace == ndJsonDeserialize("trace.ndjson")
ASSUME TLCSet(1, 0)
E == Trace[l]
More == l <= Len(Trace)
V(name, ok) == IF ok THEN {} ELSE {name}

TInit == /\ stored = <<>> /\ chunk = 0 /\ bounds = <<0, 0>> /\ view = <<0, 0>> /\ frame = <<>>
         /\ valid = FALSE /\ last = "none" /\ run = "off" /\ acc = <<>>
         /\ l = 1 /\ viol = {} /\ drift = {} /\ tid = 0 /\ k = 0 /\ failed = FALSE

TLayout ==
  /\ More /\ E.ev = "layout"
  /\ stored' = E.stored /\ chunk' = 0 /\ bounds' = <<0, 0>> /\ view' = <<0, 0>> /\ frame' = <<>>
  /\ valid' = FALSE /\ last' = "none" /\ run' = "off" /\ acc' = <<>>
  /\ viol' = {} /\ drift' = {} /\ tid' = E.tid /\ k' = 0 /\ failed' = FALSE
  /\ l' = l + 1

\* commits of writers returned: the store grew under the open iterator (CesiumIter!GrowTo)
TGrow ==
  /\ More /\ E.ev = "grow"
  /\ LET keep == /\ ~(last \in {"afwd", "abwd"} /\ ~valid)   \* an automatic traversal that had ended is over
                  /\ \/ (run = "first" /\ ReadIn(E.stored, bounds[1], view[2]) = acc)
                     \/ (run = "last" /\ ReadIn(E.stored, view[1], bounds[2]) = acc)
     IN /\ run' = IF keep THEN run ELSE "off"
        /\ acc' = IF keep THEN acc ELSE <<>>
  /\ stored' = E.stored
  /\ UNCHANGED <<chunk, bounds, view, frame, valid, last, failed, tid>>
  /\ viol' = {}
  /\ drift' = V("GrowOnlyAdds", \A i \in DOMAIN stored : \E j \in DOMAIN E.stored : E.stored[j] = stored[i])
  /\ k' = k + 1 /\ l' = l + 1

\* the observation becomes the next state
Observe == /\ view' = E.view /\ frame' = E.frame /\ valid' = E.valid /\ bounds' = E.b
           /\ chunk' = E.chunk /\ UNCHANGED stored
           /\ tid' = tid /\ k' = k + 1 /\ l' = l + 1
Cmd(c) == More /\ E.ev = "cmd" /\ E.c = c

TSetBounds ==
  /\ (Cmd("open") \/ Cmd("setbounds")) /\ Observe
  /\ last' = "none" /\ run' = "off" /\ acc' = <<>> /\ failed' = FALSE
  /\ viol' = V("FrameIsView", FrameIsView)
  /\ drift' = V("BoundsView", view' = <<bounds'[2], bounds'[2]>> /\ ~valid') \cup V("ErrorAfterSetBounds", E.err = "")

SeekRun(c) == IF c = "seekfirst" THEN "first" ELSE IF c = "seeklast" THEN "last" ELSE "off"
TSeek ==
  /\ \E c \in {"seekfirst", "seeklast", "seekle", "seekge"} :
       /\ Cmd(c) /\ Observe
       /\ last' = (IF E.ok THEN "seek" ELSE "none") /\ run' = (IF E.ok THEN SeekRun(c) ELSE "off")
       /\ acc' = <<>> /\ failed' = (E.err # "")
       /\ viol' = V("FrameIsView", FrameIsView)
                    \cup (IF c = "seekfirst" /\ E.ok /\ SeekInBounds THEN V("SeekFirstNoSkip", SeekFirstNoSkip) ELSE {})
                    \cup (IF c = "seeklast" /\ E.ok /\ SeekInBounds THEN V("SeekLastNoSkip", SeekLastNoSkip) ELSE {})
                    \cup (IF c \in {"seekfirst", "seeklast"} THEN V("SeekFinds", Read(bounds[1], bounds[2]) # <<>> => E.ok) ELSE {})
                    \cup V("UnexpectedError", E.err = "")
       /\ drift' = IF ~E.ok THEN {} ELSE
                    V("SeekInBounds", SeekInBounds)
                    \cup (IF c = "seekge" THEN V("SeekGEPos", SeekGEPos(E.t)) ELSE {})
                    \cup (IF c = "seekle" THEN V("SeekLEPos", SeekLEPos(E.t)) ELSE {})
                    \cup V("ValidAfterSeek", ~valid')

\* steps of a failed iterator are recorded but not judged
TFailedStep ==
  /\ failed \/ last = "none"
  /\ \E c \in {"next", "prev", "nextauto", "prevauto"} : Cmd(c)
  /\ Observe
  /\ last' = "none" /\ run' = "off" /\ acc' = <<>> /\ failed' = failed
  /\ viol' = {} /\ drift' = {IF failed THEN "StepOfFailedIterator" ELSE "StepOfUnpositionedIterator"}

TFwd ==
  /\ ~failed /\ last # "none"
  /\ \E c \in {"next", "nextauto"} :
       /\ Cmd(c) /\ Observe
       /\ last' = IF c = "next" THEN "fwd" ELSE "afwd"
       /\ LET nacc == IF run = "first" THEN acc \o frame' ELSE <<>>
              trav == run = "first" => nacc = Read(bounds[1], view'[2])
              errOK == \/ E.err = ""
                       \/ c = "nextauto" /\ Read(view[2], bounds[2]) = <<>>
          IN /\ acc' = nacc
             /\ run' = IF run = "first" /\ trav /\ E.err = "" THEN "first" ELSE "off"
             /\ failed' = (E.err # "")
             /\ viol' = V("UnexpectedError", errOK)
                   \cup (IF E.err # "" THEN {} ELSE
                           V("FrameIsView", FrameIsView) \cup V("ViewOrdered", ViewOrdered)
                           \cup V("InBounds", InBounds)
                           \cup (IF last \in FwdKinds THEN V("AdjFwd", AdjFwd) ELSE {})
                           \cup (IF c = "nextauto" THEN V("AutoProgressFwd", AutoProgressFwd) ELSE {})
                           \cup V("TraversalOnce", trav))
             /\ drift' = IF E.err # "" THEN {"Error"} ELSE
                   (IF c = "next" THEN V("SpanEndFwd", SpanEndFwd(E.target))
                                    ELSE V("AutoCountFwd", AutoCountFwd) \cup V("AutoDataFwd", AutoDataFwd))
                   \cup (IF last \in BwdKinds THEN V("TurnFwd", AdjFwd) ELSE {})
                   \cup (IF last = "seek" THEN V("StartAtSeekFwd", AdjFwd) ELSE {})
                   \cup V("ValidIffData", ValidIffData)

TBwd ==
  /\ ~failed /\ last # "none"
  /\ \E c \in {"prev", "prevauto"} :
       /\ Cmd(c) /\ Observe
       /\ last' = IF c = "prev" THEN "bwd" ELSE "abwd"
       /\ LET nacc == IF run = "last" THEN frame' \o acc ELSE <<>>
              trav == run = "last" => nacc = Read(view'[1], bounds[2])
              errOK == \/ E.err = ""
                       \/ c = "prevauto" /\ Read(bounds[1], view[1]) = <<>>
          IN /\ acc' = nacc
             /\ run' = IF run = "last" /\ trav /\ E.err = "" THEN "last" ELSE "off"
             /\ failed' = (E.err # "")
             /\ viol' = V("UnexpectedError", errOK)
                   \cup (IF E.err # "" THEN {} ELSE
                           V("FrameIsView", FrameIsView) \cup V("ViewOrdered", ViewOrdered)
                           \cup V("InBounds", InBounds)
                           \cup (IF last \in BwdKinds THEN V("AdjBwd", AdjBwd) ELSE {})
                           \cup (IF c = "prevauto" THEN V("AutoProgressBwd", AutoProgressBwd) ELSE {})
                           \cup V("TraversalOnce", trav))
             /\ drift' = IF E.err # "" THEN {"Error"} ELSE
                   (IF c = "prev" THEN V("SpanEndBwd", SpanEndBwd(E.target))
                                    ELSE V("AutoCountBwd", AutoCountBwd) \cup V("AutoDataBwd", AutoDataBwd))
                   \cup (IF last \in FwdKinds THEN V("TurnBwd", AdjBwd) ELSE {})
                   \cup (IF last = "seek" THEN V("StartAtSeekBwd", AdjBwd) ELSE {})
                   \cup V("ValidIffData", ValidIffData)

TNext == TLayout \/ TGrow \/ TSetBounds \/ TSeek \/ TFailedStep \/ TFwd \/ TBwd
TSpec == TInit /\ [][TNext]_tvars

Report == (viol = {} /\ drift = {}) \/ PrintT(<<"VIOL", ToJson([tid |-> tid, k |-> k, viol |-> viol, drift |-> drift])>>)
Mark == IF l > TLCGet(1) THEN TLCSet(1, l) ELSE TRUE
Accepted == \/ TLCGet(1) = Len(Trace) + 1
            \/ (PrintT(<<"HW", TLCGet(1)>>) /\ FALSE)
=============================================================================
