--------------------------- MODULE CesiumLinTrace ---------------------------
(* C09: concurrent use of one cesium database is equivalent to some serial order.
   The harness (zz_verif_conc_test.go) runs several goroutines against one real
   cesium.DB - a writer opening successive sessions on fresh time regions, a deleter
   removing ranges of older data, a garbage-collection loop, a reader loop and a
   channel create/delete loop - and logs a "call" event before and a "ret" event (with
   the outcome class) after every public call, ordered by a global atomic counter.
   After all goroutines joined it logs the content read back in memory ("final") and,
   after Close + Open, once more.

   This module replays such a trace on CesiumStore's actions: every call takes effect
   atomically at a silent step between its call and ret events (any serial order that
   respects real time is tried), operations that reported failure must be explainable
   as no-ops, and both "final" events must equal the model's committed samples.
   GC, reads and operations on unrelated channels are stuttering steps.

   Deletes here may run while a writer is open (the sequential CesiumStore!Delete
   requires all writers closed): the code refuses a delete whose range overlaps the
   control region [start, +inf) of an open writer on that channel ("controlled").   *)
EXTENDS CesiumStore, Json, TLC
VARIABLES l, pend
tvars == <<vars, l, pend>>
Trace == ndJsonDeserialize("trace.ndjson")
ASSUME TLCSet(1, 0)
Proc == {"w", "d", "g", "r", "c", "x"}
NoCall == [op |-> "none", done |-> FALSE, res |-> "ok", ev |-> [ev |-> "none"]]
Ev == Trace[l]
More == l <= Len(Trace)
SeqToSet(s) == {s[i] : i \in 1..Len(s)}

TInit == Init /\ l = 1 /\ pend = [p \in Proc |-> NoCall]

TReset == /\ More /\ Ev.ev = "reset" /\ \A p \in Proc : pend[p].op = "none"
          /\ committed' = [c \in Chan |-> [t \in Even |-> 0]]
          /\ domains' = [c \in Chan |-> {}]
          /\ wr' = [w \in Writers |-> NoWriter]
          /\ nextId' = 1 /\ res' = "ok"
          /\ l' = l + 1 /\ UNCHANGED pend

TCall == /\ More /\ Ev.ev = "call" /\ pend[Ev.p].op = "none"
         /\ pend' = [pend EXCEPT ![Ev.p] = [op |-> Ev.op, done |-> FALSE, res |-> "ok", ev |-> Ev]]
         /\ l' = l + 1 /\ UNCHANGED vars

\* delete while writers may be open
Controlled(cs, b) == \E w \in Writers : wr[w].open /\ wr[w].chans \cap cs # {} /\ b > wr[w].start
DeleteConc(cs, a, b) ==
  IF Controlled(cs, b) \/ (("I" \in cs) /\ Controlled(DataChan, b))
  THEN /\ res' = "controlled" /\ UNCHANGED <<committed, domains, wr, nextId>>
  ELSE IF MustRefuse(cs, a, b)      \* index delete over data of a dependent channel
  THEN /\ res' = "refused" /\ UNCHANGED <<committed, domains, wr, nextId>>
  ELSE /\ committed' = [c \in Chan |-> IF c \in cs
                          THEN [t \in Even |-> IF a <= t /\ t < b THEN 0 ELSE committed[c][t]]
                          ELSE committed[c]]
       /\ domains' = [c \in Chan |-> IF c \in cs /\ a < b THEN DelDomains(c, a, b) ELSE domains[c]]
       /\ res' = "ok" /\ UNCHANGED <<wr, nextId>>

TLin(p) ==
  /\ pend[p].op # "none" /\ ~pend[p].done
  /\ LET e == pend[p].ev IN
     \/ /\ pend[p].op = "open"
        /\ OpenWriter("w1", SeqToSet(e.chans), e.start, e.auto)
     \/ /\ pend[p].op = "write"
        /\ nextId' = e.id + 1
        /\ LET times == SeqToSet(e.times)
               pairs == {<<t, e.id>> : t \in times}
               w2 == [wr["w1"] EXCEPT !.hwm = Max(times), !.buf = @ \cup pairs, !.n = @ + Cardinality(times)]
           IN /\ wr["w1"].open
              \* a data-only writer needs index samples at the times it fills (checked when the
              \* samples are committed: at once with auto-commit, else at Commit)
              /\ ("I" \in wr["w1"].chans \/ ~wr["w1"].auto \/ times \subseteq Samples("I"))
              /\ IF wr["w1"].auto
                 THEN LET r == DoCommit("w1", committed, domains, w2.buf)
                      IN /\ committed' = r[1] /\ domains' = r[2]
                         /\ wr' = [wr EXCEPT !["w1"] = [w2 EXCEPT !.buf = {}, !.ins = TRUE]]
                 ELSE /\ wr' = [wr EXCEPT !["w1"] = w2] /\ UNCHANGED <<committed, domains>>
              /\ res' = "ok"
     \/ /\ pend[p].op = "commit" /\ Commit("w1")
        /\ ("I" \in wr["w1"].chans \/ {q[1] : q \in wr["w1"].buf} \subseteq Samples("I"))
     \/ /\ pend[p].op = "close" /\ CloseWriter("w1")
     \/ /\ pend[p].op = "delete" /\ DeleteConc(SeqToSet(e.chans), e.a, e.b)
     \* an operation that reports failure must be explainable as a no-op
     \/ /\ pend[p].op \in {"delete", "open", "write", "commit"} /\ res' = "failed"
        /\ UNCHANGED <<committed, domains, wr, nextId>>
     \/ /\ pend[p].op \in {"gc", "read", "chan"} /\ res' = "ok"
        /\ UNCHANGED <<committed, domains, wr, nextId>>
  /\ pend' = [pend EXCEPT ![p].done = TRUE, ![p].res = res']
  /\ UNCHANGED l

TRet == /\ More /\ Ev.ev = "ret"
        /\ pend[Ev.p].done
        \* outcome classes of GC passes, reads and unrelated channel operations are not
        \* compared (e.g. a GC pass legitimately fails on a channel deleted meanwhile)
        \* (nor is that of Close, which reports the error of an earlier failed write again)
        /\ (Ev.p \in {"g", "r", "c", "x"} \/ pend[Ev.p].op = "close" \/ (pend[Ev.p].res = "ok") = (Ev.res = "ok"))
        /\ pend' = [pend EXCEPT ![Ev.p] = NoCall]
        /\ l' = l + 1 /\ UNCHANGED vars

\* content read back after all goroutines joined (in memory, and again after reopen)
FinalMatches ==
  \A c \in Chan : \A t \in Even :
     committed[c][t] = (IF ToString(t) \in DOMAIN Ev.cm[c] THEN Ev.cm[c][ToString(t)] ELSE 0)
TFinal == /\ More /\ Ev.ev = "final" /\ \A p \in Proc : pend[p].op = "none"
          /\ FinalMatches
          /\ l' = l + 1 /\ UNCHANGED <<vars, pend>>

TNext == TReset \/ TCall \/ TRet \/ TFinal \/ \E p \in Proc : TLin(p)
TSpec == TInit /\ [][TNext]_tvars
HW == TLCSet(1, IF l > TLCGet(1) THEN l ELSE TLCGet(1))
TraceAccepted == IF TLCGet(1) = Len(Trace) + 1 THEN TRUE
                 ELSE PrintT(<<"HWM", TLCGet(1), Len(Trace)>>) /\ FALSE
=============================================================================
