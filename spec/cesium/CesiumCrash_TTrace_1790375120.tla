---- MODULE CesiumCrash_TTrace_1790375120 ----
EXTENDS Sequences, TLCExt, Toolbox, Naturals, TLC, CesiumCrash

_expression ==
    LET CesiumCrash_TEExpression == INSTANCE CesiumCrash_TEExpression
    IN CesiumCrash_TEExpression!expression
----

_trace ==
    LET CesiumCrash_TETrace == INSTANCE CesiumCrash_TETrace
    IN CesiumCrash_TETrace!trace
----

_inv ==
    ~(
        TLCGet("level") = Len(_TETrace)
        /\
        next = (3)
        /\
        head = (1)
        /\
        durable = ({2})
        /\
        disk = (<<[file |-> 1, off |-> 1, n |-> 1, torn |-> FALSE]>>)
        /\
        pc = ("crashed")
        /\
        mem = (<<[file |-> 1, off |-> 1, n |-> 1, torn |-> FALSE]>>)
        /\
        files = (<<<<2>>, <<>>>>)
        /\
        present = (<<TRUE, FALSE>>)
        /\
        dir = ("ready")
        /\
        gcfile = (<<>>)
    )
----

_init ==
    /\ durable = _TETrace[1].durable
    /\ present = _TETrace[1].present
    /\ pc = _TETrace[1].pc
    /\ disk = _TETrace[1].disk
    /\ files = _TETrace[1].files
    /\ next = _TETrace[1].next
    /\ dir = _TETrace[1].dir
    /\ gcfile = _TETrace[1].gcfile
    /\ mem = _TETrace[1].mem
    /\ head = _TETrace[1].head
----

_next ==
    /\ \E i,j \in DOMAIN _TETrace:
        /\ \/ /\ j = i + 1
              /\ i = TLCGet("level")
        /\ durable  = _TETrace[i].durable
        /\ durable' = _TETrace[j].durable
        /\ present  = _TETrace[i].present
        /\ present' = _TETrace[j].present
        /\ pc  = _TETrace[i].pc
        /\ pc' = _TETrace[j].pc
        /\ disk  = _TETrace[i].disk
        /\ disk' = _TETrace[j].disk
        /\ files  = _TETrace[i].files
        /\ files' = _TETrace[j].files
        /\ next  = _TETrace[i].next
        /\ next' = _TETrace[j].next
        /\ dir  = _TETrace[i].dir
        /\ dir' = _TETrace[j].dir
        /\ gcfile  = _TETrace[i].gcfile
        /\ gcfile' = _TETrace[j].gcfile
        /\ mem  = _TETrace[i].mem
        /\ mem' = _TETrace[j].mem
        /\ head  = _TETrace[i].head
        /\ head' = _TETrace[j].head

\* Uncomment the ASSUME below to write the states of the error trace
\* to the given file in Json format. Note that you can pass any tuple
\* to `JsonSerialize`. For example, a sub-sequence of _TETrace.
    \* ASSUME
    \*     LET J == INSTANCE Json
    \*         IN J!JsonSerialize("CesiumCrash_TTrace_1790375120.json", _TETrace)

=============================================================================

 Note that you can extract this module `CesiumCrash_TEExpression`
  to a dedicated file to reuse `expression` (the module in the 
  dedicated `CesiumCrash_TEExpression.tla` file takes precedence 
  over the module `CesiumCrash_TEExpression` below).

---- MODULE CesiumCrash_TEExpression ----
EXTENDS Sequences, TLCExt, Toolbox, Naturals, TLC, CesiumCrash

expression == 
    [
        \* To hide variables of the `CesiumCrash` spec from the error trace,
        \* remove the variables below.  The trace will be written in the order
        \* of the fields of this record.
        durable |-> durable
        ,present |-> present
        ,pc |-> pc
        ,disk |-> disk
        ,files |-> files
        ,next |-> next
        ,dir |-> dir
        ,gcfile |-> gcfile
        ,mem |-> mem
        ,head |-> head
        
        \* Put additional constant-, state-, and action-level expressions here:
        \* ,_stateNumber |-> _TEPosition
        \* ,_durableUnchanged |-> durable = durable'
        
        \* Format the `durable` variable as Json value.
        \* ,_durableJson |->
        \*     LET J == INSTANCE Json
        \*     IN J!ToJson(durable)
        
        \* Lastly, you may build expressions over arbitrary sets of states by
        \* leveraging the _TETrace operator.  For example, this is how to
        \* count the number of times a spec variable changed up to the current
        \* state in the trace.
        \* ,_durableModCount |->
        \*     LET F[s \in DOMAIN _TETrace] ==
        \*         IF s = 1 THEN 0
        \*         ELSE IF _TETrace[s].durable # _TETrace[s-1].durable
        \*             THEN 1 + F[s-1] ELSE F[s-1]
        \*     IN F[_TEPosition - 1]
    ]

=============================================================================



Parsing and semantic processing can take forever if the trace below is long.
 In this case, it is advised to uncomment the module below to deserialize the
 trace from a generated binary file.

\*
\*---- MODULE CesiumCrash_TETrace ----
\*EXTENDS IOUtils, TLC, CesiumCrash
\*
\*trace == IODeserialize("CesiumCrash_TTrace_1790375120.bin", TRUE)
\*
\*=============================================================================
\*

---- MODULE CesiumCrash_TETrace ----
EXTENDS TLC, CesiumCrash

trace == 
    <<
    ([next |-> 1,head |-> 1,durable |-> {},disk |-> <<>>,pc |-> "idle",mem |-> <<>>,files |-> <<<<>>, <<>>>>,present |-> <<FALSE, FALSE>>,dir |-> "none",gcfile |-> <<>>]),
    ([next |-> 1,head |-> 1,durable |-> {},disk |-> <<>>,pc |-> "idle",mem |-> <<>>,files |-> <<<<>>, <<>>>>,present |-> <<FALSE, FALSE>>,dir |-> "dir",gcfile |-> <<>>]),
    ([next |-> 1,head |-> 1,durable |-> {},disk |-> <<>>,pc |-> "idle",mem |-> <<>>,files |-> <<<<>>, <<>>>>,present |-> <<FALSE, FALSE>>,dir |-> "tmp",gcfile |-> <<>>]),
    ([next |-> 1,head |-> 1,durable |-> {},disk |-> <<>>,pc |-> "idle",mem |-> <<>>,files |-> <<<<>>, <<>>>>,present |-> <<TRUE, FALSE>>,dir |-> "ready",gcfile |-> <<>>]),
    ([next |-> 2,head |-> 1,durable |-> {},disk |-> <<>>,pc |-> "trunc",mem |-> <<[file |-> 1, off |-> 0, n |-> 1, torn |-> FALSE]>>,files |-> <<<<1>>, <<>>>>,present |-> <<TRUE, FALSE>>,dir |-> "ready",gcfile |-> <<>>]),
    ([next |-> 2,head |-> 1,durable |-> {},disk |-> <<>>,pc |-> "write",mem |-> <<[file |-> 1, off |-> 0, n |-> 1, torn |-> FALSE]>>,files |-> <<<<1>>, <<>>>>,present |-> <<TRUE, FALSE>>,dir |-> "ready",gcfile |-> <<>>]),
    ([next |-> 2,head |-> 1,durable |-> {1},disk |-> <<[file |-> 1, off |-> 0, n |-> 1, torn |-> FALSE]>>,pc |-> "idle",mem |-> <<[file |-> 1, off |-> 0, n |-> 1, torn |-> FALSE]>>,files |-> <<<<1>>, <<>>>>,present |-> <<TRUE, FALSE>>,dir |-> "ready",gcfile |-> <<>>]),
    ([next |-> 2,head |-> 1,durable |-> {},disk |-> <<[file |-> 1, off |-> 0, n |-> 1, torn |-> FALSE]>>,pc |-> "trunc",mem |-> <<>>,files |-> <<<<1>>, <<>>>>,present |-> <<TRUE, FALSE>>,dir |-> "ready",gcfile |-> <<>>]),
    ([next |-> 2,head |-> 1,durable |-> {},disk |-> <<>>,pc |-> "write",mem |-> <<>>,files |-> <<<<1>>, <<>>>>,present |-> <<TRUE, FALSE>>,dir |-> "ready",gcfile |-> <<>>]),
    ([next |-> 2,head |-> 1,durable |-> {},disk |-> <<>>,pc |-> "idle",mem |-> <<>>,files |-> <<<<1>>, <<>>>>,present |-> <<TRUE, FALSE>>,dir |-> "ready",gcfile |-> <<>>]),
    ([next |-> 3,head |-> 1,durable |-> {},disk |-> <<>>,pc |-> "trunc",mem |-> <<[file |-> 1, off |-> 1, n |-> 1, torn |-> FALSE]>>,files |-> <<<<1, 2>>, <<>>>>,present |-> <<TRUE, FALSE>>,dir |-> "ready",gcfile |-> <<>>]),
    ([next |-> 3,head |-> 1,durable |-> {},disk |-> <<>>,pc |-> "write",mem |-> <<[file |-> 1, off |-> 1, n |-> 1, torn |-> FALSE]>>,files |-> <<<<1, 2>>, <<>>>>,present |-> <<TRUE, FALSE>>,dir |-> "ready",gcfile |-> <<>>]),
    ([next |-> 3,head |-> 1,durable |-> {2},disk |-> <<[file |-> 1, off |-> 1, n |-> 1, torn |-> FALSE]>>,pc |-> "idle",mem |-> <<[file |-> 1, off |-> 1, n |-> 1, torn |-> FALSE]>>,files |-> <<<<1, 2>>, <<>>>>,present |-> <<TRUE, FALSE>>,dir |-> "ready",gcfile |-> <<>>]),
    ([next |-> 3,head |-> 1,durable |-> {2},disk |-> <<[file |-> 1, off |-> 1, n |-> 1, torn |-> FALSE]>>,pc |-> "gc1",mem |-> <<[file |-> 1, off |-> 1, n |-> 1, torn |-> FALSE]>>,files |-> <<<<1, 2>>, <<>>>>,present |-> <<TRUE, FALSE>>,dir |-> "ready",gcfile |-> <<2>>]),
    ([next |-> 3,head |-> 1,durable |-> {2},disk |-> <<[file |-> 1, off |-> 1, n |-> 1, torn |-> FALSE]>>,pc |-> "gc2",mem |-> <<[file |-> 1, off |-> 0, n |-> 1, torn |-> FALSE]>>,files |-> <<<<1, 2>>, <<>>>>,present |-> <<FALSE, FALSE>>,dir |-> "ready",gcfile |-> <<2>>]),
    ([next |-> 3,head |-> 1,durable |-> {2},disk |-> <<[file |-> 1, off |-> 1, n |-> 1, torn |-> FALSE]>>,pc |-> "gc3",mem |-> <<[file |-> 1, off |-> 0, n |-> 1, torn |-> FALSE]>>,files |-> <<<<2>>, <<>>>>,present |-> <<TRUE, FALSE>>,dir |-> "ready",gcfile |-> <<>>]),
    ([next |-> 3,head |-> 1,durable |-> {2},disk |-> <<[file |-> 1, off |-> 1, n |-> 1, torn |-> FALSE]>>,pc |-> "trunc",mem |-> <<[file |-> 1, off |-> 0, n |-> 1, torn |-> FALSE]>>,files |-> <<<<2>>, <<>>>>,present |-> <<TRUE, FALSE>>,dir |-> "ready",gcfile |-> <<>>]),
    ([next |-> 3,head |-> 1,durable |-> {2},disk |-> <<[file |-> 1, off |-> 1, n |-> 1, torn |-> FALSE]>>,pc |-> "crashed",mem |-> <<[file |-> 1, off |-> 1, n |-> 1, torn |-> FALSE]>>,files |-> <<<<2>>, <<>>>>,present |-> <<TRUE, FALSE>>,dir |-> "ready",gcfile |-> <<>>])
    >>
----


=============================================================================

---- CONFIG CesiumCrash_TTrace_1790375120 ----
CONSTANTS
    MaxSamples = 4
    MaxPtrs = 3
    TornIndexWrite = FALSE
    TruncateThenWrite = FALSE
    GCWindow = FALSE
    CreateWindow = FALSE

INVARIANT
    _inv

CHECK_DEADLOCK
    \* CHECK_DEADLOCK off because of PROPERTY or INVARIANT above.
    FALSE

INIT
    _init

NEXT
    _next

CONSTANT
    _TETrace <- _trace

ALIAS
    _expression
=============================================================================
\* Generated on Fri Sep 25 22:25:21 UTC 2026