SPECIFICATION Spec
CONSTANTS
  T = 3
  Writers = {"w1", "w2"}
  MaxLen = 2
  MaxId = 3
  ChanSets = {{"I"}, {"I","D","V"}, {"D"}}
INVARIANTS TypeOK SamplesInDomains DomainsDisjoint DataHasIndex NoUncommittedVisible
PROPERTIES DeleteExact IndexGuard
CHECK_DEADLOCK FALSE
