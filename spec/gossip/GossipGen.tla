---- MODULE GossipGen ----
(* Gossip + history variable: emits behaviours of length Depth as JSON with the messages
   and the post-view the specification computed for every step.
   Atomic = TRUE : steps are tick / state / restart / xchg (one whole GossipOnceWith)
   Atomic = FALSE: message-level steps send / sync / ack / ack2 / drop, MaxMsgs in flight.
   Once = TRUE   : (with Atomic) every unordered pair exchanges at most once since the last
                   change: with MaxChanges = 0 and Depth = 1 + number of pairs the histories are all
                   orders and directions of one exchange per pair, each ending with AllPairs
                   (convergence asserted); with MaxChanges = c the same around c changes (tick /
                   restart / owner state change to any of the MaxState states, e.g. Left). A
                   history is also emitted when nothing more can happen (all pairs exchanged,
                   changes used up).
   MaxSends > 0  : (message level) at most MaxSends exchanges are started; a history also ends
                   (and is emitted) as soon as all of them have run to completion, so with
                   Depth >= 1 + 4 * MaxSends the histories are ALL interleavings of the messages
                   of MaxSends exchanges (between any initiators / peers), e.g. a whole exchange
                   delivered between another exchange's sync and ack, or ack and ack2, at one node.
   NoDrop = TRUE : no message is dropped.
   MaxChanges    : at most that many tick / state / restart steps in a history.
   First entry of every history is an "init" record holding the initial views.        *)
EXTENDS Gossip, Sequences, Json
CONSTANTS Depth, Atomic, Once, MaxSends, NoDrop, MaxChanges
VARIABLE hist
\* compact JSON: a record [g, v, s] is printed as the array [g, v, s], a digest as [g, v]
CRecs(f) == [k \in DOMAIN f |-> <<f[k].g, f[k].v, f[k].s>>]
CDigs(f) == [k \in DOMAIN f |-> <<f[k].g, f[k].v>>]
CView(w) == [n \in Node |-> CRecs(w[n])]
NoMsg == [type |-> "none", digs |-> Empty, nodes |-> Empty]
\* message created by this step (at most one)
NewMsg == IF net' \ net = {} THEN NoMsg
          ELSE LET m == CHOOSE m \in net' \ net : TRUE
               IN [type |-> m.type, digs |-> CDigs(m.digs), nodes |-> CRecs(m.nodes)]
R(a, i, j, s) == [a |-> a, i |-> i, j |-> j, s |-> s, m |-> NewMsg, st |-> CView(view'),
                  conv |-> AllPairs']
Log(a, i, j, s) == hist' = Append(hist, R(a, i, j, s))
Changes == \E n \in Node :
             \/ Tick(n) /\ Log("tick", n, "", 0)
             \/ Restart(n) /\ Log("restart", n, "", 0)
             \/ \E s \in 0..MaxState : StateChange(n, s) /\ Log("state", n, "", s)
NumSends == Cardinality({k \in 1..Len(hist) : hist[k].a = "send"})
NumChanges == Cardinality({k \in 1..Len(hist) : hist[k].a \in {"tick", "state", "restart"}})
AllDone == MaxSends > 0 /\ NumSends = MaxSends /\ net = {}
GNext == /\ Len(hist) < Depth /\ ~AllDone
         /\ \/ NumChanges < MaxChanges /\ Changes
            \/ Atomic /\ \E i, j \in Node : (~Once \/ {i, j} \notin exchanged) /\ Exchange(i, j) /\ Log("xchg", i, j, 0)
            \/ ~Atomic /\ (MaxSends = 0 \/ NumSends < MaxSends)
                      /\ \E i, j \in Node : SendSync(i, j) /\ Log("send", i, j, 0)
            \/ ~Atomic /\ \E m \in net :
                  \/ HandleSync(m) /\ Log("sync", Initiator(m), Peer(m), 0)
                  \/ HandleAck(m) /\ Log("ack", Initiator(m), Peer(m), 0)
                  \/ HandleAck2(m) /\ Log("ack2", Initiator(m), Peer(m), 0)
                  \/ ~NoDrop /\ Drop(m) /\ Log("drop", Initiator(m), Peer(m), 0)
GInit == /\ Init
         /\ hist = <<[a |-> "init", i |-> "", j |-> "", s |-> 0, m |-> NoMsg, st |-> CView(view),
                      conv |-> FALSE]>>
GSpec == GInit /\ [][GNext]_<<vars, hist>>
OnceDone == Atomic /\ Once /\ AllPairs /\ NumChanges >= MaxChanges
Emit == (Len(hist) # Depth /\ ~AllDone /\ ~OnceDone) \/ PrintT(<<"HIST", ToJson(hist)>>)
====
