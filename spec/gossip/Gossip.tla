------------------------------ MODULE Gossip ------------------------------
(* C12 - membership gossip only moves views forward and converges.
   Code: aspen/internal/cluster/gossip/gossip.go (GossipOnceWith, sync, ack, ack2),
   aspen/internal/cluster/store/store.go (Merge, SetNode), x/go/version/heartbeat.go
   (OlderThan / YoungerThan / Increment / Restart), aspen/internal/cluster/cluster.go
   (Open: "existing cluster found in storage" branch = Restart).

   Message-granular: the three messages of one exchange are separate steps so that two
   exchanges can overlap. The code as written, deviations named (ZeroDigestWindow).

   action                code step
   ------                ---------
   Tick(n)               Gossip.incrementHostHeartbeat (host.Heartbeat.Increment + SetNode)
   StateChange(n, s)     owner n alters its own member state; Heartbeat.Version "is
                         incremented every time the process alters its state" (heartbeat.go)
   Restart(n)            cluster.Open on persisted state: host.Heartbeat.Restart() + SetNode
   SendSync(i, j)        GossipOnceWith: Message{Digests: CopyState().Nodes.Digests()} handed
                         to TransportClient.Send(addr j)
   HandleSync(m)         Gossip.process -> Gossip.sync on the peer (read only), reply = ack
   HandleAck(m)          Gossip.ack on the initiator: snapshot, store.Merge(ack.Nodes),
                         ack2 from the snapshot; exchange complete if ack2 is empty
   HandleAck2(m)         Gossip.process -> Gossip.ack2 on the peer: store.Merge(ack2.Nodes)
   Drop(m)               TransportClient.Send returns an error (request or reply lost)
   Exchange(i, j)        the four steps back to back (used by GossipGen for deep sequential
                         histories; not part of Next)

   Projection used by the harness (zz_verif_gossip_test.go):
     view[n][k] <- store n .CopyState().Nodes[key k]: g = Heartbeat.Generation,
                   v = Heartbeat.Version, s = State; k \notin DOMAIN view[n] <=> key absent
                   (versions are concretised by the harness, per history: generation-0
                   version v > 0 is base + v, base in {0, 65534, 65535, 2^31}; order-isomorphic)
     net        <- requests / replies held by the harness' gate transport
                   (sync: Digests; ack: Digests + Nodes; ack2: Nodes)
     exchanged, stale <- ghosts, recomputed independently by the harness

   "older" in the code's vocabulary = further advanced: a.OlderThan(b) == Adv(a, b).

   Pinned beyond the property (compared as drift, never as a verdict):
     - the exact content of sync / ack / ack2 messages and the exact post-view of every
       step (the property only states monotonicity, no-stale-overwrite, supersession and
       convergence; those four are asserted on the real stores directly)
     - NoFuture, SameHBSameRecord (consequences of the protocol, not stated by C12)
     - a node initiates at most one exchange at a time (GossipOnce runs on one ticker
       goroutine); Restart(n) only when no message involves n (in-flight messages of a
       crashed process are Drop'ed first); Restart keeps the persisted view and state
     - SendSync needs only the peer's address, not a member record (cluster.
       gossipInitialState gossips with pledge peers it has no record of)
   Named deviation of the as-is design:
     ZeroDigestWindow = TRUE  Gossip.sync answers a digest for a member it does not know
       with a zero heartbeat, and Gossip.ack sends a record only when it is strictly
       further advanced than that digest: a record whose heartbeat is still (0,0) is never
       sent by an initiator to a peer that lacks it. ConvergedAfterAllPairs fails exactly
       there (ConvergedAfterAllPairsMasked holds); FALSE models the minimal fix
       (send unless younger) under which ConvergedAfterAllPairs holds unmasked.        *)
EXTENDS Naturals, FiniteSets, TLC
CONSTANTS Node,              \* set of strings "n1".."n4"
          MaxVer, MaxGen,    \* heartbeat bounds
          MaxState,          \* member states 0..MaxState (0 = healthy)
          MaxMsgs,           \* messages in flight
          Topos,             \* subset of {"self","hub","full","out","skew","chain","part","lag"}
          ZeroDigestWindow   \* TRUE = code as written
VARIABLES view,      \* view[n]: function from the members n knows to records [g, v, s]
          net,       \* set of in-flight messages
          exchanged, \* ghost: unordered pairs {i,j} that completed a full exchange which
                     \* started after the last change
          stale      \* ghost: initiators whose in-flight exchange started before the last change
vars == <<view, net, exchanged, stale>>

Rec(g, v, s) == [g |-> g, v |-> v, s |-> s]
Dig(r) == [g |-> r.g, v |-> r.v]
ZeroDig == [g |-> 0, v |-> 0]
\* a.OlderThan(b): a is further advanced than b (generation first, then version)
Adv(a, b) == a.g > b.g \/ (a.g = b.g /\ a.v > b.v)
Known(n) == DOMAIN view[n]
Digests(v) == [k \in DOMAIN v |-> Dig(v[k])]
Empty == [k \in {} |-> ZeroDig]

\* store.Merge
MergeV(v, nodes) ==
  [k \in DOMAIN v \cup DOMAIN nodes |->
     IF k \in DOMAIN nodes /\ (k \notin DOMAIN v \/ Adv(nodes[k], v[k])) THEN nodes[k] ELSE v[k]]
\* Gossip.sync on peer state vj for digests d
AckNodes(vj, d) == [k \in {k \in DOMAIN vj : k \notin DOMAIN d \/ Adv(vj[k], d[k])} |-> vj[k]]
AckDigs(vj, d) == [k \in {k \in DOMAIN d : k \notin DOMAIN vj \/ Adv(d[k], vj[k])} |->
                     IF k \in DOMAIN vj THEN Dig(vj[k]) ELSE ZeroDig]
\* Gossip.ack: records of the pre-merge snapshot that the peer asked for
Ack2Nodes(snap, d) ==
  [k \in {k \in DOMAIN d : k \in DOMAIN snap /\
            IF ZeroDigestWindow THEN Adv(snap[k], d[k]) ELSE ~Adv(d[k], snap[k])} |-> snap[k]]

Msg(t, f, d, digs, nodes) == [type |-> t, from |-> f, to |-> d, digs |-> digs, nodes |-> nodes]
Initiator(m) == IF m.type = "ack" THEN m.to ELSE m.from
Peer(m) == IF m.type = "ack" THEN m.from ELSE m.to
Busy(i) == \E m \in net : Initiator(m) = i
Involved(n) == \E m \in net : m.from = n \/ m.to = n

\* the hub of the "hub"/"out" topologies: a fixed arbitrary node
HubOf == CHOOSE h \in Node : TRUE
\* position of a node name in the fixed order n1 < n2 < n3 < n4 (strings are unordered in TLC)
Order == <<"n1", "n2", "n3", "n4">>
Idx(n) == CHOOSE i \in 1..4 : Order[i] = n
InitKnown(t, n) ==
  CASE t = "self" -> {n}
    [] t = "full" -> Node
    [] t = "hub"  -> IF n = HubOf THEN {n} ELSE {n, HubOf}   \* spokes know the hub only
    [] t = "out"  -> IF n = HubOf THEN Node ELSE {n}         \* only the hub knows anybody
    [] t = "skew" -> Node    \* everybody knows everybody, each is ahead on its own record
    [] t = "lag" -> Node
    [] t = "chain" -> {k \in Node : Idx(k) \in {Idx(n), Idx(n) + 1}}   \* n_i knows n_i, n_i+1
    [] t = "part" -> CASE Idx(n) = 1 -> {k \in Node : Idx(k) <= 3}      \* partially overlapping:
                       [] Idx(n) = 2 -> {k \in Node : Idx(k) \in {2, 3}} \* n1 {1,2,3}, n2 {2,3},
                       [] Idx(n) = 3 -> {n}                              \* n3 {3}, n4 {3,4}
                       [] OTHER -> {k \in Node : Idx(k) >= 3}
\* in "skew", "chain" and "part" every node has already ticked once (own record (0,1), held by
\* the others at (0,0)), so the ZeroDigestWindow cannot mask anything else
\* "lag": everybody knows everybody, but at different ages: the owner k is at version 2, the
\* node after k (cyclically) holds k at version 1, the others at version 0 - so one node can
\* be asked for a record that a third node holds newer (versions capped by MaxVer)
LagVer(n, k) == LET want == IF k = n THEN 2 ELSE IF Idx(n) = (Idx(k) % Cardinality(Node)) + 1 THEN 1 ELSE 0
                IN IF want > MaxVer THEN MaxVer ELSE want
InitView(t) == [n \in Node |-> [k \in InitKnown(t, n) |->
                  IF t = "lag" THEN Rec(0, LagVer(n, k), 0)
                  ELSE IF t \in {"skew", "chain", "part"} /\ k = n /\ MaxVer > 0 THEN Rec(0, 1, 0)
                  ELSE Rec(0, 0, 0)]]
Init == /\ \E t \in Topos : view = InitView(t)
        /\ net = {} /\ exchanged = {} /\ stale = {}

\* every change invalidates the record of completed exchanges; exchanges in flight no
\* longer count when they complete
Changed == /\ exchanged' = {}
           /\ stale' = {i \in Node : Busy(i)}
Own(n) == view[n][n]
Tick(n) == /\ Own(n).v < MaxVer
           /\ view' = [view EXCEPT ![n][n] = Rec(Own(n).g, Own(n).v + 1, Own(n).s)]
           /\ Changed /\ UNCHANGED net
StateChange(n, s) == /\ Own(n).v < MaxVer /\ s # Own(n).s
                     /\ view' = [view EXCEPT ![n][n] = Rec(Own(n).g, Own(n).v + 1, s)]
                     /\ Changed /\ UNCHANGED net
Restart(n) == /\ Own(n).g < MaxGen /\ ~Involved(n)
              /\ view' = [view EXCEPT ![n][n] = Rec(Own(n).g + 1, 0, Own(n).s)]
              /\ Changed /\ UNCHANGED net

SendSync(i, j) == /\ i # j /\ ~Busy(i) /\ Cardinality(net) < MaxMsgs
                  /\ net' = net \cup {Msg("sync", i, j, Digests(view[i]), Empty)}
                  /\ stale' = stale \ {i}
                  /\ UNCHANGED <<view, exchanged>>
HandleSync(m) ==
  /\ m \in net /\ m.type = "sync"
  /\ net' = (net \ {m}) \cup {Msg("ack", m.to, m.from, AckDigs(view[m.to], m.digs),
                                  AckNodes(view[m.to], m.digs))}
  /\ UNCHANGED <<view, exchanged, stale>>
Complete(i, j) == /\ exchanged' = IF i \in stale THEN exchanged ELSE exchanged \cup {{i, j}}
                  /\ stale' = stale \ {i}
HandleAck(m) ==
  /\ m \in net /\ m.type = "ack"
  /\ LET i == m.to
         a2 == Ack2Nodes(view[i], m.digs)
     IN /\ view' = [view EXCEPT ![i] = MergeV(view[i], m.nodes)]
        /\ IF DOMAIN a2 = {}
           THEN /\ net' = net \ {m} /\ Complete(i, m.from)
           ELSE /\ net' = (net \ {m}) \cup {Msg("ack2", i, m.from, Empty, a2)}
                /\ UNCHANGED <<exchanged, stale>>
HandleAck2(m) ==
  /\ m \in net /\ m.type = "ack2"
  /\ view' = [view EXCEPT ![m.to] = MergeV(view[m.to], m.nodes)]
  /\ net' = net \ {m}
  /\ Complete(m.from, m.to)
Drop(m) == /\ m \in net /\ net' = net \ {m}
           /\ stale' = stale \ {Initiator(m)}
           /\ UNCHANGED <<view, exchanged>>

\* one whole GossipOnceWith(i -> j) with nothing else in between (net must be empty)
Exchange(i, j) ==
  /\ i # j /\ net = {}
  /\ LET d   == Digests(view[i])
         an  == AckNodes(view[j], d)
         ad  == AckDigs(view[j], d)
         a2  == Ack2Nodes(view[i], ad)
     IN view' = [view EXCEPT ![i] = MergeV(view[i], an), ![j] = MergeV(view[j], a2)]
  /\ exchanged' = exchanged \cup {{i, j}}
  /\ UNCHANGED <<net, stale>>

Next == \/ \E n \in Node : Tick(n)
        \/ \E n \in Node : Restart(n)
        \/ \E n \in Node, s \in 0..MaxState : StateChange(n, s)
        \/ \E i, j \in Node : SendSync(i, j)
        \/ \E m \in net : HandleSync(m)
        \/ \E m \in net : HandleAck(m)
        \/ \E m \in net : HandleAck2(m)
        \/ \E m \in net : Drop(m)
Spec == Init /\ [][Next]_vars

------------------------------------------------------------------------------
TypeOK == /\ \A n \in Node : n \in Known(n) /\ Known(n) \subseteq Node
          /\ \A n \in Node : \A k \in Known(n) :
               view[n][k].g \in 0..MaxGen /\ view[n][k].v \in 0..MaxVer /\ view[n][k].s \in 0..MaxState
          /\ Cardinality(net) <= MaxMsgs
\* C12 clause 1a: a recorded heartbeat never regresses (and a known member stays known)
Monotone == [][\A n \in Node : \A k \in Known(n) :
                 k \in DOMAIN view'[n] /\ ~Adv(view[n][k], view'[n][k])]_vars
\* C12 clause 1b: newer member state is never overwritten by older state: a record is
\* only ever replaced by one with a strictly further advanced heartbeat
NoStaleOverwrite == [][\A n \in Node : \A k \in Known(n) :
                         view'[n][k] # view[n][k] => Adv(view'[n][k], view[n][k])]_vars
\* nobody records a heartbeat further advanced than its owner's
NoFuture == \A n \in Node : \A k \in Known(n) : ~Adv(view[n][k], view[k][k])
\* a heartbeat identifies one member state
SameHBSameRecord == \A n, m \in Node : \A k \in Known(n) \cap Known(m) :
                      Dig(view[n][k]) = Dig(view[m][k]) => view[n][k] = view[m][k]
\* C12 clause 3: whenever a delivered record carries a newer generation than the one
\* held, it replaces it whatever the versions are
RestartSupersedes ==
  [][\A m \in net : (HandleAck(m) \/ HandleAck2(m)) =>
        \A k \in DOMAIN m.nodes :
           (k \in Known(m.to) /\ m.nodes[k].g > view[m.to][k].g) => view'[m.to][k] = m.nodes[k]]_vars
\* C12 clause 2: all pairs exchanged since the last change => identical, complete views
AllPairs == \A i, j \in Node : i # j => {i, j} \in exchanged
Converged == \A n \in Node : view[n] = view[HubOf] /\ Known(n) = Node
ConvergedAfterAllPairs == AllPairs => Converged
\* the same with the named window masked: every member has left heartbeat (0,0)
ConvergedAfterAllPairsMasked == (AllPairs /\ \A k \in Node : Dig(Own(k)) # ZeroDig) => Converged
\* vacuity probes (expected to be violated: shows the antecedents are reachable)
NeverAllPairs == ~AllPairs
NeverAllPairsAfterRestart == ~(AllPairs /\ \E k \in Node : Own(k).g > 0 /\ Own(k).s > 0)
=============================================================================
