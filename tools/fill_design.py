#!/usr/bin/env python3
"""Refresh the generated tables of DESIGN.md section 8 from known_findings.json,
seeded/*/meta.json and evidence/*.json."""
import os, re, sys
sys.path.insert(0, os.path.dirname(os.path.abspath(__file__)))
import gen_tables as g
p = os.path.join(g.V, "DESIGN.md")
s = open(p).read()
for name, fn in (("findings", g.findings), ("seeded", g.seeded), ("evidence", g.evidence)):
    s = re.sub(r"<!-- BEGIN:%s -->.*?<!-- END:%s -->" % (name, name), lambda m: "<!-- BEGIN:%s -->\n%s\n<!-- END:%s -->" % (name, fn(), name), s, flags=re.S)
open(p, "w").write(s)
print("DESIGN.md tables refreshed")
