"""C19 - compiled Arc code computes what the language specification says, for the fragment
TLC can decide: i8/u8/i16/u16 completely, i32/u32 where values fit TLC's 32-bit integers,
booleans, casts, precedence, short-circuit logic, if/else with early return, locals.

  spec/arc/ArcSem.tla   the language specification's semantics (from arc/docs/spec.md)
  spec/arc/ArcGen.tla   TLC enumerates / samples well-typed programs and prints
                        {source, argument tuples, outcome per tuple} as JSON
  harness/arc/go/zz_verif_arc_test.go   compiles each source with arc.CompileText, validates and
                        instantiates under wazero, calls f, compares
This module additionally holds `model()`: a second, independent transcription of the semantics
at the level of 32-bit registers, parameterised by the three named deviations of the code as
written (ArcSem.tla header).  With no deviation it must agree with TLC's outcome for every decided
case (oracle cross-check, disagreement = exit 2); with deviations it classifies a mismatch of
the real compiler as "explained by un-normalised narrow integers" or "unexpected".
"""
import itertools
import json
import os
import random
import re
import threading

import vlib

AREA = "arc"
M32 = 0xFFFFFFFF
M64 = 0xFFFFFFFFFFFFFFFF
BITS = {"i8": 8, "u8": 8, "i16": 16, "u16": 16, "i32": 32, "u32": 32, "i64": 64, "u64": 64, "f64": 64, "f32": 32}
ALL_OPS = ["+", "-", "*", "/", "%", "==", "!=", "<", ">", "<=", ">=", "and", "or"]


def signed(t):
    return t[0] == "i"


# ----------------------------------------------------------------------------- TLC configs
def tla_set(xs):
    return "{" + ", ".join(('"%s"' % x) if isinstance(x, str) else str(x) for x in xs) + "}"


def gen_cfg(types, ops=ALL_OPS, unary=("neg", "not", "cast"), stmts=(), lits=(0, 2), litmax=True,
            wide=False, nodes=5, stack=3, locals_=1, params=2, frames=1, minnodes=0, chain=(), special=""):
    return """SPECIFICATION GSpec
CONSTANTS
  Types = %s
  Ops = %s
  Unary = %s
  Stmts = %s
  LitVals = %s
  LitMax = %s
  UseWide = %s
  MaxNodes = %d
  MaxStack = %d
  MaxLocals = %d
  MaxParams = %d
  MaxFrames = %d
  MinNodes = %d
  ChainK = %s
  Special = "%s"
CHECK_DEADLOCK FALSE
""" % (tla_set(types), tla_set(ops), tla_set(unary), tla_set(stmts), tla_set(lits),
       "TRUE" if litmax else "FALSE", "TRUE" if wide else "FALSE", nodes, stack, locals_, params, frames, minnodes, tla_set(chain), special)


# ----------------------------------------------------------------------------- register model
def ext(t, reg):
    """canonical 32-bit register for the low Bits(t) bits of reg"""
    b = BITS[t]
    if b >= 32:
        return reg & M32
    v = reg & ((1 << b) - 1)
    if signed(t) and v >> (b - 1):
        v |= M32 ^ ((1 << b) - 1)
    return v


def s32(reg):
    return reg - (1 << 32) if reg >> 31 else reg


def val(t, reg):
    """mathematical value of a canonical register of type t"""
    return s32(reg) if signed(t) else reg


class Trap(Exception):
    pass


def model_expr(e, env, devs):
    k = e["k"]
    t = e["t"]
    if k in ("lit", "blit"):
        return e["v"] & (M64 if BITS[t] == 64 else M32)
    if k == "flit":
        return 0
    if k in ("par", "loc"):
        return env[e["n"]]
    if k == "neg":
        if BITS[t] == 64:
            return (-model_expr(e["e"], env, devs)) & M64
        r = (-model_expr(e["e"], env, devs)) & M32
        return r if "arith" in devs else ext(t, r)
    if k == "not":
        return 1 if model_expr(e["e"], env, devs) == 0 else 0
    if k == "cast":
        s = e["e"]["t"]
        r = model_expr(e["e"], env, devs)
        if BITS[s] == 64:                      # i64 parameter: i32.wrap_i64, then the narrowing rule
            r &= M32
            return r if "trunc" in devs else ext(t, r)
        if BITS[t] == 64:                      # widening to 64 bits: extend by the source's signedness
            return (s32(r) if signed(s) else r) & 0xFFFFFFFFFFFFFFFF
        if signed(s) == signed(t):
            if BITS[t] >= BITS[s]:
                return r
            return r if "trunc" in devs else ext(t, r)
        if "sat" in devs:
            return r
        v = s32(r) if signed(s) else r
        lo, hi = (-(1 << (BITS[t] - 1)), (1 << (BITS[t] - 1)) - 1) if signed(t) else (0, (1 << BITS[t]) - 1)
        return max(lo, min(hi, v)) & M32                 # (narrowing + sign change is undecided; any model)
    op = e["op"]
    if op in ("and", "or"):
        a = model_expr(e["l"], env, devs)
        if op == "and":
            if a == 0:
                return 0
        elif a != 0:
            return 1
        return 1 if model_expr(e["r"], env, devs) != 0 else 0
    a = model_expr(e["l"], env, devs)
    b = model_expr(e["r"], env, devs)
    ot = e["l"]["t"]
    sg = signed(ot)
    if op in ("==", "!=", "<", ">", "<=", ">="):
        x, y = (s32(a), s32(b)) if sg else (a, b)
        return int({"==": x == y, "!=": x != y, "<": x < y, ">": x > y, "<=": x <= y, ">=": x >= y}[op])
    if op in ("/", "%"):
        if b == 0:
            raise Trap()
        if sg:
            x, y = s32(a), s32(b)
            if op == "/":
                if x == -(1 << 31) and y == -1:
                    raise Trap()
                q = abs(x) // abs(y)
                r = -q if (x < 0) != (y < 0) else q
            else:
                r = abs(x) % abs(y)
                r = -r if x < 0 else r
        else:
            r = a // b if op == "/" else a % b
        r &= M32
        return r if "arith" in devs else ext(t, r)
    r = {"+": a + b, "-": a - b, "*": a * b}[op] & M32
    return r if "arith" in devs else ext(t, r)


class Ret(Exception):
    def __init__(self, reg):
        self.reg = reg


def model_block(ss, env, devs):
    for s in ss:
        k = s["k"]
        if k == "ret":
            raise Ret(model_expr(s["e"], env, devs))
        if k in ("let", "set"):
            env[s["n"]] = model_expr(s["e"], env, devs)
        elif k == "cset":
            env[s["n"]] = model_expr({"k": "bin", "t": s["t"], "op": s["op"],
                                      "l": {"k": "loc", "t": s["t"], "n": s["n"]}, "r": s["e"]}, env, devs)
        elif k == "if":
            done = False
            for arm in s["arms"]:
                if model_expr(arm["c"], env, devs) != 0:
                    model_block(arm["b"], env, devs)
                    done = True
                    break
            if not done and s["hasElse"]:
                model_block(s["els"], env, devs)


def model(p, args, devs=frozenset()):
    """('v', register) or ('t', None) for program record p on args under deviation set devs"""
    env = {}
    for n, t, a in zip(p["pn"], p["pt"], args):
        env[n] = a & (0xFFFFFFFFFFFFFFFF if BITS[t] == 64 else M32)
    try:
        model_block(p["body"], env, devs)
    except Ret as r:
        return ("v", r.reg)
    except Trap:
        return ("t", None)
    return ("fall", None)


def decode(t, reg):
    b = BITS[t]
    v = reg & ((1 << b) - 1)
    if signed(t) and v >> (b - 1):
        v -= 1 << b
    return v


# Deviations of the code AS WRITTEN (ArcSem.tla header).  [sat] and [trunc] were repaired in /repo
# (676fc6a); only [arith] is still as written.  C19_DEVS=arith,sat,trunc switches repaired ones back on
# for self-tests against an old tree.  A mismatch is first explained with the as-written deviations
# only; a result that needs a repaired deviation is reported under its own signature, which never
# starts with "[arith" (so a known-finding pattern for [arith] cannot hide a regression of a repair).
ASWRITTEN = tuple(d for d in ("sat", "trunc", "arith") if d in os.environ.get("C19_DEVS", "arith").split(","))
REPAIRED = tuple(d for d in ("sat", "trunc", "arith") if d not in ASWRITTEN)


def _subsets(names):
    return [frozenset(x) for n in range(1, len(names) + 1) for x in itertools.combinations(names, n)]


DEV_SETS = _subsets(ASWRITTEN) + [x for x in _subsets(("sat", "trunc", "arith")) if not x <= set(ASWRITTEN)]


def dev_name(ds):
    return "+".join(d for d in ("sat", "trunc", "arith") if d in ds)


def explain(p, args, got_o, raw):
    """smallest set of named deviations under which the as-written model reproduces the real result"""
    for ds in DEV_SETS:
        o, reg = model(p, args, ds)
        if o != got_o:
            continue
        if o == "t" or reg == raw:
            return ds
    return None


def unwide(o):
    """ArcGen prints 64-bit values as {"hi": h, "lo": l} (two 32-bit halves): back to one integer (signed 64)"""
    if isinstance(o, dict):
        if set(o) == {"hi", "lo"}:
            v = ((o["hi"] << 32) | (o["lo"] & M32)) & M64
            return v - (1 << 64) if v >> 63 else v
        return {k: unwide(v) for k, v in o.items()}
    if isinstance(o, list):
        return [unwide(v) for v in o]
    return o


# ----------------------------------------------------------------------------- features
def walk(e, acc):
    k = e["k"]
    if k == "bin":
        acc.add(e["op"] + ":" + e["l"]["t"])
        walk(e["l"], acc)
        walk(e["r"], acc)
    elif k in ("neg", "not"):
        acc.add(k + ":" + e["t"])
        walk(e["e"], acc)
    elif k == "cast":
        acc.add("cast:%s>%s" % (e["e"]["t"], e["t"]))
        walk(e["e"], acc)


def walk_ss(ss, acc):
    for s in ss:
        if s["k"] == "if":
            acc.add("if")
            if len(s["arms"]) > 1:
                acc.add("elseif")
            if s["hasElse"]:
                acc.add("else")
            for a in s["arms"]:
                walk(a["c"], acc)
                walk_ss(a["b"], acc)
            walk_ss(s["els"], acc)
        else:
            acc.add(s["k"] if s["k"] != "cset" else "cset" + s["op"])
            walk(s["e"], acc)


def features(p):
    acc = set()
    walk_ss(p["body"], acc)
    return acc


# ----------------------------------------------------------------------------- harness
def run_harness(ctx, progs, tag, workers=4):
    inp = ctx.path("in_%s.ndjson" % tag)
    out = ctx.path("out_%s.ndjson" % tag)
    with open(inp, "w") as f:
        for p in progs:
            row = {"id": p["id"], "kind": p["kind"], "src": p["src"]}
            if p["kind"] == "sem":
                row.update(ret=p["ret"], pt=p["pt"], args=p["args"], o=p["o"], v=p["v"])
            f.write(json.dumps(row, separators=(",", ":")) + "\n")
    rc, text, wall = ctx.go_test("arc/go", ".", ["zz_verif_arc_test.go"], "^TestVerifArcReplay$",
                                 env={"VERIF_IN": inp, "VERIF_OUT": out, "VERIF_WORKERS": workers}, tag=tag,
                                 timeout=1500)
    rows = ctx.read_ndjson(out)
    if rc != 0 or not rows or not rows[0].get("summary"):
        raise vlib.Inconclusive("arc harness failed rc=%s:\n%s" % (rc, text[-3000:]))
    if rows[0]["read"] != len(progs):
        raise vlib.Inconclusive("harness read %s of %s programs" % (rows[0]["read"], len(progs)))
    return rows[0], rows[1:], wall


# ----------------------------------------------------------------------------- no-crash inputs
TOKEN_RE = re.compile(r"[A-Za-z_][A-Za-z_0-9]*|\d+|:=|==|!=|<=|>=|[-+*/%<>=(){},]|\n")
VOCAB = ["func", "return", "if", "else", "and", "or", "not", "i8", "u8", "i16", "u16", "i32", "u32", "i64", "f64",
         "str", "(", ")", "{", "}", ",", ":=", "$=", "=", "==", "<", "+", "-", "*", "/", "%", "^", "->", "=>", "0",
         "255", "256", "99999999999999999999", "1.5", "\"s\"", "x", "f", "a8", "chan", "series", "[", "]", "\n", "next",
         "sequence", "stage", "for", "range", "break", "now", "len", "5s", "+=", ";"]


def token_mutants(src, rnd, n):
    toks = TOKEN_RE.findall(src)
    res = []
    for _ in range(n):
        t = list(toks)
        for _ in range(rnd.choice((1, 1, 2, 3))):
            i = rnd.randrange(len(t))
            m = rnd.randrange(5)
            if m == 0:
                del t[i]
            elif m == 1:
                t.insert(i, t[i])
            elif m == 2:
                j = rnd.randrange(len(t))
                t[i], t[j] = t[j], t[i]
            elif m == 3:
                t[i] = rnd.choice(VOCAB)
            else:
                t.insert(i, rnd.choice(VOCAB))
            if not t:
                break
        res.append(" ".join(t).replace(" \n ", "\n"))
    return res


# ----------------------------------------------------------------------------- plans
def plans(tier, seed):
    """(name, cfg kwargs, mode) - mode None = breadth-first (bounded exhaustive), else simulate num"""
    n4 = ["i8", "u8", "i16", "u16"]
    P = []
    arith = ["+", "-", "*", "/", "%"]
    cmp3 = ["==", "<", ">="]
    if tier == "quick":
        # every expression program with <= 5 tokens (one binary operator over leaves, unary chains, casts)
        # over all six types at once, all operators
        P.append(("expr5-all", dict(types=n4 + ["i32"], nodes=5, stack=2, wide=True, lits=(2,)), None))
        P.append(("expr4-u32", dict(types=["i32", "u32", "u16"], nodes=4, stack=2, wide=True, lits=(2,)), None))
        # two nested binary operators (precedence / associativity / normalisation between operators), per type
        for t in n4:
            P.append(("expr6-" + t, dict(types=[t], ops=arith + cmp3 + ["and", "or"], unary=("neg", "not"),
                                         nodes=6, stack=3, lits=(2,), litmax=False, params=2), None))
        # statements: every program with <= 7 tokens over one signed and one unsigned narrow type ...
        for t in ("i8", "i16", "u16"):
            P.append(("stmt7-" + t, dict(types=[t], ops=["+", "-", "*", "/", "%", "<"], unary=(), nodes=7, stack=2,
                                         stmts=("let", "set", "cset", "if"), lits=(2,), litmax=False, params=1,
                                         locals_=1, frames=1), None))
        # u8 only, so that a condition can be a single token: if / else / nested if / else-if chains
        P.append(("ctl10-u8", dict(types=["u8"], ops=["<"], unary=(), nodes=10, stack=2, stmts=("set", "if"),
                                   lits=(0,), litmax=False, params=2, locals_=1, frames=2), None))
        P.append(("stmt8-i8", dict(types=["i8"], ops=["-", "/", "<"], unary=(), nodes=8, stack=2,
                                   stmts=("let", "set", "cset", "if"), lits=(2,), litmax=False, params=1,
                                   locals_=1, frames=1), None))
        # if / else-if chains with 1..3 `else if` clauses: every combination of returning / falling-through blocks,
        # with and without else, statements after the chain, arguments selecting every branch (chain mode)
        P.append(("chain", dict(types=["u8", "i16"], chain=(1, 2, 3)), None))
        # 64-bit integers used directly as truth values (if / else if / bare-literal and-or operands), values
        # that are non-zero with zero low 32 bits; locals declared in nested blocks followed by outer locals of
        # another WASM carrier type (i32 / i64 / f64)
        P.append(("truth", dict(types=["u8"], special="truth"), None))
        P.append(("nest", dict(types=["u8"], special="nest"), None))
        # ... and seeded samples of longer bodies: control-flow heavy (few leaves) and mixed
        P.append(("ctl-sim", dict(types=["u8"], ops=["<", "+"], unary=(), stmts=("let", "set", "if"), nodes=22,
                                  stack=2, locals_=1, params=2, frames=2, lits=(0, 2), litmax=False, minnodes=13),
                  "num=1200"))
        P.append(("stmt-sim", dict(types=n4 + ["i32"], stmts=("let", "set", "cset", "if"), nodes=14, stack=3,
                                   locals_=2, params=2, frames=2, lits=(0, 2)), "num=900"))
    else:
        P.append(("expr5-all", dict(types=n4 + ["i32", "u32"], nodes=5, stack=2, wide=True, lits=(0, 1, 2)), None))
        for t in n4 + ["i32"]:
            P.append(("expr6-" + t, dict(types=[t], unary=("neg", "not"), nodes=6, stack=3, lits=(0, 2), litmax=True,
                                         params=2), None))
        for a, b in (("i8", "u8"), ("i16", "u16"), ("i8", "i16"), ("u8", "u16"), ("i16", "i32"), ("u16", "u32"),
                     ("i32", "u32")):
            P.append(("cast6-%s-%s" % (a, b), dict(types=[a, b], ops=["+", "-", "*", "/", "<", "==", "and"],
                                                  unary=("cast", "neg"), nodes=6, stack=2, lits=(2,), litmax=False,
                                                  params=2, wide=True), None))
        for t in n4:
            P.append(("stmt8-" + t, dict(types=[t], ops=["+", "*", "/", "<", "=="], unary=("not",),
                                         stmts=("let", "set", "cset", "if"), nodes=8, stack=2, lits=(2,),
                                         litmax=False, params=1, frames=1), None))
        # three nested binary operators (all tree shapes), restricted operator sets
        for t, ops in (("i8", ["-", "*", "/", "<"]), ("u8", ["-", "/", "<", "or"]), ("i16", ["+", "*", "%", ">="]),
                       ("u16", ["-", "*", "/", "=="])):
            P.append(("expr8-" + t, dict(types=[t], ops=ops, unary=(), nodes=8, stack=3, lits=(2,), litmax=False,
                                         params=2), None))
        P.append(("chain", dict(types=["u8", "i8", "i16", "u16", "i32"], chain=(1, 2, 3)), None))
        P.append(("truth", dict(types=["u8"], special="truth"), None))
        P.append(("nest", dict(types=["u8"], special="nest"), None))
        P.append(("ctl12-u8", dict(types=["u8"], ops=["<"], unary=(), nodes=12, stack=2, stmts=("set", "if"),
                                   lits=(0,), litmax=False, params=2, locals_=1, frames=2), None))
        P.append(("ctl-sim", dict(types=["u8", "i8"], ops=["<", "+", "-"], unary=("cast",), stmts=("let", "set", "cset", "if"),
                                  nodes=26, stack=2, locals_=2, params=2, frames=2, lits=(0, 2), litmax=False,
                                  minnodes=14), "num=3000"))
        P.append(("stmt-sim", dict(types=n4 + ["i32", "u32"], stmts=("let", "set", "cset", "if"), nodes=16, stack=3,
                                   locals_=3, params=3, frames=2, lits=(0, 2), wide=True), "num=4000"))
        P.append(("expr-sim", dict(types=n4 + ["i32"], nodes=12, stack=4, params=3, lits=(0, 1, 2)), "num=4000"))
    return P


def generate(ctx, name, kw, mode, workers):
    """run TLC for one plan; the programs are read lazily from the output file (r.hists())"""
    cfg = gen_cfg(**kw)
    return ctx.tlc(AREA, "ArcGen", "%s.cfg" % name, files={"%s.cfg" % name: cfg}, tag="gen_" + name, workers=workers,
                   simulate=mode, depth=(kw["nodes"] * 2 + 6) if mode else None, timeout=1500, heap="4g")


# ----------------------------------------------------------------------------- verdicts
def analyse(ctx, progs, rows, stats):
    """turn harness rows into reports; returns list of (signature, what, replay, nodes)"""
    by_id = {p["id"]: p for p in progs}
    found = []
    seen_prog = set()
    for r in rows:
        p = by_id[r["id"]]
        kind = r["r"]
        if kind == "panic":
            found.append(("C19 crash: panic in CompileText (%s program)" % p["kind"],
                          "arc.CompileText panicked (%s) on:\n%s" % (r.get("err"), p["src"]), p, r, p.get("nodes", 0)))
            continue
        if kind in ("invalid", "noinst", "nofunc"):
            m = re.search(r"type mismatch: expected (\w+), but was (\w+)", r.get("err") or "")
            # a local declared from a bare literal (`x := 2`) and later given a value of another type is a
            # separate root cause (its type variable is resolved differently for the symbol and for literals
            # compared with it): tag it so that it does not share a signature with the repaired hint leaks
            tag = "; untyped literal local" if re.search(r"^\s*[xyz] := \d+\s*$", p["src"], re.M) else ""
            found.append(("C19 accepted program does not %s%s" % (
                {"invalid": "validate", "noinst": "instantiate", "nofunc": "export f"}[kind],
                " [expected %s, was %s%s]" % (m.group(1), m.group(2), tag) if m else ""),
                          "the analyzer accepted the source but the WASM module does not %s (%s):\n%s" % (
                              {"invalid": "validate", "noinst": "instantiate", "nofunc": "export f"}[kind],
                              r.get("err"), p["src"]), p, r, p.get("nodes", 0)))
            continue
        if kind == "nodiag":
            found.append(("C19 rejected without diagnostics", "source rejected with an empty error:\n" + p["src"], p, r, 0))
            continue
        if kind == "reject":
            stats["rejected_generated"].append((p["src"], r.get("err", "")[:300]))
            continue
        if kind != "mismatch" or r["id"] in seen_prog:
            continue
        seen_prog.add(r["id"])
        raw = int(r["raw"]) if r.get("raw") else None
        r.setdefault("args", [])
        ds = explain(p, r["args"], r["got_o"], raw)
        exp = "runtime error (division/modulo by zero)" if r["exp_o"] == "t" else "%d" % r["exp_v"]
        got = "a trap (%s)" % r.get("err", "") if r["got_o"] == "t" else "%d (register %s)" % (r["got_v"], r.get("raw"))
        call = "f(%s)" % ", ".join(str(a) for a in r["args"])
        if ds is not None:
            name = dev_name(ds)
            sig = "C19 narrow integers not normalised [%s]" % name
            regress = [d for d in ds if d in REPAIRED]
            what = ("%s of\n%s returns %s, the language specification gives %s. The result is reproduced by the "
                    "as-written model with deviation(s) %s (ArcSem.tla header): %s.%s %d of %d argument tuples differ." % (
                        call, p["src"], got, exp, name, "; ".join(DEV_TEXT[d] for d in ("sat", "trunc", "arith") if d in ds),
                        " REGRESSION of the repaired deviation(s) %s." % "+".join(regress) if regress else "",
                        r.get("nbad", 1), len(p["args"])))
        else:
            feats = sorted(features(p))
            sig = "C19 unexpected result [%s]" % " ".join(feats)
            what = ("%s of\n%s returns %s, the language specification gives %s; no as-written model explains it. "
                    "%d of %d argument tuples differ." % (call, p["src"], got, exp, r.get("nbad", 1), len(p["args"])))
        found.append((sig, what, p, r, p.get("nodes", 0)))
    return found


DEV_TEXT = {
    "arith": 'spec.md "Integer overflow uses two\'s-complement wrapping": the result of + - * unary- on an '
             "i8/u8/i16/u16 value is left un-wrapped in the 32-bit register, and the following / % comparison, "
             "widening cast or boolean test reads the un-wrapped value",
    "sat": 'spec.md "Signed <-> Unsigned saturates at bounds": a cast between a signed and an unsigned type of the '
           "same width is compiled to nothing",
    "trunc": 'spec.md "Narrowing (e.g., i8(i64_val)) truncates": a narrowing cast between types carried in a 32-bit '
             "register is compiled to nothing, so the high bits survive into a following / % comparison or widening",
}


def cross_check(progs):
    """TLC's outcome vs. the independent register model with no deviation, every decided case"""
    n = 0
    for p in progs:
        if p["kind"] != "sem":
            continue
        for a, o, v in zip(p["args"], p["o"], p["v"]):
            if o == "x":
                continue
            mo, reg = model(p, a)
            n += 1
            if mo != o or (o == "v" and decode(p["ret"], reg) != v):
                raise vlib.Inconclusive(
                    "oracle drift: ArcSem.tla gives %s %s but the independent model gives %s %s for f(%s) of\n%s" % (
                        o, v, mo, None if reg is None else decode(p["ret"], reg), a, p["src"]))
    return n


def run(ctx):
    thorough = ctx.tier == "thorough"
    rnd = random.Random(ctx.seed)
    pl = plans(ctx.tier, ctx.seed)
    ctx.spec_copy(AREA)
    results = {}

    def one(item):
        name, kw, mode = item
        results[name] = generate(ctx, name, kw, mode, 2 if not thorough else 3)

    # three generator runs at a time (JVM start-up dominates the small ones)
    from concurrent.futures import ThreadPoolExecutor
    with ThreadPoolExecutor(max_workers=3) as ex:
        list(ex.map(one, pl))

    seen = set()
    gens = []
    states = trans = 0
    total = {"programs": 0, "exhaustive": 0, "checked": 0}
    summ = {}
    found = []
    rejected = []
    bad_texts = set()
    fuzz_base = []
    samples = []
    harness_wall = 0.0
    next_id = [0]

    def flush(batch, tag):
        nonlocal harness_wall
        if not batch:
            return
        s1, rows, wall = run_harness(ctx, batch, tag, workers=6)
        harness_wall += wall
        for k, v in s1.items():
            if isinstance(v, int) and k != "summary":
                summ[k] = summ.get(k, 0) + v
        stats = {"rejected_generated": rejected}
        for f in analyse(ctx, batch, rows, stats):
            # keep the record small: everything but the derived variants
            found.append(f)

    batch = []
    nbatch = 0
    for name, kw, mode in pl:
        r = results[name]
        recs = [unwide(x) for x in r.hists()]
        if not recs:
            raise vlib.Inconclusive("generator plan %s produced no program" % name)
        recs.sort(key=lambda x: x["src"])        # TLC's print order depends on worker scheduling
        new = 0
        for rec in recs:
            if rec["src"] in seen:
                continue
            seen.add(rec["src"])
            rec["id"] = next_id[0]
            next_id[0] += 1
            rec["kind"] = "sem"
            rec["plan"] = name
            new += 1
            for b in rec.pop("bad", []):
                if b != rec["src"] and (len(bad_texts) < (6000 if not thorough else 60000) or rnd.random() < 0.05):
                    bad_texts.add(b)
            batch.append(rec)
        total["checked"] += cross_check(batch[-new:] if new else [])
        if new:
            fuzz_base += [x["src"] for x in rnd.sample(batch[-new:], min(new, 60 if not thorough else 400))]
            samples.append({"plan": name, "src": batch[-1]["src"], "args": batch[-1]["args"][:3],
                            "o": batch[-1]["o"][:3], "v": batch[-1]["v"][:3]})
        states += r.distinct
        trans += r.generated
        total["programs"] += new
        if not mode:
            total["exhaustive"] += new
        gens.append({"plan": name, "mode": mode or "bfs", "programs": len(recs), "new": new,
                     "distinct_states": r.distinct, "generated_states": r.generated, "wall_s": round(r.wall, 1)})
        if len(batch) >= 60000:
            flush(batch, "b%d" % nbatch)
            nbatch += 1
            batch = []
    flush(batch, "b%d" % nbatch)
    # no-crash inputs: ill-typed variants printed by TLC + seeded token-level mutations
    bad_list = sorted(bad_texts - seen)
    rnd.shuffle(bad_list)
    bad_list = bad_list[:4000 if not thorough else 40000]
    fuzz = []
    for src in fuzz_base:
        fuzz += token_mutants(src, rnd, 3)
    nocrash = [{"id": next_id[0] + i, "kind": "nocrash", "src": t, "nodes": 0} for i, t in enumerate(bad_list + fuzz)]
    flush(nocrash, "nocrash")
    if rejected:
        src, err = rejected[0]
        raise vlib.Inconclusive("generator drift: %d generated program(s) of the fragment were rejected by the real "
                                "front end, e.g.\n%s\n%s" % (len(rejected), src, err))
    # one report per signature, smallest program first; every reported program is re-run from scratch
    found.sort(key=lambda x: (x[4], len(x[2]["src"])))
    first = {}
    for sig, what, p, r, n in found:
        first.setdefault(sig, (what, p, r))
    unexpected = [x for x in first if x.startswith("C19 unexpected")]
    rest = sorted((x for x in first if not x.startswith("C19 unexpected")),
                  key=lambda x: ("not normalised" in x, x.count("+"), x))
    keep = unexpected[:5] + rest            # vlib reports at most 8 unknown signatures per run
    if keep:
        again = [first[x][1] for x in keep]
        summ2, rows2, _ = run_harness(ctx, again, "repro", workers=2)
        bad_ids = {r["id"] for r in rows2}
        for x in keep:
            what, p, r = first[x]
            if p["id"] not in bad_ids:
                raise vlib.Inconclusive("finding did not reproduce on a re-run: %s" % x)
            ctx.report(x, what, {"program": {k: p[k] for k in p if k not in ("bad",)}, "row": r,
                                 "cmd": "python3 tools/verif.py replay C19 <this file>"})
    by_sig = {}
    for sig, _, _, _, _ in found:
        k = sig if "not normalised" in sig else sig.split("[")[0].strip()
        by_sig[k] = by_sig.get(k, 0) + 1
    cov = {
        "states": states, "transitions": trans,
        "traces_validated_against_impl": summ.get("accepted", 0),
        "programs_generated": total["programs"], "programs_bounded_exhaustive": total["exhaustive"],
        "cases_run": summ.get("cases", 0), "cases_value": summ.get("values", 0), "cases_trap": summ.get("traps", 0),
        "cases_undecided_by_language_spec": summ.get("undecided", 0),
        "oracle_cross_checked_cases": total["checked"],
        "nocrash_inputs": summ.get("nocrash", 0), "nocrash_rejected_with_diagnostics": summ.get("nocrash_rejected", 0),
        "nocrash_accepted": summ.get("nocrash_accepted", 0),
        "panics": summ.get("panics", 0),
        "programs_with_mismatch": summ.get("mismatch_programs", 0), "mismatch_classes": by_sig,
        "generator_runs": gens, "samples": samples[:3], "exhaustive": False,
        "harness_wall_s": round(harness_wall, 1),
        "rule": "every program ArcGen.tla builds with the token budgets listed in generator_runs (breadth-first = all of "
                "them, simulate = seeded sample), on all boundary argument tuples; result compared on the low Bits(ret) "
                "bits, traps compared as an outcome class",
    }
    return ctx.finish("model_checking", cov, [
        "TLC/SANY 1.8.0; wazero interpreter as the WASM semantics; ArcSem.tla is my reading of arc/docs/spec.md",
        "fragment only: i64/u64/f32/f64 arithmetic, `^` and other host math, stateful variables, series, strings, "
        "channels, function calls and loops are NOT decided",
        "narrow arguments are passed sign/zero-extended, the result is read on its low bits (as arc's own runtime does)",
    ])


def replay(ctx, path):
    with open(path) as f:
        obj = json.load(f)
    p = obj["program"]
    p["id"] = 0
    summ, rows, _ = run_harness(ctx, [p], "replay", workers=1)
    if rows:
        print("VIOLATION property=C19 replay=%s" % path)
        print("  " + json.dumps(rows[0]))
        return 1
    print("replay: program passes on the current tree")
    return 0


def selftest(ctx):
    """Binding self-test: (a) on a small exhaustive plan the harness must flag exactly the programs whose expected
    value was perturbed; (b) the register model without deviation agrees with TLC; (c) with the [arith] deviation it
    reproduces the real compiler's register for `a8 + b8 < i8(0)` at (127, 1)."""
    r = generate(ctx, "st", dict(types=["i8"], ops=["+", "<"], unary=("neg",), nodes=5, stack=2, lits=(2,), litmax=False), None, 2)
    progs = sorted((unwide(x) for x in r.hists()), key=lambda x: x["src"])
    for i, p in enumerate(progs):
        p["id"], p["kind"] = i, "sem"
        p.pop("bad", None)
    n = cross_check(progs)
    flipped = set()
    for p in progs[::7]:
        for k, o in enumerate(p["o"]):
            if o == "v":
                p["v"][k] += 1
                flipped.add(p["id"])
                break
    summ, rows, _ = run_harness(ctx, progs, "selftest", workers=2)
    flagged = {x["id"] for x in rows if x["r"] == "mismatch"}
    genuine = {x["id"] for x in rows if x["r"] == "mismatch" and x["id"] not in flipped}
    for x in rows:
        if x["id"] in genuine:
            p = progs[x["id"]]
            if explain(p, x.get("args", []), x["got_o"], int(x["raw"]) if x.get("raw") else None) is None:
                print("selftest: unexplained genuine mismatch on %s" % p["src"])
                return 1
    demo = {"pn": ["a8", "b8"], "pt": ["i8", "i8"], "body": [{"k": "ret", "e": {
        "k": "bin", "op": "<", "t": "u8",
        "l": {"k": "bin", "op": "+", "t": "i8", "l": {"k": "par", "t": "i8", "n": "a8"}, "r": {"k": "par", "t": "i8", "n": "b8"}},
        "r": {"k": "lit", "t": "i8", "v": 0}}}]}
    ok = flipped <= flagged and model(demo, [127, 1]) == ("v", 1) and model(demo, [127, 1], frozenset(["arith"])) == ("v", 0)
    print("selftest: %d programs, %d cases cross-checked, %d perturbed -> %d flagged (all perturbed flagged: %s), "
          "model spec/as-written on a8+b8<0 at (127,1): %s/%s" % (
              len(progs), n, len(flipped), len(flagged & flipped), flipped <= flagged,
              model(demo, [127, 1]), model(demo, [127, 1], frozenset(["arith"]))))
    return 0 if ok else 1
