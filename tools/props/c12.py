"""C12 - membership gossip only moves views forward and converges (DESIGN.md section 3, C12).

Design check: Gossip.tla (message-granular sync/ack/ack2) with TLC.
Binding: GossipGen.tla behaviours (atomic exchanges and message-level interleavings of
overlapping exchanges) replayed into real store.Store + gossip.Gossip instances over a
gate transport; the Restart action is additionally bound to the real cluster.Open.
Verdicts come from assertions on the real stores that restate C12 (monotone, stale,
supersede, converge); exact views / messages compared with the spec are drift.
"""
import json
import os

import vlib

AREA = "gossip"
MOD = "aspen"
PKG = "./internal/cluster/gossip"
HARNESS = "zz_verif_gossip_test.go"
INVS = "TypeOK NoFuture SameHBSameRecord"
PROPS = "Monotone NoStaleOverwrite RestartSupersedes"
ALL_TOPOS = ("hub", "self", "full", "out", "skew")
W = 8  # TLC workers (machine is shared)


def nodes(n):
    return "{%s}" % ", ".join('"n%d"' % (i + 1) for i in range(n))


def topos(ts):
    return "{%s}" % ", ".join('"%s"' % t for t in ts)


def consts(n, ver, gen, st, msgs, ts, window=True):
    return """CONSTANTS
  Node = %s
  MaxVer = %d
  MaxGen = %d
  MaxState = %d
  MaxMsgs = %d
  Topos = %s
  ZeroDigestWindow = %s
""" % (nodes(n), ver, gen, st, msgs, topos(ts), "TRUE" if window else "FALSE")


def mc_cfg(n, ver, gen, st, msgs, ts, window=True, conv="ConvergedAfterAllPairsMasked", props=True):
    return "SPECIFICATION Spec\n" + consts(n, ver, gen, st, msgs, ts, window) + \
        "INVARIANTS %s %s\n" % (INVS, conv) + \
        ("PROPERTIES %s\n" % PROPS if props else "") + "CHECK_DEADLOCK FALSE\n"


def gen_cfg(n, ver, gen, st, msgs, ts, depth, atomic, once=False, sends=0, nodrop=False, changes=99):
    return "SPECIFICATION GSpec\n" + consts(n, ver, gen, st, msgs, ts) + \
        "  Depth = %d\n  Atomic = %s\n  Once = %s\n  MaxSends = %d\n  NoDrop = %s\n  MaxChanges = %d\n" \
        "INVARIANTS Emit\nCHECK_DEADLOCK FALSE\n" % (
            depth, "TRUE" if atomic else "FALSE", "TRUE" if once else "FALSE", sends,
            "TRUE" if nodrop else "FALSE", changes)


def write_hists(res, path, keep=None, seed=1):
    """Stream HIST lines of a TLC run into an ndjson file. keep: optional sampling
    probability numerator/denominator (k, m): keep history i iff hash says so."""
    import random
    rnd = random.Random(seed)
    n = tot = 0
    samples = []
    with open(path, "w") as f:
        for ln in res.lines():
            if not ln.startswith('<<"HIST", '):
                continue
            tot += 1
            if keep is not None and rnd.random() >= keep:
                continue
            body = ln[len('<<"HIST", '):]
            if body.endswith(">>"):
                body = body[:-2]
            try:
                s = json.loads(body)
            except Exception:
                continue
            f.write(s + "\n")
            if n < 1:
                samples.append(json.loads(s))
            n += 1
    return n, tot, samples


def replay_file(ctx, path, tag, workers=None, base=None):
    """base: force the version concretisation (abstract version v > 0 of generation 0 ->
    base + v); default: seeded per history among {0, 65534, 65535, 2^31}."""
    out = ctx.path("out_%s.ndjson" % tag)
    env = {"VERIF_IN": path, "VERIF_OUT": out}
    if base is not None:
        env["VERIF_BASE"] = base
    if workers:
        env["VERIF_WORKERS"] = workers
    rc, text, wall = ctx.go_test(MOD, PKG, [HARNESS], "^TestVerifGossipReplay$", env=env, tag=tag,
                                 timeout=2400)
    rows = ctx.read_ndjson(out)
    if rc != 0 or not rows or not rows[0].get("summary"):
        raise vlib.Inconclusive("gossip replay harness failed rc=%s:\n%s" % (rc, text[-2000:]))
    return rows[0], rows[1:], wall


def line_of(path, idx):
    with open(path) as f:
        for i, ln in enumerate(f):
            if i == idx:
                return json.loads(ln)
    return None


def short(hist):
    """Human-readable one-line rendering of a history."""
    parts = []
    for st in hist:
        a = st["a"]
        if a == "init":
            parts.append("init " + json.dumps(st["st"], separators=(",", ":"), sort_keys=True))
        elif a in ("tick", "restart"):
            parts.append("%s(%s)" % (a, st["i"]))
        elif a == "state":
            parts.append("state(%s,%s)" % (st["i"], st["s"]))
        else:
            parts.append("%s(%s->%s)" % (a, st["i"], st["j"]))
    return " ; ".join(parts)


class Acc:
    def __init__(self):
        self.total = 0
        self.stats = {}
        self.bad = []       # (path, row)
        self.samples = []
        self.sets = []
        self.states = 0
        self.trans = 0
        self.design = []
        self.exhaustive = True


def gen_and_replay(ctx, acc, name, cfg, simulate=None, depth=None, keep=None, timeout=1500):
    r = ctx.tlc(AREA, "GossipGen", name + ".cfg", files={name + ".cfg": cfg}, tag="gen_" + name,
                workers=W, simulate=simulate, depth=depth, timeout=timeout)
    hp = ctx.path(name + ".ndjson")
    n, tot, smp = write_hists(r, hp, keep=keep, seed=ctx.seed)
    try:
        os.remove(r.out_path)
    except OSError:
        pass
    if n == 0:
        raise vlib.Inconclusive("no histories generated for " + name)
    summ, bad, wall = replay_file(ctx, hp, "rp_" + name)
    if summ["replayed"] != n:
        raise vlib.Inconclusive("replayed %s of %s histories (%s)" % (summ["replayed"], n, name))
    acc.total += n
    for k, v in summ["stats"].items():
        acc.stats[k] = acc.stats.get(k, 0) + v
    acc.bad += [(hp, b) for b in bad]
    acc.samples += [short(s) for s in smp[:1]]
    exhaustive = simulate is None and keep is None
    print("[C12] replayed %s: %d histories (tlc %.0fs, replay %.0fs, %d flagged)" % (name, n, r.wall, wall, len(bad)), flush=True)
    acc.sets.append({"set": name, "histories": n, "generated": tot, "exhaustive": exhaustive,
                     "tlc_s": round(r.wall, 1), "replay_s": round(wall, 1), "bad": len(bad)})
    if not exhaustive:
        acc.exhaustive = False
    return n


def design(ctx, acc, name, cfg, expect=None, timeout=1500, count=True, coverage=False):
    r = ctx.tlc(AREA, "Gossip", name + ".cfg", files={name + ".cfg": cfg}, tag="mc_" + name,
                workers=W, timeout=timeout, expect_violation=expect is not None, coverage=coverage)
    if coverage:
        # vacuity guard: every action of the specification fired
        acts = {}
        import re
        src = open(os.path.join(vlib.VERIF, "spec", AREA, "Gossip.tla")).read().split("\n")
        for ln in r.lines():
            m = re.match(r"^<(\w+) line \d+, col \d+ to line \d+, col \d+ of module Gossip"
                         r"(?: \((\d+) (\d+) (\d+) (\d+)\))?>: (\d+):(\d+)", ln)
            if not m:
                continue
            act = m.group(1)
            if m.group(2):
                # a disjunct of Next quantified over the message set: name it by its source text
                l, c1, c2 = int(m.group(2)), int(m.group(3)), int(m.group(5))
                mm = re.search(r"(\w+)\(m\)", src[l - 1][c1 - 1:c2])
                act = mm.group(1) if mm else act
            acts[act] = acts.get(act, 0) + int(m.group(7))
        need = ["Tick", "Restart", "StateChange", "SendSync", "HandleSync", "HandleAck", "HandleAck2", "Drop"]
        dead = [a for a in need if not acts.get(a)]
        acc.action_counts = acts
        if dead:
            raise vlib.Inconclusive("vacuous design run %s: actions never fired: %s" % (name, dead))
    rec = {"cfg": name, "distinct": r.distinct, "generated": r.generated, "violated": r.violated,
           "wall_s": round(r.wall, 1)}
    if expect is not None:
        rec["expected_violation"] = expect
        if r.violated != expect:
            raise vlib.Inconclusive("design config %s: expected %s to be violated, got %s" % (
                name, expect, r.violated))
    elif r.violated:
        # a design-level counterexample is not a verdict about the code; the replay decides
        ctx.notes.append("design: %s violated in %s" % (r.violated, name))
    if count and expect is None:
        acc.states += r.distinct
        acc.trans += r.generated
    acc.design.append(rec)
    print("[C12] design %s: %d distinct / %d generated, %.0fs, violated=%s" % (name, r.distinct, r.generated, r.wall, r.violated), flush=True)
    return r


def restart_binding(ctx):
    """Restart action bound to the real cluster.Open (restart branch)."""
    out = ctx.path("out_restart.ndjson")
    rc, text, wall = ctx.go_test(MOD, "./internal/cluster", ["zz_verif_restart_test.go"],
                                 "^TestVerifClusterRestart$", env={"VERIF_OUT": out}, tag="restart",
                                 timeout=150)
    rows = ctx.read_ndjson(out)
    if rc != 0 or not rows:
        raise vlib.Inconclusive("cluster restart harness failed rc=%s:\n%s" % (rc, text[-2000:]))
    drift = []
    for r in rows:
        if r.get("err"):
            raise vlib.Inconclusive("cluster restart harness: " + r["err"])
        hb = lambda d: (d["g"], d["v"])  # noqa: E731
        per, prv, rst, own, peer, pb = (hb(r[k]) for k in
                                        ("persisted", "prev_run", "restarted", "own_after", "peer_after", "peer_before"))
        if pb != prv or prv <= per:
            # the scenario needs plain propagation to work first; judged by the replay sets
            drift.append("restart scenario not set up (peer_before=%s prev_run=%s persisted=%s)" % (pb, prv, per))
            continue
        # C12 clause 3, on the real cluster: everything of the new run supersedes the
        # previous run - the new run's own record survives an exchange with a peer holding
        # the previous run's (further versioned) record, and the peer adopts it.
        if not (rst > prv) and (own != (rst[0], rst[1] + 1) or peer != own or not r["peer_knows"]):
            ctx.report("C12 restart new-run-record-overridden-by-previous-run",
                       "cluster.Open on persisted state %s restarted as %s although the previous run had reached %s; "
                       "after one GossipOnce the node's own record is %s and the peer holds %s (previous run wins)" % (
                           per, rst, prv, own, peer),
                       {"scenario": r, "cmd": "python3 tools/verif.py check C12"})
            continue
        if own != (rst[0], rst[1] + 1) or peer != own or not r["peer_knows"]:
            ctx.report("C12 restart new-generation-not-adopted",
                       "restarted as %s (previous run %s); after one GossipOnce own record %s, peer holds %s" % (
                           rst, prv, own, peer), {"scenario": r})
            continue
        if rst != (per[0] + 1, 0):
            drift.append("Restart: spec says (gen+1, 0) = %s, cluster.Open gave %s" % ((per[0] + 1, 0), rst))
    return rows, drift


def process_bad(ctx, acc):
    """violation rows -> reproduce once from scratch -> ctx.report; drift rows collected."""
    drift = []
    seen = {}
    for hp, b in acc.bad:
        if b["r"] == "inconclusive":
            raise vlib.Inconclusive("harness inconclusive: %s" % b)
        if b["r"] == "drift":
            drift.append((hp, b))
            continue
        sig = b.get("sig") or ("C12 " + b.get("kind", "?"))
        seen.setdefault(sig, []).append((hp, b))
    for sig, items in sorted(seen.items()):
        # shortest history first: minimal reproduction
        hp, b = min(items, key=lambda it: (it[1]["step"], it[1]["i"]))
        hist = line_of(hp, b["i"])
        one = ctx.path("one.ndjson")
        with open(one, "w") as f:
            f.write(json.dumps(hist) + "\n")
        summ, bad, _ = replay_file(ctx, one, "repro", workers=1, base=b.get("base", 0))
        if not bad or bad[0]["r"] != "violation" or (bad[0].get("sig") or "") != (b.get("sig") or ""):
            raise vlib.Inconclusive("violation did not reproduce: %s" % b)
        cut = hist[:b["step"] + 1] if b["step"] >= 0 else hist
        what = "gossip %s at step %d of [%s] (generation-0 versions v>0 concretised as %d+v): expected %s; " \
               "real stores (abstract): %s (%d histories)" % (
                   b.get("kind"), b["step"], short(cut), b.get("base", 0), b.get("exp"), b.get("act"), len(items))
        obj = {"history": hist, "mismatch": b, "count": len(items),
               "cmd": "python3 tools/verif.py replay C12 <this file>"}
        if ctx.report(sig, what, obj) == "known" and not ctx.replay_path and not ctx.selftest:
            # keep the minimal reproduction of the known finding next to the violations
            ctx.save_replay(dict(obj, signature=sig, what=what, property=ctx.pid),
                            name="known-%s.json" % sig.replace("C12 ", "").replace(" ", "-"))
    return drift


def run(ctx):
    thorough = ctx.tier == "thorough"
    acc = Acc()
    # ------------------------------------------------------------ 1. design level (TLC)
    # quick: the coverage (vacuity) guard rides on n2_full; thorough: on its own small config
    design(ctx, acc, "n2_full", mc_cfg(2, 2 if thorough else 1, 1, 1, 2, ALL_TOPOS), coverage=not thorough)
    design(ctx, acc, "n3_seq", mc_cfg(3, 1, 1 if thorough else 0, 0, 1, ("hub",) if thorough else ("hub", "self")))
    design(ctx, acc, "n3_overlap", mc_cfg(3, 0, 0, 0, 2, ("hub", "self")))
    if thorough:
        design(ctx, acc, "n2_coverage", mc_cfg(2, 1, 1, 1, 2, ("hub", "skew")), coverage=True, count=False)
    if thorough:
        design(ctx, acc, "n3_overlap_restart", mc_cfg(3, 0, 1, 0, 2, ("hub",)))
        design(ctx, acc, "n3_overlap_tick", mc_cfg(3, 1, 0, 0, 2, ("hub", "skew")))
        design(ctx, acc, "n4_seq", mc_cfg(4, 0, 0, 0, 1, ("hub", "self")))
    # the as-is design violates the unmasked convergence clause exactly in the named window
    design(ctx, acc, "asis_unmasked", mc_cfg(2, 1, 0, 0, 1, ("out", "hub"), conv="ConvergedAfterAllPairs", props=False),
           expect="ConvergedAfterAllPairs")
    # with the window closed (minimal fix) the unmasked clause holds: no other window
    design(ctx, acc, "fixed_unmasked", mc_cfg(2, 1, 1, 1 if thorough else 0, 2, ALL_TOPOS, window=False, conv="ConvergedAfterAllPairs"),
           count=False)
    if thorough:
        design(ctx, acc, "fixed_unmasked_n3", mc_cfg(3, 1, 0, 0, 1, ("hub", "self"), window=False,
                                                     conv="ConvergedAfterAllPairs"), count=False)
    # vacuity: all-pairs after a restart with a changed state is reachable
    design(ctx, acc, "vacuity", mc_cfg(2, 1, 1, 1, 2, ("hub",), conv="NeverAllPairsAfterRestart", props=False),
           expect="NeverAllPairsAfterRestart")

    # ------------------------------------------------------------ 2. replay into real code
    if not thorough:
        gen_and_replay(ctx, acc, "atomic_n3_d4", gen_cfg(3, 1, 1, 1, 1, ("hub", "skew"), 5, True))
        gen_and_replay(ctx, acc, "atomic_n2_d6", gen_cfg(2, 1, 1, 1, 1, ("out",), 7, True))
        # 4 nodes, partially overlapping knowledge: every order and direction of one whole
        # exchange per pair (6 exchanges) - each history ends with the convergence assertion
        gen_and_replay(ctx, acc, "atomic_n4_allpairs", gen_cfg(4, 1, 0, 0, 1, ("chain", "part"), 7, True, once=True, changes=0))
        # member STATE: one change of any kind - incl. the owner turning Suspect / Dead / Left
        # (MaxState = 3 = node.StateLeft) with a newer heartbeat than the copies held elsewhere -
        # followed by every order and direction of one whole exchange per pair; the convergence
        # oracle compares heartbeat AND state of every member in every store
        gen_and_replay(ctx, acc, "atomic_n3_states", gen_cfg(3, 3, 0, 3, 1, ("lag", "skew"), 5, True, once=True, changes=1))
        gen_and_replay(ctx, acc, "atomic_n2_states",
                       gen_cfg(2, 3, 1, 3, 1, ("full", "lag", "out", "skew"), 5, True, once=True, changes=2))
        gen_and_replay(ctx, acc, "msg_n3_d5", gen_cfg(3, 1, 1, 1, 2, ("skew",), 6, False))
        gen_and_replay(ctx, acc, "msg_n3_d5_hub", gen_cfg(3, 1, 0, 0, 2, ("hub",), 6, False))
        gen_and_replay(ctx, acc, "msg_n2_d8", gen_cfg(2, 1, 0, 0, 2, ("skew", "out"), 9, False))
        # ALL interleavings of the messages of two exchanges (any initiators / peers, with
        # drops) over "lag" knowledge (a record asked from one node is held newer by a third):
        # a whole exchange lands between another's sync and ack, or ack and ack2, at one node
        gen_and_replay(ctx, acc, "msg_n3_2x_lag", gen_cfg(3, 2, 0, 0, 2, ("lag",), 9, False, sends=2, changes=0))
        # the same with one restart anywhere (newer = new generation, smaller version)
        gen_and_replay(ctx, acc, "msg_n3_2x_lag_restart",
                       gen_cfg(3, 2, 1, 0, 2, ("lag",), 10, False, sends=2, nodrop=True, changes=1))
        gen_and_replay(ctx, acc, "msg_n2_2x_lag_chg1",
                       gen_cfg(2, 3, 1, 1, 2, ("lag",), 10, False, sends=2, nodrop=True, changes=1))
    else:
        gen_and_replay(ctx, acc, "atomic_n3_d4", gen_cfg(3, 1, 1, 1, 1, ALL_TOPOS, 5, True))
        gen_and_replay(ctx, acc, "atomic_n3_d5", gen_cfg(3, 1, 1, 0, 1, ("hub", "skew"), 6, True), keep=0.5)
        gen_and_replay(ctx, acc, "atomic_n2_d6", gen_cfg(2, 1, 1, 1, 1, ALL_TOPOS, 7, True))
        gen_and_replay(ctx, acc, "atomic_n4_allpairs", gen_cfg(4, 1, 0, 0, 1, ("chain", "part"), 7, True, once=True, changes=0))
        gen_and_replay(ctx, acc, "atomic_n3_states", gen_cfg(3, 3, 0, 3, 1, ("lag", "skew"), 6, True, once=True, changes=1))
        gen_and_replay(ctx, acc, "atomic_n2_states",
                       gen_cfg(2, 3, 1, 3, 1, ("full", "lag", "out", "skew"), 5, True, once=True, changes=2))
        gen_and_replay(ctx, acc, "msg_n3_d6", gen_cfg(3, 1, 1, 1, 2, ("skew",), 7, False))
        gen_and_replay(ctx, acc, "msg_n3_d6_hub", gen_cfg(3, 1, 0, 0, 2, ("hub",), 7, False), keep=0.5)
        gen_and_replay(ctx, acc, "msg_n2_d9", gen_cfg(2, 1, 0, 0, 2, ("skew", "out"), 10, False), keep=0.5)
        gen_and_replay(ctx, acc, "msg_n3_d8_msgonly", gen_cfg(3, 1, 0, 0, 2, ("skew",), 9, False), keep=0.2)
        # all interleavings of two exchanges (with drops), of two exchanges plus one change of
        # any kind, and (sampled) of three exchanges, over "lag" knowledge
        gen_and_replay(ctx, acc, "msg_n3_2x_lag", gen_cfg(3, 2, 0, 0, 2, ("lag",), 9, False, sends=2, changes=0))
        gen_and_replay(ctx, acc, "msg_n3_2x_lag_chg1",
                       gen_cfg(3, 3, 1, 1, 2, ("lag",), 10, False, sends=2, nodrop=True, changes=1))
        gen_and_replay(ctx, acc, "msg_n2_2x_lag_chg1",
                       gen_cfg(2, 3, 1, 1, 2, ("lag",), 10, False, sends=2, nodrop=True, changes=1))
        gen_and_replay(ctx, acc, "msg_n3_3x_lag",
                       gen_cfg(3, 2, 0, 0, 3, ("lag",), 13, False, sends=3, nodrop=True, changes=0), keep=0.3)
        # deeper / wider by simulation (num is per TLC worker; TLC evaluates Emit on every
        # candidate successor, so each trace yields all its depth-Depth continuations)
        gen_and_replay(ctx, acc, "sim_atomic_n4_d12", gen_cfg(4, 2, 1, 1, 1, ALL_TOPOS, 13, True),
                       simulate="num=400", depth=14)
        gen_and_replay(ctx, acc, "sim_msg_n3_d14", gen_cfg(3, 2, 1, 1, 2, ALL_TOPOS, 15, False),
                       simulate="num=400", depth=16)
        gen_and_replay(ctx, acc, "sim_msg_n4_d16", gen_cfg(4, 1, 1, 1, 2, ("hub", "skew", "self"), 17, False),
                       simulate="num=300", depth=18)

    # ------------------------------------------------------------ 3. Restart bound to cluster.Open
    restart_rows, restart_drift, restart_dead = [], [], None
    try:
        restart_rows, restart_drift = restart_binding(ctx)
    except vlib.Inconclusive as e:
        # e.g. a join that never completes; the replay verdicts below still count
        restart_dead = str(e)

    # ------------------------------------------------------------ 4. verdicts
    drift = process_bad(ctx, acc)
    st = acc.stats
    cov = {
        "states": acc.states, "transitions": acc.trans,
        "traces_validated_against_impl": acc.total,
        "samples": acc.samples[:3],
        "exhaustive": acc.exhaustive,
        "design_runs": acc.design,
        "tlc_action_counts": getattr(acc, "action_counts", {}),
        "replay_sets": acc.sets,
        "mechanisms": st,
        "restart_binding": restart_rows,
        "rule": "every behaviour of GossipGen within the listed bounds (atomic = whole GossipOnceWith exchanges, "
                "ticks, owner state changes, restarts; msg = send/sync/ack/ack2/drop steps of up to two overlapping "
                "exchanges released through a gate transport) replayed into real store.Store + gossip.Gossip; "
                "after every step monotonicity, no-stale-overwrite, generation supersession and convergence "
                "after all pairs are asserted on the real stores and views/messages compared with the spec",
        "notes": ctx.notes,
    }
    assumptions = [
        "TLC/SANY; Go toolchain; harness gate transport (unary request/response) instead of freighter transports",
        "heartbeat versions are concretised per history (seeded): generation-0 versions v>0 as base+v with base in "
        "{0, 65534, 65535, 2^31}; later generations start again at 0 (Heartbeat.Restart)",
        "sequences only: steps inside one node are atomic (store.Merge/SetNode are copy-modify-set; concurrent "
        "handler/tick races inside one node are outside C12's quantifier)",
        "owner state changes bump the owner's heartbeat version (heartbeat.go contract); no production code "
        "changes a member state without it",
        "Restart keeps the persisted view; the gossip-package harness re-enacts cluster.Open's restart branch, "
        "the cluster-package harness runs the real cluster.Open",
    ]
    unknown = bool(ctx.violations)
    if not unknown:
        # vacuity guards: the mechanisms the property talks about were exercised
        need = ["Exchanges", "Ack2", "NoAck2", "Overlaps", "Drops", "Restarts", "Ticks", "States",
                "ConvChecks", "ConvHeld", "Superseded", "BigVer", "StatesLeft"]
        missing = [k for k in need if not st.get(k)]
        if missing:
            ctx.finish("model_checking", cov, assumptions)
            raise vlib.Inconclusive("vacuous replay: never exercised %s" % missing)
        if restart_dead:
            ctx.finish("model_checking", cov, assumptions)
            raise vlib.Inconclusive(restart_dead)
        if drift or restart_drift:
            ctx.finish("model_checking", cov, assumptions)
            d = drift[0][1] if drift else restart_drift[0]
            raise vlib.Inconclusive("DRIFT: real gossip differs from Gossip.tla in something C12 does not state "
                                    "(%d histories), first: %s" % (len(drift), json.dumps(d)))
    return ctx.finish("model_checking", cov, assumptions)


def replay(ctx, path):
    with open(path) as f:
        obj = json.load(f)
    one = ctx.path("one.ndjson")
    with open(one, "w") as f:
        f.write(json.dumps(obj["history"]) + "\n")
    summ, bad, _ = replay_file(ctx, one, "replay", workers=1, base=obj.get("mismatch", {}).get("base", 0))
    if bad and bad[0]["r"] == "violation":
        import re
        for k in ctx._known:
            if k.get("status") == "known" and re.search(k["signature"], bad[0].get("sig") or ""):
                print("KNOWN-FINDING: property=C12 %s [%s]" % (k["what"], k["id"]))
                print("  " + json.dumps(bad[0]))
                return 0
        print("VIOLATION property=C12 replay=%s" % path)
        print("  " + json.dumps(bad[0]))
        return 1
    if bad:
        print("replay: %s" % json.dumps(bad[0]))
        return 2
    print("replay: history passes on the current tree")
    return 0


def selftest(ctx):
    """Binding self-test: corrupting one recorded field / dropping one event of a
    generated behaviour must be rejected by the replay harness."""
    r = ctx.tlc(AREA, "GossipGen", "st.cfg", files={"st.cfg": gen_cfg(2, 1, 0, 0, 2, ("skew",), 6, False)},
                tag="gen_st", workers=2)
    hists = [h for h in r.hists()]
    full = [h for h in hists if [s["a"] for s in h[1:5]] == ["send", "sync", "ack", "ack2"]]
    if not full:
        raise vlib.Inconclusive("selftest: no complete exchange among %d histories" % len(hists))
    base = full[0]
    cases = {"unchanged": (base, "ok")}
    c1 = json.loads(json.dumps(base))
    c1[3]["st"]["n1"]["n2"] = [1, 1, 1]          # ack step: one recorded view entry corrupted
    cases["corrupt_view"] = (c1, "drift")
    c2 = json.loads(json.dumps(base))
    c2[2]["m"]["nodes"] = {}                      # sync step: recorded ack message loses its nodes
    cases["corrupt_msg"] = (c2, "drift")
    c3 = json.loads(json.dumps(base))
    del c3[2]                                     # the sync delivery event is dropped
    cases["drop_event"] = (c3, "drift")
    c4 = json.loads(json.dumps(base))
    c4[4]["conv"] = not c4[4]["conv"]             # ghost flag flipped
    cases["flip_allpairs"] = (c4, "drift")
    okall = True
    for name, (h, want) in cases.items():
        one = ctx.path("st_%s.ndjson" % name)
        with open(one, "w") as f:
            f.write(json.dumps(h) + "\n")
        summ, bad, _ = replay_file(ctx, one, "st_" + name, workers=1, base=65535)
        got = bad[0]["r"] if bad else "ok"
        print("selftest %-14s expected %-5s got %-5s %s" % (name, want, got, (bad[0].get("kind") if bad else "")))
        okall = okall and got == want
    ctx.finish("model_checking", {"selftest": okall})
    return 0 if okall else 2
