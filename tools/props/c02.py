"""C02 - cesium survives a crash at any point (DESIGN.md section 3, C02).
Level: fault_enumeration - every prefix of the file-system mutation sequence of
TLC-generated scripts (plus torn variants of the last write) is reopened and judged."""
import json

import vlib
import _cesium as C


FORCED = [{"persist": 2, "filecap": 17}, {"persist": 2, "filecap": 5}, {"persist": 2, "filecap": 40}, {"persist": 1, "filecap": 17}, {"persist": 0, "filecap": 0}]


def crash_enum(ctx, path, T, tag, conc=None, max_images=0, timeout=2400, forced=None):
    out = ctx.path("out_%s.ndjson" % tag)
    env = {"VERIF_IN": path, "VERIF_OUT": out, "VERIF_MAXT": 2 * T + 1, "VERIF_MAXIMAGES": max_images}
    if forced:
        env["VERIF_CONCS"] = json.dumps(forced)
    if conc is not None:
        env["VERIF_CONC"] = json.dumps(conc)
    rc, text, wall = ctx.go_test("cesium", ".", ["zz_verif_store_test.go", "zz_verif_crash_test.go"],
                                 "^TestVerifCrashEnum$", env=env, tag=tag, timeout=timeout)
    rows = ctx.read_ndjson(out)
    if rc != 0 or not rows or not rows[0].get("summary"):
        raise vlib.Inconclusive("crash harness failed rc=%s:\n%s" % (rc, text[-3000:]))
    return rows[0], rows[1:]


def signature(f):
    """Structural signature: finding kind, the crash windows the image is structurally in
    (decoded from the image by the harness: create-window, torn-index, truncate-window,
    gc-swap, data-ahead), and the operation in progress. Images in no named window carry
    the last mutation instead."""
    kind = f.get("kind", "?")
    img = f.get("image", "")
    op = (f.get("opstr") or "").split(" ")[0]
    tags = f.get("tags") or []
    if tags:
        return "C02 %s [%s] during %s" % (kind, ",".join(tags), op)
    toks = img.split(" ")
    what = toks[0] if toks else "?"
    fname = ""
    if len(toks) > 1:
        fname = toks[1].split("/")[-1]
        stem = fname.split(".")[0]
        if stem.isdigit():
            fname = "N." + fname.split(".", 1)[1] if "." in fname else "<channel dir>"
    return "C02 %s [no named window: crash after %s %s] during %s" % (kind, what, fname, op)


def crash_cfg(torn, tw, gc, cr, ms, mp):
    b = lambda x: "TRUE" if x else "FALSE"
    return """SPECIFICATION Spec
CONSTANTS
  MaxSamples = %d
  MaxPtrs = %d
  TornIndexWrite = %s
  TruncateThenWrite = %s
  GCWindow = %s
  CreateWindow = %s
INVARIANTS TypeOK OpenSucceeds DurableIntact NoGarbage
CHECK_DEADLOCK FALSE
""" % (ms, mp, b(torn), b(tw), b(gc), b(cr))


def design_stage(ctx, thorough):
    """CesiumCrash.tla: masked config must satisfy the crash invariants (no window other
    than the named ones); each named window alone must reproduce its counterexample."""
    ms, mp = (5, 3) if not thorough else (7, 4)
    res = []
    r = ctx.tlc(C.AREA, "CesiumCrash", "cc.cfg", files={"cc.cfg": crash_cfg(0, 0, 0, 0, ms, mp)}, tag="cc_masked",
                workers=6, timeout=1800)
    res.append({"config": "masked", "distinct": r.distinct, "generated": r.generated, "violated": r.violated})
    if r.violated:
        ctx.notes.append("design: masked CesiumCrash config violates %s (an unnamed crash window in the model)" % r.violated)
    states, trans = r.distinct, r.generated
    for name, flags in (("TornIndexWrite", (1, 0, 0, 0)), ("TruncateThenWrite", (0, 1, 0, 0)),
                        ("GCWindow", (0, 0, 1, 0)), ("CreateWindow", (0, 0, 0, 1))):
        r = ctx.tlc(C.AREA, "CesiumCrash", "cc.cfg", files={"cc.cfg": crash_cfg(*flags, 4, 3)}, tag="cc_" + name,
                    workers=4, timeout=600, expect_violation=True)
        res.append({"config": "as-is:" + name, "distinct": r.distinct, "generated": r.generated, "violated": r.violated})
        if not r.violated:
            ctx.notes.append("design: window %s no longer produces a counterexample in CesiumCrash.tla" % name)
    return states, trans, res


def run(ctx):
    thorough = ctx.tier == "thorough"
    states, trans, design = design_stage(ctx, thorough)
    runs = []
    runs.append(("bfs", dict(spec="GSpecBFS", T=2, depth=5, maxlen=2, maxid=3, writers=1, inv="Emit",
                             chansets='{{"I"}, {"I","D","V"}, {"D"}}', deletes=True), None, 1500 if not thorough else 12000))
    runs.append(("sim", dict(spec="GSpecSim", T=4, depth=14, deletes=True), "num=%d" % (8 if not thorough else 100), None))
    # scenario plans, each history under four forced (index persistence, file cap) combinations: interval
    # persistence with rollover is where some commits persist the index and some do not
    for plan in (1, 2, 4, 5):
        runs.append(("plan%d" % plan, dict(spec="GSpecSim", T=4, depth=14, deletes=True, plan=plan),
                     "num=%d" % (3 if not thorough else 40), None))
    # a durable session followed by auto-commit sessions of several commits each
    runs.append(("plan7", dict(spec="GSpecSim", T=4, depth=14, deletes=True, plan=7, maxlen=1, chansets='{{"I","D","V"}}'),
                 "num=%d" % (3 if not thorough else 40), None))
    # a durable late session, then an earlier auto-commit session whose second write runs into it (refused)
    runs.append(("plan8", dict(spec="GSpecSim", T=4, depth=12, deletes=True, plan=8, maxlen=3, chansets='{{"I","D","V"}}'),
                 "num=%d" % (3 if not thorough else 40), None))
    total_hist = total_images = torn = 0
    samples = []
    diverged = 0
    distinct_sigs = set()
    for tag, kw, sim, limit in runs:
        T = kw["T"]
        cfg = C.gen_cfg(**kw)
        if sim:
            r = ctx.tlc(C.AREA, "CesiumStoreGen", "g.cfg", files={"g.cfg": cfg}, simulate=sim, depth=kw["depth"] + 2,
                        workers=6, tag="gen_" + tag, timeout=1500)
        else:
            r = ctx.tlc(C.AREA, "CesiumStoreGen", "g.cfg", files={"g.cfg": cfg}, tag="gen_" + tag, timeout=1500, workers=8)
            states += r.distinct
            trans += r.generated
        hp = ctx.path("h_%s.ndjson" % tag)
        n, smp = C.write_hists(r, hp, limit=limit, seed=ctx.seed)
        if n == 0:
            raise vlib.Inconclusive("no histories generated (%s)" % tag)
        samples += smp[:1]
        summ, bad = crash_enum(ctx, hp, T, "crash_" + tag, forced=FORCED if tag.startswith("plan") else None)
        total_hist += summ["histories"]
        total_images += summ["images"]
        torn += summ["torn_images"]
        expanded = []
        for b in bad:
            if b.get("fs"):
                for f in b["fs"]:
                    expanded.append(dict(b, f=f, fs=None))
            else:
                expanded.append(b)
        for b in expanded:
            f = b.get("f") or {}
            if b["r"] == "inconclusive":
                raise vlib.Inconclusive("crash harness inconclusive: %s" % json.dumps(b)[:400])
            if b["r"] == "diverged":
                diverged += 1
                ctx.notes.append("diverged: %s" % json.dumps(f)[:300])
                continue
            hist = C.load_hist(hp, b["i"])
            sig = signature(f)
            distinct_sigs.add(sig)
            rep = {"history": hist[: max(0, f.get("op", 0)) + 1], "conc": b.get("conc"), "finding": f, "T": T,
                   "script": [{"a": x["a"], "args": x["args"]} for x in hist[: max(0, f.get("op", 0)) + 1]]}
            ctx.report(sig, "crash image '%s' while executing op %s (%s): %s; expected %s; got %s" % (
                f.get("image"), f.get("op"), f.get("opstr"), f.get("kind"), f.get("exp", "-"), f.get("act", "-")), rep)
    if diverged and not ctx.violations:
        raise vlib.Inconclusive("%d scripts diverged from the model's outcome classes" % diverged)
    if total_images < 100:
        raise vlib.Inconclusive("vacuous: only %d crash images" % total_images)
    cov = {
        "evaluations": total_images,
        "distinct_nontrivial": total_images - torn if total_images - torn >= 2 else total_images,
        "rule": "one evaluation = one crash image (the file-system state after a prefix of the mutation sequence of a script, "
                "or a torn variant of the last write) reopened with cesium.Open and read back on every channel; scripts are TLC "
                "behaviours of CesiumStore.tla (writes, commits, deletes, GC, reopen) incl. channel creation; distinct_nontrivial "
                "counts the untorn prefixes (each is a distinct mutation point), torn variants are extra",
        "samples": samples,
        "histories": total_hist, "torn_images": torn,
        "states": states, "transitions": trans,
        "exhaustive": False,
        "signatures_seen": sorted(distinct_sigs),
        "design_runs": design,
        "notes": ctx.notes[:10],
    }
    return ctx.finish("fault_enumeration", cov, [
        "process-crash model: completed file-system calls survive, the last write may be torn to a prefix of its bytes",
        "oracle: reopen succeeds; no bytes never written; data durable by the statement's definition is intact; "
        "other data forms a per-writer-session commit prefix; whether completed deletes persist is not asserted",
    ])


def replay(ctx, path):
    with open(path) as f:
        obj = json.load(f)
    one = ctx.path("one.ndjson")
    with open(one, "w") as f:
        f.write(json.dumps(obj["history"]) + "\n")
    summ, bad = crash_enum(ctx, one, obj.get("T", 4), "replay", conc=obj.get("conc"))
    if bad:
        print("VIOLATION property=C02 replay=%s" % path)
        print("  " + json.dumps(bad[0])[:600])
        return 1
    print("replay: no crash image of this script fails on the current tree")
    return 0
