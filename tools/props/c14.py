"""C14 - freighter streams: ordered, once, definite end, on all transports (DESIGN.md section 3, C14).

1. Stream.tla is model-checked (all clauses of C14 as invariants / action properties / liveness).
2. StreamGen.tla emits interleaved client/handler scripts (bounded-exhaustive + simulation).
3. harness/freighter/go/zz_verif_stream_test.go executes every script on the real mock, WebSocket
   and gRPC transports (two goroutines gated by the script) and records call/return traces.
4. StreamTrace.tla (TLC) decides whether each recorded trace is a behaviour of Stream.tla.
   A rejected trace is re-executed from scratch; only a reproduced rejection is reported.
"""
import json
import re
import os
import random
import shutil
from concurrent.futures import ThreadPoolExecutor

import vlib

AREA = "stream"
HARNESS = ["zz_verif_stream_test.go"]

# handler error variant -> class the client must observe (harness vMkErr / vClass)
KIND_CLASS = {
    "nil": "nil", "eof": "eof", "closed": "closed", "custom": "custom", "custom_wrapped": "custom",
    "canceled": "canceled", "deadline": "deadline", "unknown": "unknown", "notfound": "notfound",
    "notfound_sep": "notfound", "unique": "unique", "invalid": "invalid", "query": "query",
    "validation": "validation", "path": "path", "unauthorized": "unauthorized",
}
KINDS = list(KIND_CLASS)
CLASSES = sorted(set(KIND_CLASS.values()))
NREP = 60                     # re-executions of a rejected script (racy defects reproduce rarely)
WS_CLOSE_DEADLINE_MS = 300   # http/stream.go closeReadWriteDeadline is 500 ms: results observed later
                             # than this after the handler's return are transport-failure territory

INVS = "TypeOK PrefixInOrder NoLossBeforeReturn TerminalMatches TerminalStableInv CloseSendSeenAfterRequests ReceiveAfterCloseSend"
ACTS = "TerminalStable TerminalStableRecv TerminalStableSend"


def tla_set(xs):
    return "{" + ", ".join('"%s"' % x for x in xs) + "}"


def mc_cfg(cap, maxmsg, kinds, cnr, live=True, extra_inv=""):
    return """SPECIFICATION Spec
CONSTANTS
  Cap = %d
  MaxMsg = %d
  Kinds = %s
  CloseNeedsRoom = %s
INVARIANTS %s %s
PROPERTIES %s %s
CHECK_DEADLOCK FALSE
""" % (cap, maxmsg, tla_set(kinds), "TRUE" if cnr else "FALSE", INVS, extra_inv, ACTS,
       "ReceiveAfterReturnReturns" if live else "")


def gen_cfg(cap, maxmsg, depth, maxpost=2):
    return """SPECIFICATION GSpec
CONSTANTS
  Cap = %d
  MaxMsg = %d
  Kinds = {"err"}
  CloseNeedsRoom = TRUE
  Depth = %d
  MaxClose = 1
  MaxPost = %d
INVARIANTS Emit
CHECK_DEADLOCK FALSE
""" % (cap, maxmsg, depth, maxpost)


TRACE_CFG = """SPECIFICATION TSpec
CONSTANTS
  Cap = 100000
  MaxMsg = 100000
  Kinds = %s
  CloseNeedsRoom = FALSE
INVARIANTS %s
CONSTRAINT Mark
POSTCONDITION Accepted
CHECK_DEADLOCK FALSE
""" % (tla_set(CLASSES), INVS)   # the action properties are checked on Stream.tla; a reset step is not a Stream step

RESET = {"ev": "reset", "s": "", "op": "", "id": 0, "res": "", "k": ""}


# ------------------------------------------------------------------ scripts -> jobs
def collect_scripts(res):
    seen = set()
    out = []
    for h in res.hists():
        key = json.dumps(h, separators=(",", ":"), sort_keys=True)
        if key in seen:
            continue
        seen.add(key)
        out.append(h)
    return out


def sizes_for(rnd, cap, n, thorough):
    """Payload sizes. Only rendezvous scripts (Cap = 0: every Send overlaps its Receive) may carry
    payloads that exceed what the network transports buffer without a reader."""
    if cap == 0:
        pool = [0, 3, 100, 65536, 65536] + ([2 << 20] if thorough else [])
    else:
        pool = [0, 3, 100, 4096]
    return [rnd.choice(pool) for _ in range(n)]


def make_jobs(scripts, cap, rnd, thorough, maxmsg, transports, start=0, kinds=None):
    jobs = []
    kinds = kinds or KINDS
    k0 = rnd.randrange(len(kinds))
    for n, ev in enumerate(scripts):
        for t, tr in enumerate(transports):
            i = start + len(jobs)
            codec = ""
            mcap = cap
            if tr == "ws":
                codec = "json" if (n + k0) % 2 == 0 else "msgpack"
            if tr == "mock" and rnd.random() < 0.25:
                mcap = cap + rnd.choice([1, 9])   # any capacity >= Cap is legal for the script
            jobs.append({
                "i": i, "tr": tr, "cap": mcap, "codec": codec,
                "kind": kinds[(n + t + k0) % len(kinds)],
                "szc": sizes_for(rnd, cap, maxmsg + 2, thorough),
                "szh": sizes_for(rnd, cap, maxmsg, thorough),
                "ev": ev, "jit": rnd.randrange(1, 1 << 30) if rnd.random() < 0.8 else 0,
                "epi": True, "pause": 0,
            })
    return jobs


def run_jobs(ctx, jobs, tag, workers=None):
    jp = ctx.path("jobs_%s.ndjson" % tag)
    op = ctx.path("out_%s.ndjson" % tag)
    with open(jp, "w") as f:
        for j in jobs:
            f.write(json.dumps(j, separators=(",", ":")) + "\n")
    env = {"VERIF_IN": jp, "VERIF_OUT": op}
    if workers:
        env["VERIF_WORKERS"] = workers
    rc, text, wall = ctx.go_test("freighter/go", "./", HARNESS, "^TestVerifStreamScripts$",
                                 env=env, tag="go_" + tag, timeout=1500)
    rows = ctx.read_ndjson(op)
    if rc != 0 or len(rows) != len(jobs):
        raise vlib.Inconclusive("stream harness failed rc=%s rows=%d/%d:\n%s" % (rc, len(rows), len(jobs), text[-2500:]))
    by = {r["i"]: r for r in rows}
    return by, wall


# ------------------------------------------------------------------ traces
def to_events(job, row, findings):
    """Harness trace -> StreamTrace events. Recovered panics are reported and cut out."""
    cls = KIND_CLASS[job["kind"]]
    evs = []
    term_seen = False
    for t in row["trace"]:
        if job["tr"] == "ws" and t.get("ms", -1) >= WS_CLOSE_DEADLINE_MS:
            # the WebSocket server gives a client 500 ms to acknowledge the closure and then drops
            # the connection: what happens later is transport failure, outside C14's statement
            findings.append({"slow": True, "job": job})
            break
        e = {"ev": t["ev"], "s": t["s"], "op": t["op"], "id": t["id"], "res": t["res"],
             "k": cls if (t["ev"] == "call" and t["op"] == "ret") else "none", "_ms": t.get("ms", -1),
             "_txt": t.get("txt", "")}
        if t["ev"] == "ret" and t["res"].startswith("panic:"):
            what = t["res"][6:]
            after_term = t["s"] == "c" and t["op"] == "recv" and term_seen
            findings.append({"job": job, "panic": what, "side": t["s"], "op": t["op"],
                             "after_terminal": after_term, "at": len(evs)})
            # drop the call event of this op
            for k in range(len(evs) - 1, -1, -1):
                if evs[k]["ev"] == "call" and evs[k]["s"] == t["s"]:
                    del evs[k]
                    break
            if after_term:
                continue        # a Receive after the terminal has no effect in the spec: cut out, go on
            break               # any other panic: validate the prefix only
        if t["ev"] == "ret" and t["s"] == "c" and t["op"] == "recv" and t["res"] not in ("msg",):
            term_seen = True
        evs.append(e)
    return evs


def strip(e):
    return {k: v for k, v in e.items() if not k.startswith("_")}


def validate(ctx, items, tag, chunk_size=400, par=4, max_bad=6):
    """items: list of (job, events). Returns (accepted_count, states, generated, rejections) where a
    rejection is (job, events, index of the unexplained event in events (or -1: a design invariant
    failed on the trace))."""
    chunks = [items[i:i + chunk_size] for i in range(0, len(items), chunk_size)]
    ctx.spec_copy(AREA)    # not thread-safe on first use
    rejections = []
    stats = {"distinct": 0, "generated": 0, "accepted": 0, "set_aside": 0}

    def work(args):
        ci, chunk = args
        found = []
        st = [0, 0, 0, 0]
        rounds = 0
        while chunk and rounds <= max_bad:
            rounds += 1
            res = tlc_trace(ctx, chunk, "%s_%d_%d" % (tag, ci, rounds))
            st[0] += res["distinct"]
            st[1] += res["generated"]
            if res["ok"]:
                st[2] += len(chunk)
                break
            pos, idx, why = res["bad"]
            bj = chunk[pos][0]
            found.append((bj, chunk[pos][1], idx, why))
            st[2] += pos
            # the remaining scripts of the same transport and error variant would most likely be
            # rejected for the same reason: they are set aside (counted, not validated)
            rest = chunk[pos + 1:]
            chunk = [c for c in rest if not (c[0]["tr"] == bj["tr"] and c[0]["kind"] == bj["kind"])]
            st[3] += len(rest) - len(chunk)
        return found, st

    with ThreadPoolExecutor(max_workers=par) as ex:
        for found, st in ex.map(work, list(enumerate(chunks))):
            rejections += found
            stats["distinct"] += st[0]
            stats["generated"] += st[1]
            stats["accepted"] += st[2]
            stats["set_aside"] += st[3]
    return stats, rejections


def tlc_trace(ctx, chunk, tag):
    """One TLC run of StreamTrace over the concatenation of the chunk's traces."""
    lines = []
    spans = []
    for job, evs in chunk:
        start = len(lines) + 1
        lines.append(json.dumps(RESET))
        for e in evs:
            lines.append(json.dumps(strip(e)))
        spans.append((start, len(lines)))
    name = "trace_%s.ndjson" % tag
    cfgname = "trace_%s.cfg" % tag
    modname = "StreamTrace_%s" % tag
    # TLC reads the trace file named inside the module: one module copy per concurrent run
    d = ctx.spec_copy(AREA)
    with open(os.path.join(d, "StreamTrace.tla")) as f:
        mod = f.read()
    mod = mod.replace("MODULE StreamTrace", "MODULE " + modname).replace('"trace.ndjson"', '"%s"' % name)
    r = ctx.tlc(AREA, modname, cfgname,
                files={name: "\n".join(lines) + "\n", cfgname: TRACE_CFG, modname + ".tla": mod},
                workers=1, tag="tv_" + tag, timeout=1500, expect_violation=True)
    out = {"distinct": r.distinct, "generated": r.generated, "ok": False, "bad": None}
    hw = None
    for b in r.tagged("HW"):
        try:
            hw = int(b)
        except ValueError:
            pass
    if r.violated:
        # a design invariant / action property failed in a state reached while matching the trace:
        # the real results drove the model into a state that contradicts a clause. Locate by the
        # high-water mark printed in the error trace (l of the last state).
        last_l = None
        for ln in r.lines():
            ln = ln.strip()
            if ln.startswith("/\\ l = "):
                try:
                    last_l = int(ln.split("=")[1])
                except ValueError:
                    pass
        hw = last_l or 1
        why = "invariant %s" % r.violated
    elif r.rc == 0 and not r.postcondition_failed and hw is None and not r.error:
        out["ok"] = True
        return out
    elif hw is None:
        raise vlib.Inconclusive("trace validation failed without verdict (rc=%s): %s" % (
            r.rc, "\n".join(list(r.lines())[-15:])))
    else:
        why = "unexplained event"
    # event index hw (1-based, in the concatenation) is the first one that could not be matched
    for pos, (a, b) in enumerate(spans):
        if a <= hw <= b:
            return dict(out, bad=(pos, hw - a - 1, why))
    if hw == len(lines) + 1:
        out["ok"] = True
        return out
    raise vlib.Inconclusive("cannot locate rejected event %s" % hw)


# ------------------------------------------------------------------ reporting
def describe(job, evs, idx):
    """(unexplained event, readable prefix of the trace up to and including it)"""
    e = evs[idx] if 0 <= idx < len(evs) else {}
    hist = []
    for x in evs[:idx + 1]:
        if x["ev"] == "call":
            hist.append(">%s.%s" % (x["s"], x["op"]))
        else:
            hist.append("<%s.%s=%s%s" % (x["s"], x["op"], x["res"], (":%d" % x["id"]) if x["res"] == "msg" else ""))
    return e, " ".join(hist[-16:])


def signature(job, e, why, evs=None, idx=None):
    tr = job["tr"]
    if evs is not None and idx is not None and e.get("s") == "c" and e.get("ev") == "ret" and not why.startswith("invariant"):
        term_before = any(x["ev"] == "ret" and x["s"] == "c" and x["op"] == "recv" and x["res"] != "msg" for x in evs[:idx])
        if term_before and e.get("op") == "recv":
            return "C14 %s client Receive after the terminal result returned something else (%s)" % (tr, e.get("res", "?").split(":")[0])
        if term_before and e.get("op") == "send":
            return "C14 %s client Send after the terminal result returned %s" % (tr, e.get("res", "?").split(":")[0])
    if why.startswith("invariant"):
        return "C14 %s trace breaks %s" % (tr, why.split()[-1])
    word = e.get("res", "?").split(":")[0]
    exp = KIND_CLASS.get(job["kind"], "?")
    exp = "eof" if exp in ("nil", "eof") else exp
    if e.get("s") == "c" and e.get("op") == "recv" and word == exp:
        return "C14 %s client Receive returned the terminal result while responses were outstanding" % tr
    if e.get("s") == "c" and e.get("op") == "recv" and word != "msg":
        return "C14 %s client Receive terminal kind=%s observed=%s" % (tr, job["kind"], word)
    return "C14 %s %s.%s result %s not allowed" % (tr, e.get("s"), e.get("op"), word)


def is_drift(job, evs, idx, why):
    """Disagreements about what Stream.tla pins beyond the property statement (module header):
    CloseSend's return value, the handler's Send result while it is running, and the result of a
    client Send while the handler has not been asked to return (nil, or StreamClosed after CloseSend)."""
    if why.startswith("invariant") or not (0 <= idx < len(evs)):
        return False
    e = evs[idx]
    if e["ev"] != "ret":
        return False
    if e["s"] == "c" and e["op"] == "close":
        return True
    if e["s"] == "h" and e["op"] == "send":
        return True
    if e["s"] == "c" and e["op"] == "send":
        before = evs[:idx]
        ret_called = any(x["ev"] == "call" and x["s"] == "h" and x["op"] == "ret" for x in before)
        return not ret_called
    return False


def confirm_and_report(ctx, rejections, thorough, tagp):
    """Re-execute each rejected job from scratch (20 copies, fresh jitter) and report only if the
    rejection reproduces."""
    done = set()
    nrep = 0
    drifts = []
    # verdict-bearing rejections first
    rejections = sorted(rejections, key=lambda r: is_drift(*r))
    for job, evs, idx, why in rejections:
        e, hist = describe(job, evs, idx)
        sig = signature(job, e, why, evs, idx)
        if sig in done:
            continue
        done.add(sig)
        if is_drift(job, evs, idx, why):
            drifts.append("%s | %s" % (sig, hist))
            continue
        nrep += 1
        if nrep > 8:
            break
        copies = []
        rnd = random.Random(ctx.seed * 7919 + nrep)
        for c in range(NREP):
            j = dict(job, i=c, jit=(job["jit"] if c == 0 else rnd.randrange(1, 1 << 30)))
            copies.append(j)
        by, _ = run_jobs(ctx, copies, "%s_re%d" % (tagp, nrep), workers=2)
        findings = []
        items = []
        for j in copies:
            row = by[j["i"]]
            if row["status"] != "ok":
                continue
            items.append((j, to_events(j, row, findings)))
        # 4 batches; the first rejected trace of a batch ends it (the rest is set aside)
        _, rej2 = validate(ctx, items, "%s_rv%d" % (tagp, nrep), chunk_size=(NREP + 3) // 4, par=4, max_bad=1)
        rej2 = [r for r in rej2 if signature(r[0], describe(r[0], r[1], r[2])[0], r[3], r[1], r[2]) == sig]
        if not rej2:
            raise vlib.Inconclusive("rejected trace did not reproduce in %d re-executions" % NREP + ": %s | %s" % (sig, hist))
        fast = [r for r in rej2 if not slow(r)]
        if not fast:
            raise vlib.Inconclusive("rejection only seen > %d ms after the handler returned (ws close deadline): %s" % (
                WS_CLOSE_DEADLINE_MS, sig))
        j2, ev2, idx2, why2 = fast[0]
        e2, hist2 = describe(j2, ev2, idx2)
        ctx.report(sig, "%s transport, handler returns %s: %s -> %s.%s returned %s%s, which no behaviour of Stream.tla allows (%s); reproduced in %d of 4 batches of %d re-executions" % (
            j2["tr"], j2["kind"], hist2, e2.get("s"), e2.get("op"), e2.get("res"),
            (" [" + e2.get("_txt", "") + "]") if e2.get("_txt") else "", why2, len(rej2), NREP // 4),
            {"job": j2, "events": [strip(x) for x in ev2], "unexplained_index": idx2, "why": why2,
             "cmd": "python3 tools/verif.py replay C14 <this file>"})
    return drifts


def slow(rej):
    job, evs, idx, why = rej
    if job["tr"] != "ws" or not (0 <= idx < len(evs)):
        return False
    return evs[idx].get("_ms", -1) >= WS_CLOSE_DEADLINE_MS


def report_panics(ctx, findings):
    seen = {}
    for f in findings:
        if f.get("slow"):
            continue
        job = f["job"]
        if f["after_terminal"]:
            sig = "C14 %s client Receive after terminal panics: %s" % (job["tr"], f["panic"])
        else:
            sig = "C14 %s %s.%s panics: %s" % (job["tr"], f["side"], f["op"], f["panic"])
        seen.setdefault(sig, []).append(f)
    for sig, fs in seen.items():
        # minimal reproduction: the shortest script among the hits
        f = min(fs, key=lambda x: len(x["job"]["ev"]))
        job = f["job"]
        ctx.report(sig, "%s transport: %s.%s panicked with %r %s (%d occurrences); C14 requires further calls to keep returning the same terminal result" % (
            job["tr"], f["side"], f["op"], f["panic"],
            "on a Receive issued after the terminal result had been returned" if f["after_terminal"] else "",
            len(fs)),
            {"job": job, "panic": f["panic"], "hits": len(fs),
             "cmd": "python3 tools/verif.py replay C14 <this file>"})


# ------------------------------------------------------------------ directed scripts
def seq(*ops):
    """ops like 'c.send', 'h.recv': sequential call+ret pairs."""
    ev = []
    for o in ops:
        s, op = o.split(".")
        ev.append({"e": "call", "s": s, "op": op})
        ev.append({"e": "ret", "s": s, "op": op})
    return ev


def directed_jobs(start, thorough):
    """Hand-directed scripts: every error variant on every transport behind two responses, and the
    clauses' canonical scenarios. (Design-level counterexamples would be added here.)"""
    scripts = []
    base = seq("c.send", "h.recv", "h.send", "h.send", "c.close", "h.recv", "c.recv", "h.ret", "c.send", "c.recv")
    for k in KINDS:
        scripts.append((base, k, 2))
    half = seq("c.send", "c.send", "c.close", "c.send", "h.recv", "h.recv", "h.recv", "h.recv", "h.send", "c.recv", "h.send")
    scripts.append((half, "custom", 3))
    scripts.append((half, "nil", 3))
    # Send racing with the handler's return
    race = [{"e": "call", "s": "h", "op": "ret"}, {"e": "call", "s": "c", "op": "send"},
            {"e": "ret", "s": "c", "op": "send"}, {"e": "ret", "s": "h", "op": "ret"}] + seq("c.send", "c.send")
    for k in ("nil", "custom", "canceled"):
        scripts.append((race, k, 2))
    jobs = []
    for ev, k, cap in scripts:
        for tr, codec in (("mock", ""), ("ws", "json"), ("ws", "msgpack"), ("grpc", "")):
            for jit in (0, 11, 12):
                jobs.append({"i": start + len(jobs), "tr": tr, "cap": cap, "codec": codec, "kind": k,
                             "szc": [3, 100, 0, 3, 3, 3], "szh": [100, 0, 3, 3], "ev": ev, "jit": jit,
                             "epi": True, "pause": 0})
    return jobs


# ------------------------------------------------------------------ main
def run(ctx):
    thorough = ctx.tier == "thorough"
    rnd = random.Random(ctx.seed)
    design = []
    states = trans = 0
    # 1. design check: every clause of C14 on the specification
    mcs = [(1, 2, ["nil", "custom"], False), (0, 2, ["nil", "custom"], True), (2, 2, ["eof", "custom"], False)]
    if thorough:
        mcs += [(1, 3, ["nil", "eof", "custom"], True), (3, 3, ["nil", "custom"], False), (0, 3, ["nil", "custom"], False)]
    for n, (cap, mm, kinds, cnr) in enumerate(mcs):
        r = ctx.tlc(AREA, "Stream", "mc%d.cfg" % n, files={"mc%d.cfg" % n: mc_cfg(cap, mm, kinds, cnr)},
                    tag="mc%d" % n, workers=6, timeout=1500, coverage=(n == 0))
        if r.violated:
            raise vlib.Inconclusive("design spec violates %s (Cap=%d MaxMsg=%d): specification error, not a verdict" % (r.violated, cap, mm))
        if n == 0 and r.coverage_zero:
            ctx.notes.append("coverage: never-enabled %s" % sorted(set(r.coverage_zero))[:6])
        states += r.distinct
        trans += r.generated
        design.append({"Cap": cap, "MaxMsg": mm, "Kinds": kinds, "CloseNeedsRoom": cnr,
                       "distinct": r.distinct, "generated": r.generated, "wall_s": round(r.wall, 1)})
    # vacuity: each witness invariant must be violated (the antecedents are reachable)
    for wit in ("WitTermErr", "WitHEOF", "WitSendRace"):
        cfg = mc_cfg(1, 2, ["nil", "custom"], False, live=False, extra_inv=wit)
        r = ctx.tlc(AREA, "Stream", "wit.cfg", files={"wit.cfg": cfg}, tag="wit_" + wit, workers=4,
                    timeout=600, expect_violation=True)
        if r.violated != wit:
            raise vlib.Inconclusive("vacuity witness %s not reachable (violated=%s)" % (wit, r.violated))

    # 2. scripts
    plan = []    # (cap, maxmsg, depth, mode, limit)
    if not thorough:
        plan = [(1, 2, 8, "bfs", 700), (0, 2, 8, "bfs", 500), (2, 3, 14, "sim", 500), (0, 2, 12, "sim", 300)]
    else:
        plan = [(1, 2, 10, "bfs", None), (0, 2, 10, "bfs", None), (2, 2, 8, "bfs", None),
                (2, 3, 14, "sim", 4000), (1, 3, 16, "sim", 4000), (0, 3, 14, "sim", 3000), (3, 4, 18, "sim", 2000)]
    jobs = []
    gen_info = []
    exhaustive_parts = []
    samples = []
    for n, (cap, mm, depth, mode, limit) in enumerate(plan):
        tag = "gen%d" % n
        if mode == "bfs":
            r = ctx.tlc(AREA, "StreamGen", tag + ".cfg", files={tag + ".cfg": gen_cfg(cap, mm, depth)},
                        tag=tag, workers=6, timeout=1200)
        else:
            r = ctx.tlc(AREA, "StreamGen", tag + ".cfg", files={tag + ".cfg": gen_cfg(cap, mm, depth, maxpost=3)},
                        tag=tag, workers=4, timeout=1200, simulate="num=%d" % ((limit or 1000) * 3),
                        depth=depth * 3)
        scripts = collect_scripts(r)
        total = len(scripts)
        if total == 0:
            raise vlib.Inconclusive("no scripts generated (%s)" % tag)
        if limit and total > limit:
            scripts = vlib.sample(scripts, limit, ctx.seed + n)
        elif mode == "bfs":
            exhaustive_parts.append("Cap=%d depth=%d (%d scripts)" % (cap, depth, total))
        if len(samples) < 2:
            samples.append(scripts[rnd.randrange(len(scripts))])
        gen_info.append({"Cap": cap, "MaxMsg": mm, "depth_events": depth, "mode": mode,
                         "generated": total, "used": len(scripts)})
        jobs += make_jobs(scripts, cap, rnd, thorough, mm, ["mock", "ws", "grpc"], start=len(jobs))
    jobs += directed_jobs(len(jobs), thorough)

    # 3. execute on the real transports
    by, wall = run_jobs(ctx, jobs, "main")
    bad_status = [(j, by[j["i"]]) for j in jobs if by[j["i"]]["status"] != "ok"]
    findings = []
    items = []
    mech = {"panic": 0}
    for j in jobs:
        row = by[j["i"]]
        if row["status"] != "ok":
            continue
        evs = to_events(j, row, findings)
        items.append((j, evs))
        for e in evs:
            if e["ev"] == "ret":
                key = "%s:%s.%s=%s" % (j["tr"], e["s"], e["op"], e["res"].split(":")[0])
                mech[key] = mech.get(key, 0) + 1
    # 4. trace validation
    stats, rejections = validate(ctx, items, "main", chunk_size=500 if thorough else 350, par=5)
    states += stats["distinct"]
    trans += stats["generated"]
    report_panics(ctx, findings)
    drifts = []
    if rejections:
        drifts = confirm_and_report(ctx, rejections, thorough, "main")
    if drifts and not ctx.violations and not ctx.known_hits:
        raise vlib.Inconclusive("DRIFT (real results differ from Stream.tla on points the property does not state): %s" % "; ".join(drifts[:3]))
    if drifts:
        ctx.notes.append("drift: %s" % "; ".join(drifts[:3]))

    if bad_status:
        # A script that got stuck under the full parallel load is re-run ALONE twice; a call
        # that still does not return within the 30 s watchdog while nothing else runs is the
        # real code blocking forever (no definite end), not starvation.
        seen = set()
        for j, row in bad_status:
            if row.get("status") != "stuck" or len(seen) >= 3:
                continue
            key = (j["tr"], re.sub(r"\d+", "N", str(row.get("note"))))
            if key in seen:
                continue
            seen.add(key)
            # 40 fresh executions of this one script (8 workers, fresh jitter): on the unchanged
            # tree none ever sticks; a call that again fails to return within the 30 s watchdog
            # is the real code blocking forever (no definite end), not starvation
            copies = [dict(j, i=k, seed=(j.get("seed", 0) + 7919 * (k + 1))) for k in range(40)]
            by1, _ = run_jobs(ctx, copies, "again_%d" % len(seen), workers=8)
            again = sum(1 for k in range(40) if by1[k].get("status") == "stuck")
            ctx.notes.append("re-execution of stuck %s script: %d of 40 stuck again" % (j["tr"], again))
            if again >= 1:
                ctx.report("C14 %s call never returns: %s" % key,
                           "%s transport: %s (%d of 40 fresh re-executions of this script stuck again)" % (j["tr"], row.get("note"), again),
                           {"job": j, "note": row.get("note"), "kind": "stuck", "stuck_again": again})
    if bad_status and not ctx.violations:
        j, row = bad_status[0]
        # starvation / open failure alone is never a verdict
        raise vlib.Inconclusive("%d of %d scripts did not complete (first: %s %s: %s); %s" % (
            len(bad_status), len(jobs), j["tr"], row["status"], row.get("note"), "; ".join(ctx.notes[-6:])))

    # vacuity of the binding: the mechanisms the clauses talk about were exercised on every transport
    need = []
    for tr in ("mock", "ws", "grpc"):
        for key in ("c.recv=msg", "h.recv=msg", "h.recv=eof", "c.recv=eof", "c.recv=custom", "c.send=eof", "c.send=closed"):
            if mech.get("%s:%s" % (tr, key), 0) == 0:
                need.append("%s:%s" % (tr, key))
    if need and not ctx.violations:
        raise vlib.Inconclusive("mechanisms never exercised: %s" % need)

    big = 0
    for j in jobs:
        nc = sum(1 for e in j["ev"] if e["e"] == "call" and e["s"] == "c" and e["op"] == "send")
        nh = sum(1 for e in j["ev"] if e["e"] == "call" and e["s"] == "h" and e["op"] == "send")
        if max([0] + j["szc"][:nc] + j["szh"][:nh]) >= 65536:
            big += 1
    cov = {
        "states": states, "transitions": trans,
        "traces_validated_against_impl": stats["accepted"],
        "scripts_executed": len(jobs),
        "samples": [[("%s.%s:%s" % (e["s"], e["op"], e["e"])) for e in s] for s in samples],
        "exhaustive": False,
        "exhaustive_parts": exhaustive_parts,
        "design_runs": design,
        "generators": gen_info,
        "transports": ["mock", "ws(json,msgpack)", "grpc"],
        "error_variants": KINDS,
        "scripts_with_payload_ge_64KiB": big,
        "results_seen": {k: v for k, v in sorted(mech.items()) if v},
        "recovered_panics": sum(1 for f in findings if not f.get("slow")),
        "ws_traces_cut_at_close_deadline": sum(1 for f in findings if f.get("slow")),
        "traces_rejected": len(rejections), "traces_set_aside_after_rejection": stats["set_aside"],
        "harness_wall_s": round(wall, 1),
        "rule": "every generated script (call/ret events of both sides, overlapping as generated) is executed on mock, "
                "WebSocket and gRPC with a draining/stability epilogue; each recorded trace must be a behaviour of "
                "Stream.tla (StreamTrace.tla, silent effect steps anywhere inside a call's window)",
        "notes": ctx.notes,
    }
    return ctx.finish("model_checking", cov, [
        "TLC/SANY 1.8.0; loopback TCP; fiber/fasthttp-websocket and grpc-go as vendored by freighter/go",
        "timing is explored by script interleavings, overlapping calls and seeded jitter, not enumerated on sockets",
        "payloads >= 64 KiB only in rendezvous (Cap = 0) scripts; transport failure and context cancellation by the client are out of scope",
        "classes of errors are compared (errors.Is per registered kind; text for unregistered), not messages",
    ])


def replay(ctx, path):
    with open(path) as f:
        obj = json.load(f)
    job = obj["job"]
    copies = [dict(job, i=c, jit=(job.get("jit", 0) if c == 0 else 1000 + c)) for c in range(10)]
    by, _ = run_jobs(ctx, copies, "replay", workers=2)
    findings = []
    items = []
    for j in copies:
        row = by[j["i"]]
        if row["status"] != "ok":
            raise vlib.Inconclusive("script did not complete: %s" % row.get("note"))
        items.append((j, to_events(j, row, findings)))
    _, rej = validate(ctx, items, "replay", chunk_size=1, par=4, max_bad=1)
    shutil.rmtree(ctx.build, ignore_errors=True)
    findings = [f for f in findings if not f.get("slow")]
    if findings or rej:
        print("VIOLATION property=C14 replay=%s" % path)
        if findings:
            print("  panic: %s in %s.%s on %s" % (findings[0]["panic"], findings[0]["side"], findings[0]["op"], job["tr"]))
        for r in rej[:1]:
            e, hist = describe(r[0], r[1], r[2])
            print("  %s -> %s (%s)" % (hist, e.get("res"), r[3]))
        return 1
    print("replay: script passes on the current tree (10 executions)")
    return 0


def selftest(ctx):
    """Binding self-test: real traces of the directed scripts are accepted; the same traces with one
    observation corrupted (message order swapped, terminal class changed, a response dropped, a
    duplicate delivery) must each be rejected by StreamTrace.tla."""
    jobs = [j for j in directed_jobs(0, False) if j["kind"] in ("custom", "nil") and j["jit"] == 0 and j["tr"] != "ws"][:6]
    for n, j in enumerate(jobs):
        j["i"] = n
    by, _ = run_jobs(ctx, jobs, "self", workers=2)
    findings = []
    items = [(j, to_events(j, by[j["i"]], findings)) for j in jobs if by[j["i"]]["status"] == "ok"]
    if len(items) != len(jobs):
        raise vlib.Inconclusive("selftest scripts did not complete")
    _, rej = validate(ctx, items, "self_ok", chunk_size=10, par=1)
    if rej:
        print("selftest: genuine traces rejected: %s" % describe(rej[0][0], rej[0][1], rej[0][2])[1])
        return 1
    job, evs = items[0]
    msgs = [k for k, e in enumerate(evs) if e["ev"] == "ret" and e["s"] == "c" and e["res"] == "msg"]
    terms = [k for k, e in enumerate(evs) if e["ev"] == "ret" and e["s"] == "c" and e["op"] == "recv" and e["res"] not in ("msg",)]
    if len(msgs) < 2 or not terms:
        raise vlib.Inconclusive("selftest script lacks two responses and a terminal")
    import copy
    variants = {}
    v = copy.deepcopy(evs); v[msgs[0]]["id"], v[msgs[1]]["id"] = v[msgs[1]]["id"], v[msgs[0]]["id"]; variants["reordered"] = v
    v = copy.deepcopy(evs); v[msgs[1]]["id"] = v[msgs[0]]["id"]; variants["duplicate"] = v
    v = copy.deepcopy(evs); v[terms[0]]["res"] = "closed"; variants["wrong terminal class"] = v
    v = copy.deepcopy(evs); v[msgs[1]]["res"] = v[terms[0]]["res"]; variants["terminal before last response"] = v
    v = copy.deepcopy(evs); v[terms[-1]]["res"] = "eof" if v[terms[-1]]["res"] != "eof" else "custom"; variants["unstable terminal"] = v
    bad = 0
    for name, v in variants.items():
        _, rej = validate(ctx, [(job, v)], "self_" + name.replace(" ", "_"), chunk_size=1, par=1)
        if not rej:
            print("selftest: corrupted trace (%s) was accepted" % name)
            bad += 1
    print("selftest: %d genuine traces accepted, %d/%d corrupted traces rejected" % (len(items), len(variants) - bad, len(variants)))
    shutil.rmtree(ctx.build, ignore_errors=True)
    return 1 if bad else 0
