"""C16 - the ontology graph stays acyclic, exact and free of dangling edges
(DESIGN.md section 3, C16).

Ontology.tla is checked by TLC (masked = property configuration; as-is = code as written
with the named deviation Dev_SelfLoop; interleaved = two concurrent transactions, outside
the property's quantifier). OntologyGen.tla emits behaviours (every history to a small
depth, one history per transition of the reachable state graph, random deep histories)
and transaction bursts (several operations on overlapping edges inside one transaction,
queried inside it and after commit/abort) that are replayed into the real ontology under
four identifier concretisations and two index-observer wirings (default / production).
"""
import json
import os

import vlib

AREA = "ontology"
HARNESS = ["zz_verif_ontology_test.go"]
EXTRA_ACTIONS = ("delout", "delin", "defresmany", "reopen")


def _set(xs):
    return "{" + ", ".join('"%s"' % x for x in xs) + "}"


def consts(n, types, txs, interleave=False, selfloop_refused=True, noops=True, extra=True,
           maxset=2, initres=None):
    return """CONSTANTS
  N = %d
  RelType = %s
  InitRes = %d
  Txs = %s
  Interleave = %s
  SelfLoopRefused = %s
  NoOps = %s
  Extra = %s
  MaxSet = %d
""" % (n, _set(types), n if initres is None else initres, _set(txs), str(interleave).upper(),
       str(selfloop_refused).upper(), str(noops).upper(), str(extra).upper(), maxset)


def mc_cfg(n, types, txs, interleave=False, selfloop_refused=True, noops=True, extra=True, maxset=2):
    c = "SPECIFICATION Spec\n" + consts(n, types, txs, interleave, selfloop_refused, noops, extra, maxset)
    c += "INVARIANTS TypeOK Acyclic NoDangling DefineExact TraversalsAgree WalkNeverFails\n"
    c += "PROPERTIES AbortVanishes\n"
    if not interleave:
        c += "VIEW SeqView\n"
    return c + "CHECK_DEADLOCK FALSE\n"


def gen_cfg(n, types, txs, depth, canon, cover, noops=False, extra=False, maxset=2, initres=None,
            emit_one_in=1, burst=0, shapes=("empty",), fullview=False):
    c = "SPECIFICATION GSpec\n" + consts(n, types, txs, False, True, noops, extra, maxset, initres)
    c += "  Depth = %d\n  Canon = %s\n  Cover = %s\n  EmitOneIn = %d\n  Burst = %d\n  Shapes = %s\nINVARIANTS Emit\n" % (
        depth, str(canon).upper(), str(cover).upper(), emit_one_in, burst, _set(shapes))
    if cover:
        c += "VIEW %s\n" % ("GViewFull" if fullview else "GView")
    return c + "CHECK_DEADLOCK FALSE\n"


def write_hists(ctx, res, path, keep=None, seed=0):
    """Write the (optionally sampled) histories sorted, so that histories sharing a
    prefix are adjacent (the harness skips runs whose prefix already failed)."""
    lines = []
    for ln in res.tagged("HIST"):
        try:
            lines.append(json.loads(ln))
        except Exception:
            continue
    total = len(lines)
    if keep is not None and total > keep:
        lines = vlib.sample(lines, keep, seed)
    lines.sort()
    with open(path, "w") as f:
        for s in lines:
            f.write(s + "\n")
    samples = [json.loads(s) for s in lines[:1]]
    acts = {}
    for s in lines:
        for st in json.loads(s):
            k = st["a"] + ":" + st["cls"] + (":tx" if st["w"] != "db" else "")
            acts[k] = acts.get(k, 0) + 1
    ACTS.append(acts)
    return total, len(lines), samples


def replay_file(ctx, path, n, initres, perms, tag, concs="", force="", workers=None, timeout=1500):
    out = ctx.path("out_%s.ndjson" % tag)
    if os.path.exists(out):
        os.remove(out)
    env = {"VERIF_IN": path, "VERIF_OUT": out, "VERIF_N": n, "VERIF_INITRES": initres,
           "VERIF_PERMS": perms, "VERIF_CONCS": concs, "VERIF_FORCE": force,
           "VERIF_WORKERS": workers or max(2, min(12, vlib.NCPU - 4)),
           "VERIF_STORMCAP": 12 if ctx.tier == "quick" else 60}
    rc, text, wall = ctx.go_test("core", "./pkg/distribution/ontology", HARNESS,
                                 "^TestVerifOntologyReplay$", env=env, tag=tag, timeout=timeout)
    rows = ctx.read_ndjson(out)
    if rc != 0 or not rows or not rows[0].get("summary"):
        raise vlib.Inconclusive("ontology replay harness failed rc=%s:\n%s" % (rc, text[-2000:]))
    if rows[0].get("fatal"):
        raise vlib.Inconclusive("ontology replay workers failed: %s" % rows[0]["fatal"])
    return rows[0], rows[1:], wall


# ------------------------------------------------------------------ oracle
def pre_view(hist, step, initres):
    """Abstract state the acting writer saw before step `step`."""
    st = hist[step]
    if step == 0:
        return list(range(1, initres + 1)), []
    p = hist[step - 1]
    if st["w"] == "db":
        return p["res"], p["edges"]
    return p["vres"], p["vedges"]


def code_walk(edges, ids, to, confused):
    """dagWriter.retrieveDescendants as written. confused=True: outgoing edges found by
    the key prefix `id` without the "->" separator. Returns (descendants, loops)."""
    cedges = [(ids[f], ids[t]) for f, _, t in edges]

    def out(nid):
        return [t for f, t in cedges if (f.startswith(nid) if confused else f == nid)]
    desc = set()

    def dfs(nid, path, depth):
        for c in out(nid):
            if c in path or depth > 12:
                return True
            desc.add(c)
            if dfs(c, path | {c}, depth + 1):
                return True
        return False
    return desc, dfs(ids[to], {ids[to]}, 0)


def simulate_define(hist, step, m, initres, confused):
    """Result class the code as written returns for a define step, computed on the
    specification's pre-state under the run's concrete identifiers."""
    st = hist[step]
    ids = m["ids"]
    res, edges = pre_view(hist, step, initres)
    eset = {(e[0], e[1], e[2]) for e in edges}
    f, ty = st["x"], st["ty"]
    if st["a"] == "defrel":
        t = st["y"]
        if (t, ty, f) in eset:
            return "cyclic"
        if (f, ty, t) in eset:
            return "ok"
        targets = [t]
    else:
        targets = list(st["s"])
    if f not in res or any(t not in res for t in targets):
        return "notfound"
    for t in targets:
        desc, loops = code_walk(edges, ids, t, confused)
        if loops:
            return "crash"
        if ids[f] in desc:
            return "cyclic"
    return "ok"


def same_type_cycle(hist, step, initres):
    """Does the define close a cycle using edges of its own relationship type only?"""
    st = hist[step]
    _, edges = pre_view(hist, step, initres)
    adj = {}
    for f, ty, t in edges:
        if ty == st["ty"]:
            adj.setdefault(f, set()).add(t)
    targets = [st["y"]] if st["a"] == "defrel" else list(st["s"])
    for t in targets:
        seen, todo = set(), [t]
        while todo:
            x = todo.pop()
            if x == st["x"]:
                return True
            if x in seen:
                continue
            seen.add(x)
            todo += list(adj.get(x, ()))
    return False


def classify(hist, m, initres):
    """-> (signature, verdict_bearing, text). verdict_bearing False = model drift."""
    step = m.get("step", -1)
    st = hist[step] if 0 <= step < len(hist) else {}
    a = st.get("a", m.get("a", "?"))
    kind = m.get("kind")
    ids = m.get("ids") or []

    def name(x):
        return ids[x] if 0 < x < len(ids) else str(x)
    call = a
    if a in ("defrel", "delrel"):
        call = "%s(%s -%s-> %s)" % (a, name(st["x"]), st["ty"], name(st["y"]))
    elif a == "defmany":
        call = "defmany(%s -%s-> [%s])" % (name(st["x"]), st["ty"], ", ".join(name(x) for x in st["s"]))
    elif a in ("delres", "defres", "delout", "delin"):
        call = "%s(%s)" % (a, name(st["x"]))
    elif a in ("delresmany", "defresmany"):
        call = "%s([%s])" % (a, ", ".join(name(x) for x in st["s"]))
    where = "%s in %s" % (call, "a transaction" if st.get("w", "db") != "db" else "the DB")
    res, edges = pre_view(hist, step, initres) if st else ([], [])
    state = "resources {%s}, edges {%s}" % (
        ", ".join(name(x) for x in res), ", ".join("%s-%s->%s" % (name(e[0]), e[1], name(e[2])) for e in edges))
    text = "[%s ids, %s index wiring] %s with %s: expected %s, real ontology gave %s %s" % (
        m.get("conc"), m.get("wiring") or "default", where, state, m.get("exp"), m.get("act"), m.get("detail", ""))
    verdict = True
    if kind == "error" or m.get("r") == "inconclusive":
        return "C16 harness-error", None, text
    if kind in ("class", "crash", "panic") and a in ("defrel", "defmany"):
        exp = st.get("cls")
        act = "crash" if kind in ("crash", "panic") else m.get("act", "")
        tag = ""
        try:
            # explained by the separator-less prefix lookup: the code as written, walked
            # with confusable prefixes, gives exactly the observed result, and the same
            # code walked with exact keys does not
            if act != exp and simulate_define(hist, step, m, initres, False) != act \
                    and simulate_define(hist, step, m, initres, True) == act:
                tag = " prefix-id"
        except Exception:
            pass
        selfloop = st["x"] == st.get("y") if a == "defrel" else st["x"] in st["s"]
        if act == "crash":
            base = "define crash unbounded-recursion" if "stack" in m.get("act", "") else "define crash"
        elif exp == "ok" and act == "cyclic":
            base = "define refused spurious-cycle"
        elif exp == "ok" and act == "notfound":
            base = "define refused spurious-notfound"
        elif exp == "ok":
            base = "define failed unexpected-error"
        elif act == "ok" and exp == "cyclic":
            base = "define accepted " + ("self-loop" if selfloop else "cycle")
            if not selfloop and not same_type_cycle(hist, step, initres):
                # the new edge closes a cycle only together with edges of another
                # relationship type. C16 speaks of THE resource relationship graph (one graph
                # over every relationship type, which is also what retrieveDescendants walks),
                # so an accepted cross-type cycle leaves that graph cyclic: a violation
                base = "define accepted cross-type-cycle"
        elif act == "ok" and exp == "notfound":
            base = "define accepted missing-endpoint"
        else:
            base = "define refusal-class %s-vs-%s" % (exp, act)
            verdict = False   # which refusal is returned is pinned beyond the property
        return "C16 %s%s" % (base, tag), verdict, text
    if kind in ("crash", "panic"):
        return "C16 %s %s" % (a, kind), True, text
    if kind == "class":
        sig = "C16 %s failed %s" % (a, "error" if m.get("act", "").startswith("other") else m.get("act"))
        return sig, a not in EXTRA_ACTIONS, text
    if kind in ("edges", "resources"):
        how = (m.get("detail") or "").split(" ")[0] if kind == "edges" else "differs"
        if a == "abort":
            sig = "C16 abort leaves-trace %s" % kind
        elif st.get("w", "db") != "db" and m.get("view") == "db" and a != "commit":
            sig = "C16 uncommitted-write visible %s" % kind
        else:
            sig = "C16 %s %s %s view=%s" % (a, kind, how, m.get("view"))
        return sig, a not in EXTRA_ACTIONS, text
    if kind == "traversal":
        what = (m.get("detail") or "? ").split(" ")[0]   # parents^d / children^d
        d = what.split("^")
        depth = "1" if len(d) > 1 and d[1] == "1" else "n"
        return "C16 traversal %s depth-%s after %s view=%s" % (d[0], depth, a, m.get("view")), True, text
    if kind == "traversal-missing":
        return "C16 traversal returns-missing after %s view=%s" % (a, m.get("view")), True, text
    return "C16 unknown %s" % kind, None, text


class Batch:
    def __init__(self, name, path, n, initres, perms, total, kept):
        self.name, self.path, self.n, self.initres, self.perms = name, path, n, initres, perms
        self.total, self.kept = total, kept


_LINES = {}
ACTS = []


def read_line(path, i):
    if path not in _LINES:
        with open(path) as f:
            _LINES.clear()
            _LINES[path] = f.read().split("\n")
    ls = _LINES[path]
    return json.loads(ls[i]) if 0 <= i < len(ls) and ls[i] else None


def judge(ctx, batch, bad, seen, drift, counts):
    """Classify the mismatches of one batch; reproduce and report one per signature."""
    for m in bad:
        hist = read_line(batch.path, m["i"])
        if hist is None:
            raise vlib.Inconclusive("mismatch refers to unknown history %s" % m)
        sig, verdict, text = classify(hist, m, batch.initres)
        counts[sig] = counts.get(sig, 0) + 1
        if sig in seen:
            continue
        seen.add(sig)
        if verdict is None:
            raise vlib.Inconclusive("harness inconclusive: %s" % text)
        # reproduce from scratch: the single history, the same concretisation/injection
        one = ctx.path("one.ndjson")
        with open(one, "w") as f:
            f.write(json.dumps(hist) + "\n")
        force = "%s=%s@%s" % (m["conc"], ",".join(str(x) for x in m["inj"]), m.get("wiring") or "default")
        summ, bad2, _ = replay_file(ctx, one, batch.n, batch.initres, 1, "repro", force=force, workers=1)
        again = [classify(hist, b, batch.initres)[0] for b in bad2]
        if sig not in again:
            raise vlib.Inconclusive("mismatch did not reproduce (%s): %s; re-run gave %s" % (sig, text, again))
        if not verdict:
            drift.append((sig, text))
            continue
        ctx.report(sig, text, {
            "history": hist, "n": batch.n, "initres": batch.initres, "conc": m["conc"], "inj": m["inj"],
            "ids": m.get("ids"), "wiring": m.get("wiring") or "default", "mismatch": m, "batch": batch.name,
            "cmd": "python3 tools/verif.py replay C16 <this file>"})


def run(ctx):
    thorough = ctx.tier == "thorough"
    W = 6 if not thorough else max(6, min(12, vlib.NCPU - 4))
    design = []
    states = trans = 0
    notes = ctx.notes

    # ---- 1. design level: masked configurations (all invariants must hold)
    masked = [("n3-p-tx", 3, ["p"], ["t1"]), ("n3-pq", 3, ["p", "q"], []), ("n4-p", 4, ["p"], [])]
    if thorough:
        masked += [("n3-pq-tx", 3, ["p", "q"], ["t1"])]
    for name, n, types, txs in masked:
        big = name in ("n3-pq-tx", "n4-p-tx")
        r = ctx.tlc(AREA, "Ontology", "mc_%s.cfg" % name, tag="mc_" + name, workers=W, timeout=3000,
                    coverage=(name == "n3-p-tx"),
                    files={"mc_%s.cfg" % name: mc_cfg(n, types, txs, noops=not big, extra=not big,
                                                     maxset=1 if big else 2)})
        if r.violated:
            raise vlib.Inconclusive(
                "design spec (masked, %s): %s violated - the specification itself is wrong; see build log" % (name, r.violated))
        if name == "n3-p-tx" and r.coverage_zero:
            zero = [a for a in r.coverage_zero if a not in ("Init",)]
            if zero:
                raise vlib.Inconclusive("vacuity: spec actions never fired: %s" % zero)
        states += r.distinct
        trans += r.generated
        design.append({"config": name, "mode": "masked", "distinct": r.distinct, "generated": r.generated,
                       "depth": r.depth, "wall_s": round(r.wall, 1)})
    # as-is: the code as written accepts self-loops (Dev_SelfLoop): TLC must find Acyclic
    # violated; the verdict about the real code comes from the replay below.
    r = ctx.tlc(AREA, "Ontology", "asis.cfg", tag="mc_asis", workers=2, timeout=600, expect_violation=True,
                files={"asis.cfg": mc_cfg(3, ["p"], ["t1"], selfloop_refused=False)})
    design.append({"config": "n3-p-tx", "mode": "as-is Dev_SelfLoop", "violated": r.violated,
                   "distinct": r.distinct, "generated": r.generated})
    if r.violated not in ("Acyclic", "DefineExact"):
        raise vlib.Inconclusive("as-is configuration: expected Acyclic/DefineExact violated, got %s" % r.violated)
    # interleaved transactions are outside the property's quantifier (sequences); recorded only
    r = ctx.tlc(AREA, "Ontology", "il.cfg", tag="mc_il", workers=2, timeout=600, expect_violation=True,
                files={"il.cfg": mc_cfg(3, ["p"], ["t1", "t2"], interleave=True, noops=False, extra=False)})
    design.append({"config": "n3-p-2tx", "mode": "interleaved (outside quantifier)", "violated": r.violated,
                   "distinct": r.distinct, "generated": r.generated})
    notes.append("interleaved transactions (not quantified by C16): design spec reports %s violated - "
                 "a gorp tx is a write overlay on the live tables, two concurrent transactions are not isolated"
                 % r.violated)

    # ---- 2. behaviours
    plans = []
    if not thorough:
        plans.append(dict(name="all-d3", n=3, types=["p"], txs=["t1"], depth=3, canon=True, cover=False, keep=4000, perms=2))
        plans.append(dict(name="cover-n3-tx", n=3, types=["p"], txs=["t1"], depth=40, canon=True, cover=True, keep=6000, perms=2))
        # several operations on overlapping edges inside one transaction, then commit/abort
        plans.append(dict(name="txburst-n3", n=3, types=["p"], txs=["t1"], depth=10, canon=False, cover=False,
                          noops=True, burst=2, shapes=("empty", "edge", "chain", "fan", "vee", "tri"), keep=3000, perms=2))
        # every transition of the 2-resource graph with the write overlay kept apart
        plans.append(dict(name="txcover-n2", n=2, types=["p"], txs=["t1"], depth=40, canon=True, cover=True,
                          noops=True, fullview=True, keep=2500, perms=2))
        plans.append(dict(name="cover-n3-pq", n=3, types=["p", "q"], txs=[], depth=40, canon=True, cover=True, keep=3000, perms=2))
        plans.append(dict(name="cover-n4", n=4, types=["p"], txs=[], depth=40, canon=True, cover=True, keep=4500, perms=2))
    else:
        plans.append(dict(name="all-d3", n=3, types=["p"], txs=["t1"], depth=3, canon=True, cover=False, keep=None, perms=4))
        plans.append(dict(name="cover-n3-tx", n=3, types=["p"], txs=["t1"], depth=40, canon=True, cover=True, keep=45000, perms=3))
        plans.append(dict(name="txburst-n3", n=3, types=["p"], txs=["t1"], depth=10, canon=False, cover=False,
                          noops=True, burst=2, shapes=("empty", "edge", "chain", "fan", "vee", "tri"), keep=None, perms=3))
        plans.append(dict(name="txburst3-n3", n=3, types=["p"], txs=["t1"], depth=10, canon=False, cover=False,
                          noops=True, burst=3, shapes=("chain", "fan", "tri"), emit_one_in=25, keep=25000, perms=2))
        plans.append(dict(name="txcover-n2", n=2, types=["p"], txs=["t1"], depth=40, canon=True, cover=True,
                          noops=True, fullview=True, keep=None, perms=2))
        plans.append(dict(name="cover-n3-pq", n=3, types=["p", "q"], txs=[], depth=40, canon=True, cover=True, keep=20000, perms=3))
        plans.append(dict(name="cover-n4", n=4, types=["p"], txs=[], depth=40, canon=True, cover=True, keep=40000, perms=3))
        plans.append(dict(name="sim-n5-p", n=5, types=["p"], txs=["t1"], depth=12, canon=False, cover=False,
                          keep=None, perms=2, simulate="num=%d" % max(1, 900 // W), emit_one_in=50,
                          noops=True, extra=True, maxset=2, initres=4))
        plans.append(dict(name="sim-n4-pq", n=4, types=["p", "q"], txs=["t1"], depth=12, canon=False, cover=False,
                          keep=None, perms=2, simulate="num=%d" % max(1, 900 // W), emit_one_in=50,
                          noops=True, extra=True, maxset=2, initres=3))
    batches = []
    samples = []
    total_hist = 0
    stats = {}
    seen, drift, counts = set(), [], {}
    exhaustive = True
    for pl in plans:
        tag = "gen_" + pl["name"]
        cfg = gen_cfg(pl["n"], pl["types"], pl["txs"], pl["depth"], pl["canon"], pl["cover"],
                      noops=pl.get("noops", False), extra=pl.get("extra", False), maxset=pl.get("maxset", 2),
                      initres=pl.get("initres"), emit_one_in=pl.get("emit_one_in", 1),
                      burst=pl.get("burst", 0), shapes=pl.get("shapes", ("empty",)), fullview=pl.get("fullview", False))
        r = ctx.tlc(AREA, "OntologyGen", tag + ".cfg", files={tag + ".cfg": cfg}, tag=tag, workers=W,
                    timeout=2400, simulate=pl.get("simulate"),
                    depth=pl["depth"] + 1 if pl.get("simulate") else None)
        hp = ctx.path(tag + ".ndjson")
        total, kept, smp = write_hists(ctx, r, hp, keep=pl["keep"], seed=ctx.seed)
        if kept == 0:
            raise vlib.Inconclusive("no histories generated for %s" % pl["name"])
        if kept < total or pl.get("simulate") or pl.get("emit_one_in", 1) > 1:
            exhaustive = False
        b = Batch(pl["name"], hp, pl["n"], pl.get("initres") or pl["n"], pl["perms"], total, kept)
        summ, bad, wall = replay_file(ctx, hp, b.n, b.initres, b.perms, "rp_" + pl["name"], workers=W)
        if summ["replayed"] != kept:
            raise vlib.Inconclusive("replayed %s of %s histories (%s)" % (summ["replayed"], kept, pl["name"]))
        for k, v in summ["stats"].items():
            stats[k] = stats.get(k, 0) + v
        batches.append({"name": b.name, "generated": total, "replayed": kept, "runs": summ["stats"]["runs"],
                        "tlc_distinct": r.distinct, "tlc_generated": r.generated,
                        "tlc_wall_s": round(r.wall, 1), "replay_wall_s": round(wall, 1), "mismatching_runs": len(bad)})
        samples += smp[:1]
        total_hist += kept
        judge(ctx, b, bad, seen, drift, counts)

    # ---- 3. vacuity: the replay must have exercised every mechanism the property names
    need = ["def_ok", "def_cyclic", "def_notfound", "del_cascade", "commits", "aborts", "tx_steps",
            "traversals", "deep_levels", "missing_queries", "prod_runs", "tx_rewrite_del"]
    lacking = [k for k in need if not stats.get(k)]
    acts = {}
    for a in ACTS:
        for k, v in a.items():
            acts[k] = acts.get(k, 0) + v
    want_acts = ["begin:ok:tx", "commit:ok:tx", "abort:ok:tx", "defres:ok", "delres:ok", "delres:ok:tx", "delresmany:ok",
                 "defrel:ok", "defrel:ok:tx", "defrel:cyclic", "defrel:notfound", "defmany:ok", "defmany:cyclic",
                 "defmany:notfound", "delrel:ok", "delrel:ok:tx"]
    if thorough:
        want_acts += ["delout:ok", "delin:ok", "defresmany:ok", "reopen:ok"]
    lacking += [k for k in want_acts if not acts.get(k)]
    cov = {
        "states": states, "transitions": trans,
        "traces_validated_against_impl": total_hist,
        "runs_on_real_code": stats.get("runs", 0),
        "samples": samples[:2],
        "exhaustive": exhaustive,
        "exhaustive_batches": [b["name"] for b in batches if b["replayed"] == b["generated"] and not b["name"].startswith("sim")],
        "design_runs": design,
        "batches": batches,
        "mechanisms": stats,
        "spec_steps_replayed": acts,
        "mismatch_signatures": counts,
        "concretisations": ["plain", "prefix", "suffix", "colon"],
        "rule": "each history replayed on a fresh memkv ontology under 4 identifier concretisations x seeded injections "
                "of the abstract resources; after every step: result class, raw scan of resource+relationship tables "
                "(DB and open tx), parents^d/children^d of every resource (DB and tx view) against the specification",
        "notes": notes,
    }
    if drift and not ctx.violations:
        ctx.finish("model_checking", cov)
        raise vlib.Inconclusive("model drift (not a statement of C16): " + "; ".join("%s: %s" % d for d in drift[:3]))
    if drift:
        notes.append("drift: " + "; ".join(d[0] for d in drift))
    if lacking and not ctx.violations and not ctx.known_hits:
        ctx.finish("model_checking", cov)
        raise vlib.Inconclusive("vacuity: replay never exercised %s" % lacking)
    return ctx.finish("model_checking", cov, [
        "TLC/SANY; Go toolchain; memkv (in-memory pebble) stands for the store",
        "at most one open transaction at a time and no direct writes while it is open (C16 quantifies over sequences)",
        "identifier shapes: the four concretisation tables in the harness (keys containing '->' are not exercised)",
    ])


def replay(ctx, path):
    with open(path) as f:
        obj = json.load(f)
    one = ctx.path("one.ndjson")
    hist = obj["history"]
    with open(one, "w") as f:
        f.write(json.dumps(hist) + "\n")
    force = "%s=%s@%s" % (obj["conc"], ",".join(str(x) for x in obj["inj"]), obj.get("wiring") or "default")
    summ, bad, _ = replay_file(ctx, one, obj["n"], obj["initres"], 1, "replay", force=force, workers=1)
    if bad:
        sig, verdict, text = classify(hist, bad[0], obj["initres"])
        print("VIOLATION property=C16 replay=%s" % path)
        print("  %s: %s" % (sig, text))
        return 1
    print("replay: history passes on the current tree")
    return 0
