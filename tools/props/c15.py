"""C15 - channel keys unique; metadata always matches the engines (DESIGN.md section 3, C15).

Flow of one run:
  1. design level: ChannelSvc.tla checked by TLC in the MASKED config (no deviation, no
     failure inside the engine-before-metadata window): every invariant must hold.
  2. as-is, one deviation at a time: ChannelSvcGen.tla with exactly one Dev_* constant
     TRUE must violate the clause that deviation is about; the shortest counterexample
     TLC prints (a history) is a DIRECTED SCRIPT.
  3. the directed scripts are replayed on the real cluster. The property oracle of the
     harness (real observations only) says whether the real code shows the deviation.
     That is a verdict (ctx.report) and at the same time calibrates which Dev_* constants
     describe the tree under test.
  4. ChannelSvcGen.tla with the calibrated constants generates behaviours (bounded
     exhaustive BFS for small alphabets, -simulate for wide ones); each is replayed on a
     fresh real cluster; after every request the harness (b) evaluates C15's clauses on
     the real metadata of every node and the real engine of every node (verdicts) and
     (a) compares outcome, returned keys, metadata and engines with the specification's
     post-state (drift -> inconclusive).
"""
import concurrent.futures
import json
import os
import re

import vlib

AREA = "channel"
HARNESS = ["zz_verif_channel_test.go"]

# deviation constant -> (what it is, signature regex the directed script must produce)
DEVS = {
    "Dev_DeleteSkipsVirtual": r"^C15 (CrossStore engine-extra|DeletedIsGone layer=engine op=\S+) kind=virtual after=delete:ok",
    "Dev_EngineCreateNoCleanup": r"^C15 CrossStore engine-extra kind=\w+ after=create\S*:fail",
    "Dev_EngineDeletePartial": r"^C15 CrossStore engine-missing kind=\w+ after=delete:fail",
    "Dev_OverwriteLocalEngine": r"^C15 (CrossStore engine-extra|DeletedIsGone layer=engine op=\S+) kind=(index|fixed|variable) after=create-overwrite\S*:ok other-lease=true",
    "Dev_CalcIndexTwice": r"^C15 NamesUnique how=auto-index-created-twice",
    "Dev_CalcIndexUnchecked": r"^C15 NamesUnique how=auto-index-collides",
    "Dev_FreeRenameStaleIndex": r"^C15 NamesUnique how=collides-with-free-channel-renamed-via-non-bootstrapper",
}

BASE = dict(Node="{1,2}", BaseName='{"a","b"}', ExtraName="{}",
            Kinds='{"index","fixed","virtual","free","calc"}', Opts='{"plain"}',
            MaxBatch=1, MaxReq=2, MaxCtr=12, MaxRestart=0,
            Types='{"create","delete","rename"}', Chain="FALSE", CtlRename="FALSE",
            InjectFail="FALSE", AnyPeerOrder="FALSE", Window_EngineBeforeMeta="TRUE")

# configuration in which each single deviation reaches its counterexample
CALIB = {
    "Dev_DeleteSkipsVirtual": dict(Node="{1}", BaseName='{"a"}', Kinds='{"virtual"}',
                                   Types='{"create","delete"}', MaxReq=2),
    "Dev_EngineCreateNoCleanup": dict(Node="{1}", Kinds='{"index","fixed"}', Types='{"create"}',
                                      MaxBatch=2, MaxReq=1),
    "Dev_EngineDeletePartial": dict(Node="{1}", BaseName='{"a","b","c"}', Kinds='{"index","fixed"}',
                                    Types='{"create","delete"}', MaxBatch=2, MaxReq=3),
    # judged after successful requests only: an overwrite that FAILS after the engine side
    # of deleteOverwritten ran is the (deviation independent) engine-before-metadata window
    "Dev_OverwriteLocalEngine": dict(BaseName='{"a"}', Kinds='{"index","free"}', Types='{"create"}',
                                     Opts='{"plain","overwrite"}', MaxReq=2, _inv="CexCrossStore"),
    # (with validated index names the doubled index makes the request fail instead)
    "Dev_CalcIndexTwice": dict(BaseName='{"a"}', Kinds='{"calc"}', Types='{"create"}', MaxReq=1,
                               _with=["Dev_CalcIndexUnchecked"]),
    "Dev_CalcIndexUnchecked": dict(Node="{1}", BaseName='{"a"}', ExtraName='{"a_time"}',
                                   Kinds='{"virtual","calc"}', Types='{"create"}', MaxReq=2),
    "Dev_FreeRenameStaleIndex": dict(Kinds='{"free"}', Types='{"create","rename"}', MaxReq=3),
}


def cfg(spec, consts, devs, invariants, depth=None, view=None):
    c = dict(BASE)
    c.update(consts)
    lines = ["SPECIFICATION %s" % spec, "CONSTANTS"]
    for k, v in c.items():
        lines.append("  %s = %s" % (k, v))
    for d in DEVS:
        lines.append("  %s = %s" % (d, "TRUE" if devs.get(d) else "FALSE"))
    if depth is not None:
        lines.append("  Depth = %d" % depth)
    lines += ["CONSTRAINT " + ("GBound" if spec == "GSpec" else "Bound")]
    if view:
        lines.append("VIEW " + view)
    lines += ["INVARIANTS " + " ".join(invariants), "CHECK_DEADLOCK FALSE", ""]
    return "\n".join(lines)


def nodes_of(consts):
    c = dict(BASE)
    c.update(consts)
    return c["Node"].count(",") + 1


def hists_of(res, tag="HIST"):
    for body in res.tagged(tag):
        if tag == "CEX":
            m = re.match(r'^"(\w+)", (.*)$', body)
            if not m:
                continue
            body = m.group(2)
        try:
            yield json.loads(json.loads(body))
        except Exception:
            continue


def stim_key(h):
    return json.dumps([[s["t"], s["g"], s["opt"], s["ents"], s["cut"], s["n"]] for s in h], sort_keys=True)


def run_replay(ctx, hists, tag, workers=6, quiesce_s=30, timeout=1500):
    """hists: list of dicts {id, nodes, steps}. Returns (summary, rows)."""
    inp = ctx.path("in_%s.ndjson" % tag)
    out = ctx.path("out_%s.ndjson" % tag)
    with open(inp, "w") as f:
        for h in hists:
            f.write(json.dumps(h, separators=(",", ":")) + "\n")
    rc, text, wall = ctx.go_test(
        "core", "./pkg/distribution/mock", HARNESS, "^TestVerifChannelReplay$",
        env={"VERIF_IN": inp, "VERIF_OUT": out, "VERIF_WORKERS": workers, "VERIF_QUIESCE_S": quiesce_s},
        tag="go_" + tag, timeout=timeout)
    rows = ctx.read_ndjson(out)
    summ = [r for r in rows if r.get("summary")]
    if rc != 0 or not summ:
        raise vlib.Inconclusive("channel replay harness failed rc=%s (%s):\n%s" % (rc, tag, text[-2500:]))
    if summ[0]["replayed"] != len(hists):
        raise vlib.Inconclusive("replayed %s of %s histories" % (summ[0]["replayed"], len(hists)))
    summ[0]["go_wall_s"] = round(wall, 1)
    return summ[0], [r for r in rows if not r.get("summary")]


def design_checks(ctx, thorough):
    """masked exhaustive runs: all invariants must hold."""
    inv = ["TypeOK", "KeysUniqueNeverReused", "KeyEmbedsLease", "NamesUnique", "CrossStore",
           "DeletedIsGone", "OntoMatches"]
    masked = dict(InjectFail="TRUE", AnyPeerOrder="TRUE", Window_EngineBeforeMeta="FALSE")
    runs = [
        ("mc_kinds", dict(masked, Kinds='{"index","fixed","variable","virtual","free","calc","badtype"}',
                          ExtraName='{"a_time"}', MaxReq=2)),
        ("mc_opts", dict(masked, Node="{1,2}", Kinds='{"index","virtual","free"}' if thorough else '{"index","virtual"}',
                         Opts='{"plain","retrieve","overwrite"}', Types='{"create","delete"}',
                         MaxBatch=2, MaxReq=2, InjectFail="FALSE")),
        ("mc_three", dict(masked, Node="{1,2,3}", BaseName='{"a"}', Kinds='{"index","fixed","virtual","free"}',
                          MaxBatch=2 if thorough else 1, MaxReq=2, Chain="TRUE")),
    ]
    if thorough:
        # small config in which every action can fire, run with -coverage (vacuity guard)
        runs.append(("mc_cov", dict(masked, BaseName='{"a"}', Kinds='{"index","virtual","free","calc"}',
                                    Opts='{"plain","retrieve","overwrite"}', MaxBatch=2, MaxReq=2, MaxRestart=1,
                                    Chain="TRUE")))
        runs.append(("mc_deep", dict(masked, Kinds='{"index","fixed","virtual","calc"}', MaxReq=3,
                                     Opts='{"plain","overwrite"}', InjectFail="FALSE")))
        # every deviation repaired, failures driven by invalid inputs allowed ANYWHERE (no masking):
        # shows that single requests without the overwrite option have no other window
        runs.append(("mc_inputs", dict(Window_EngineBeforeMeta="TRUE", AnyPeerOrder="TRUE",
                                       Kinds='{"index","fixed","virtual","free","calc"}', ExtraName='{"a_time"}',
                                       Opts='{"plain","retrieve"}', MaxBatch=2, MaxReq=2)))
    res = []

    def one(item):
        tag, consts = item
        return tag, ctx.tlc(AREA, "ChannelSvc", tag + ".cfg", files={tag + ".cfg": cfg("Spec", consts, {}, inv)},
                            tag=tag, workers=5 if thorough else 3, timeout=2400,
                            coverage=(tag == "mc_cov"))
    ctx.spec_copy(AREA)
    with concurrent.futures.ThreadPoolExecutor(max_workers=5 if thorough else 3) as ex:
        for tag, r in ex.map(one, runs):
            if r.violated:
                raise vlib.Inconclusive(
                    "design: masked config %s violates %s - a window outside the named deviations "
                    "(see build dir %s.out)" % (tag, r.violated, tag))
            res.append({"config": tag, "distinct": r.distinct, "generated": r.generated,
                        "depth": r.depth, "wall_s": round(r.wall, 1),
                        "zero_coverage": sorted(set(r.coverage_zero))[:10]})
    return res


def directed_scripts(ctx):
    """one as-is run per deviation; returns {dev: history} (TLC's shortest counterexample)."""
    # failing-request windows are searched with the strict clause (after every completed
    # request); whether the real code shows them is read from the harness' `pending` list
    inv = ["CexCrossStoreStrict", "CexNamesUnique", "CexKeysUnique", "CexDeletedIsGone"]
    out = {}
    stats = []
    ctx.spec_copy(AREA)

    def one(d):
        consts = {k: v for k, v in CALIB[d].items() if not k.startswith("_")}
        on = {d: True}
        for w in CALIB[d].get("_with", []):
            on[w] = True
        c = dict(BASE)
        c.update(consts)
        myinv = [CALIB[d].get("_inv", inv[0])] + inv[1:]
        r = ctx.tlc(AREA, "ChannelSvcGen", "cex_%s.cfg" % d,
                    files={"cex_%s.cfg" % d: cfg("GSpec", consts, on, myinv, depth=c["MaxReq"], view="NoHist")},
                    tag="cex_" + d, workers=2, timeout=900, expect_violation=True)
        return d, r
    with concurrent.futures.ThreadPoolExecutor(max_workers=4) as ex:
        for d, r in ex.map(one, list(DEVS)):
            hs = list(hists_of(r, "CEX"))
            if not hs:
                raise vlib.Inconclusive("design: deviation %s alone does not violate any clause within its "
                                        "calibration bounds (vacuous deviation constant)" % d)
            hs.sort(key=len)
            out[d] = {"nodes": nodes_of(CALIB[d]), "steps": hs[0]}
            stats.append({"deviation": d, "violated": r.violated, "cex_len": len(hs[0]),
                          "distinct": r.distinct, "wall_s": round(r.wall, 1)})
    return out, stats


def confirm(ctx, hist, tag):
    """re-run one history from scratch; returns its row (or None when it passes)."""
    summ, rows = run_replay(ctx, [dict(hist, id=0)], tag, workers=1)
    return rows[0] if rows else None


def sigs_of(row):
    return [v["sig"] for v in (row.get("viol") or [])]


def judge(ctx, rows, by_id, tag, notes):
    """Reproduce (one batched re-run from scratch) and route verdicts through ctx.report.
    Returns the list of reproduced drift / inconclusive rows."""
    by_sig = {}
    other = []
    for row in rows:
        if row["r"] == "viol":
            for v in row["viol"]:
                by_sig.setdefault(v["sig"], []).append((row, v))
        elif row["r"] in ("drift", "inconclusive"):
            other.append(row)
    if not by_sig and not other:
        return []
    # first two examples of every signature + up to 6 drift / inconclusive rows
    want = {}
    for sig, lst in by_sig.items():
        for row, v in lst[:2]:
            want.setdefault(row["id"], set()).add(sig)
    for row in other[:6]:
        want.setdefault(row["id"], set())
    ids = sorted(want)
    again_h = [dict(by_id[i], id=n) for n, i in enumerate(ids)]
    summ, rows2 = run_replay(ctx, again_h, "repro_" + tag, workers=4)
    again = {ids[r["id"]]: r for r in rows2}
    reproduced = set()
    for i in ids:
        r2 = again.get(i)
        if r2 is not None and r2["r"] == "viol":
            reproduced |= set(sigs_of(r2)) & want[i]
    for sig, lst in by_sig.items():
        if sig not in reproduced:
            notes.append("violation %r did not reproduce on re-run (%d histories); not reported" % (sig, len(lst)))
            continue
        row, v = lst[0]
        ctx.report(sig, v["what"], {
            "history": by_id[row["id"]], "violation": v, "log": row.get("log"),
            "histories_with_this_signature": len(lst),
            "cmd": "python3 tools/verif.py replay C15 <this file>"})
    real = []
    for row in other[:6]:
        r2 = again.get(row["id"])
        if r2 is not None and r2["r"] in ("drift", "inconclusive"):
            real.append((by_id[row["id"]], r2))
        else:
            notes.append("non-reproducing %s (%s): %s | %s" % (row["r"], tag, json.dumps(row.get("drift") or row.get("note"))[:300],
                                                                  " ; ".join(row.get("log") or [])[:700]))
    if len(other) > 6:
        notes.append("%d further drift/inconclusive rows in %s not re-run" % (len(other) - 6, tag))
    return real


def refused_batch_rename(h):
    """stratum: behaviours with a multi-entry rename the metadata update refuses."""
    return any(st["t"] == "rename" and len(st["ents"]) >= 2 and st["res"] == "fail" and st["why"] == "not-found"
               for st in h)


def pick(allh, prof, seed):
    """seeded sample; half of it from the profile's preferred stratum when it has one."""
    n = prof.get("sample")
    if not n or len(allh) <= n:
        return allh
    pref = prof.get("prefer")
    if not pref:
        return vlib.sample(allh, n, seed)
    a = [h for h in allh if pref(h)]
    b = [h for h in allh if not pref(h)]
    take = vlib.sample(a, n // 2, seed)
    return take + vlib.sample(b, n - len(take), seed)


# Names are opaque strings to the service: validateChannelNames and the name index compare
# them exactly, ValidateName accepts ^[a-zA-Z_][a-zA-Z0-9_]*$. A pair that differs only in
# letter case is therefore two distinct valid names (create of the twin succeeds, rename to
# the twin is a real rename that both stores must apply).
TWINS = '{"Na","na"}'


def gen_profiles(thorough):
    allk = '{"index","fixed","variable","virtual","free","calc","badtype"}'
    opts = '{"plain","retrieve","overwrite"}'
    p = []
    # bounded-exhaustive (BFS): every behaviour of the small alphabet
    p.append(dict(name="bfs2", mode="bfs", sample=None if thorough else 500,
                  consts=dict(BaseName=TWINS, MaxReq=2, MaxRestart=1), depth=2))
    p.append(dict(name="bfs_del", mode="bfs", sample=6000 if thorough else 350,
                  consts=dict(Node="{1,2}", BaseName='{"a"}', Kinds='{"index","virtual","free"}',
                              Types='{"create","delete","rename"}', ExtraName='{"A"}', MaxReq=3), depth=3))
    # every engine-backed kind created and deleted (fixed- and variable-density data, index)
    for nm, kinds in (("bfs_fixed", '{"index","fixed"}'), ("bfs_variable", '{"index","variable"}')):
        p.append(dict(name=nm, mode="bfs", sample=2500 if thorough else 300,
                      consts=dict(Node="{1,2}" if thorough else "{1}", BaseName='{"a","b"}', Kinds=kinds,
                                  Types='{"create","delete"}', MaxReq=3), depth=3))
    # options on batches of two
    p.append(dict(name="bfs_opts", mode="bfs", sample=None if thorough else 300,
                  consts=dict(Node="{1}", BaseName='{"a","b"}', Kinds='{"index","virtual"}',
                              Opts=opts, Types='{"create"}', MaxBatch=2, MaxReq=2), depth=2))
    # restarts: counters, engine directories and names must survive (on-disk storage)
    p.append(dict(name="bfs_restart", mode="bfs", sample=None,
                  consts=dict(Node="{1}", BaseName='{"a"}', Kinds='{"index"}', Types='{"create","delete"}',
                              MaxReq=5, MaxRestart=1), depth=5))
    p.append(dict(name="bfs_rename_restart", mode="bfs", sample=None,
                  consts=dict(Node="{1,2}" if thorough else "{1}", BaseName=TWINS, Kinds='{"index","virtual"}',
                              Types='{"create","rename"}', MaxReq=3, MaxRestart=1), depth=3))
    # free channels renamed through either node, bootstrapper restarts in between
    p.append(dict(name="bfs_free_rename", mode="bfs", sample=1500 if thorough else 150,
                  consts=dict(Node="{1,2}", BaseName='{"a"}', ExtraName='{"A"}', Kinds='{"free"}',
                              Types='{"create","rename"}', MaxReq=4, MaxRestart=1), depth=4))
    # renames that must be REFUSED after valid entries of the same batch: an internal channel
    # (allowInternal=false), a key that is not a channel any more; batches mixing leaseholders
    p.append(dict(name="bfs_rename_internal", mode="bfs", sample=None if thorough else 250, prefer=refused_batch_rename,
                  consts=dict(Node="{1,2}", BaseName='{"a"}', ExtraName='{"b"}', Kinds='{"virtual"}',
                              Types='{"create","rename"}', MaxBatch=2, MaxReq=2, CtlRename="TRUE"), depth=2))
    p.append(dict(name="bfs_rename_missing", mode="bfs", sample=3000 if thorough else 300, prefer=refused_batch_rename,
                  consts=dict(Node="{1}", BaseName='{"a","b"}', ExtraName='{"c"}', Kinds='{"virtual"}',
                              Types='{"create","delete","rename"}', MaxBatch=2, MaxReq=3), depth=3))
    p.append(dict(name="sim_rename", mode="sim", num=2500 if thorough else 500,
                  consts=dict(Node="{1,2}", BaseName='{"a","b"}', ExtraName='{"A"}', Kinds='{"index","virtual"}',
                              MaxBatch=2, MaxReq=5, MaxCtr=24, CtlRename="TRUE"), depth=5))
    # two CreateMany calls inside one caller transaction
    p.append(dict(name="bfs_chain", mode="bfs", sample=3000 if thorough else 200,
                  consts=dict(Node="{1,2}", BaseName='{"a","b"}' if thorough else '{"a"}',
                              Kinds='{"index","virtual","free"}', Types='{"create"}',
                              Chain="TRUE", MaxReq=2), depth=2))
    # wide random walks
    p.append(dict(name="sim3", mode="sim", num=2500 if thorough else 400,
                  consts=dict(Node="{1,2,3}", BaseName='{"a","b","A"}', ExtraName='{"a_time"}', Kinds=allk,
                              Opts=opts, MaxBatch=2, MaxReq=5, MaxCtr=24, MaxRestart=1, Chain="TRUE", CtlRename="TRUE"),
                  depth=5))
    p.append(dict(name="sim2", mode="sim", num=2500 if thorough else 400,
                  consts=dict(Node="{1,2}", BaseName='{"a","b"}', ExtraName='{"a_time"}', Kinds=allk,
                              Opts=opts, MaxBatch=3 if thorough else 2, MaxReq=6 if thorough else 4, MaxCtr=30,
                              MaxRestart=0, Chain="TRUE"),
                  depth=6 if thorough else 4))
    if thorough:
        p.append(dict(name="bfs3_opts", mode="bfs", sample=4000,
                      consts=dict(BaseName='{"a"}', Kinds='{"index","virtual","free"}', Opts=opts,
                                  Types='{"create","delete"}', MaxReq=3), depth=3))
        p.append(dict(name="bfs3_calc", mode="bfs", sample=4000,
                      consts=dict(BaseName='{"a"}', ExtraName='{"a_time"}', Kinds='{"index","virtual","calc"}',
                                  Opts='{"plain","overwrite"}', Types='{"create","delete"}', MaxReq=3), depth=3))
        p.append(dict(name="sim1", mode="sim", num=1500,
                      consts=dict(Node="{1}", BaseName='{"a","b"}', ExtraName='{"a_time"}', Kinds=allk,
                                  Opts=opts, MaxBatch=3, MaxReq=7, MaxCtr=40, MaxRestart=2, Chain="TRUE"),
                      depth=7))
    return p


def generate(ctx, prof, devs):
    tag = prof["name"]
    text = cfg("GSpec", prof["consts"], devs, ["Emit"], depth=prof["depth"])
    if prof["mode"] == "bfs":
        r = ctx.tlc(AREA, "ChannelSvcGen", tag + ".cfg", files={tag + ".cfg": text}, tag=tag,
                    workers=3, timeout=2400, heap="4g")
    else:
        r = ctx.tlc(AREA, "ChannelSvcGen", tag + ".cfg", files={tag + ".cfg": text}, tag=tag,
                    workers=2, timeout=2400, simulate="num=%d" % prof["num"], depth=600)
    uniq = {}
    for h in hists_of(r):
        uniq.setdefault(stim_key(h), h)
    return prof, r, list(uniq.values())


def run(ctx):
    import time
    thorough = ctx.tier == "thorough"
    notes = ctx.notes
    phases = {}
    t_phase = [time.time()]

    def phase(name):
        now = time.time()
        phases[name] = round(now - t_phase[0], 1)
        t_phase[0] = now
        if os.environ.get("VERIF_DEBUG"):
            print("[c15] phase %s %.1fs" % (name, phases[name]), flush=True)
    ctx.spec_copy(AREA)
    # 1. design level, masked  ||  2. as-is, one deviation at a time -> directed scripts
    with concurrent.futures.ThreadPoolExecutor(max_workers=2) as ex:
        f1 = ex.submit(design_checks, ctx, thorough)
        f2 = ex.submit(directed_scripts, ctx)
        design = f1.result()
        scripts, cex_stats = f2.result()
    zero = [z for d in design for z in d.get("zero_coverage", [])]
    phase("design+as-is")
    # 3. directed scripts on the real code: verdicts + calibration
    devs = {}
    order = list(DEVS)
    hs = [dict(scripts[d], id=i) for i, d in enumerate(order)]
    by_id = {h["id"]: h for h in hs}
    summ, rows = run_replay(ctx, hs, "directed", workers=4)
    rowmap = {r["id"]: r for r in rows}
    for i, d in enumerate(order):
        row = rowmap.get(i)
        if row is not None and row["r"] == "inconclusive":
            again = confirm(ctx, by_id[i], "directed_retry_%d" % i)
            if again is not None and again["r"] == "inconclusive":
                raise vlib.Inconclusive("directed script for %s is inconclusive: %s" % (d, again.get("note")))
            row = again
            if row is not None:
                row["id"] = i
            rowmap[i] = row
        sigs = [v["sig"] for v in ((row or {}).get("viol") or []) + ((row or {}).get("pending") or [])]
        devs[d] = any(re.search(DEVS[d], s) for s in sigs)
    judge(ctx, [r for r in rowmap.values() if r], by_id, "directed", notes)
    calibration = {d: ("present" if v else "absent") for d, v in devs.items()}
    phase("directed-replay")
    # 4. behaviours generated with the calibrated constants, all replayed in one harness run
    profs = gen_profiles(thorough)
    with concurrent.futures.ThreadPoolExecutor(max_workers=4 if thorough else 7) as ex:
        results = list(ex.map(lambda p: generate(ctx, p, devs), profs))
    phase("generate")
    states = sum(d["distinct"] for d in design)
    trans = sum(d["generated"] for d in design)
    exhaustive_all = True
    samples = []
    gens = []
    hs = []
    prof_of = {}
    for prof, r, allh in results:
        tag = prof["name"]
        if not allh:
            raise vlib.Inconclusive("profile %s generated no behaviour" % tag)
        chosen = pick(allh, prof, ctx.seed)
        if len(chosen) < len(allh):
            exhaustive_all = False
        if prof["mode"] == "sim":
            exhaustive_all = False
        n = nodes_of(prof["consts"])
        for h in chosen:
            prof_of[len(hs)] = tag
            hs.append({"id": len(hs), "nodes": n, "steps": h})
        if len(samples) < 3:
            samples.append([{k: s[k] for k in ("t", "g", "opt", "ents", "cut", "res", "why", "ret")}
                            for s in chosen[len(chosen) // 2]])
        gens.append({"profile": tag, "mode": prof["mode"], "generated": len(allh), "replayed": len(chosen),
                     "tlc_states": r.distinct or r.generated, "tlc_wall_s": round(r.wall, 1)})
        if prof["mode"] == "bfs":
            states += r.distinct
            trans += r.generated
    by_id = {h["id"]: h for h in hs}
    summ, rows = run_replay(ctx, hs, "main", workers=8 if thorough else 6, timeout=3000)
    mech = dict(summ["counts"])
    per_prof = {}
    for row in rows:
        d = per_prof.setdefault(prof_of[row["id"]], {})
        d[row["r"]] = d.get(row["r"], 0) + 1
    for g in gens:
        g["non_ok_rows"] = per_prof.get(g["profile"], {})
    phase("replay")
    real_drift = judge(ctx, rows, by_id, "main", notes)
    phase("reproduce")
    cov = {
        "states": states, "transitions": trans,
        "traces_validated_against_impl": len(hs) + len(order),
        "samples": samples,
        "exhaustive": exhaustive_all,
        "design_runs": design,
        "as_is_counterexamples": cex_stats,
        "calibration": calibration,
        "phase_wall_s": phases,
        "generation": gens,
        "replay_go_wall_s": summ["go_wall_s"],
        "outcomes": {k: v for k, v in sorted(mech.items()) if not k.startswith("stat:")},
        "mechanisms": {k[5:]: v for k, v in sorted(mech.items()) if k.startswith("stat:")},
        "rule": "masked design check of ChannelSvc.tla (all clauses, failure injection after every step, any peer order); "
                "one as-is run per named deviation whose shortest counterexample is replayed on the real cluster; "
                "TLC-generated behaviours (BFS-exhaustive small alphabets incl. restarts and chained creates, "
                "random walks over 3 nodes x all kinds x all options) replayed on a fresh real 1-3 node cluster each, "
                "with metadata of every node and engine of every node compared after every request",
        "notes": notes,
    }
    need = ["stat:req:create:ok", "stat:req:create:fail", "stat:req:delete:ok", "stat:req:rename:ok",
            "stat:restarts", "stat:gone-checks", "stat:created"]
    missing = [k for k in need if not mech.get(k)]
    rc = ctx.finish("model_checking", cov, [
        "TLC/SANY 1.8.0; in-memory freighter transports; aspen gossip awaited by polling every node's table "
        "and name index (timeout = inconclusive)",
        "requests are issued one at a time with quiescence in between (C15 quantifies over sequences)",
        "restart = close and reopen of a node's distribution and storage layers on the same directory",
    ])
    if rc == 0 and real_drift and not ctx.known_hits:
        h, row = real_drift[0]
        ctx.save_replay({"history": h, "row": row}, name="drift-%s-%d.json" % (ctx.tier, ctx.seed))
        raise vlib.Inconclusive("DRIFT: real code and specification disagree on %s (not a statement of C15): %s" % (
            (row.get("drift") or {}).get("what", "propagation"), json.dumps(row.get("drift") or row.get("note"))[:600]))
    if rc == 0 and real_drift:
        h, row = real_drift[0]
        fn = ctx.save_replay({"history": h, "row": row}, name="drift-%s-%d.json" % (ctx.tier, ctx.seed))
        print("NOTE property=C15 drift next to known findings (%s): %s" % (
            fn, json.dumps(row.get("drift") or row.get("note"))[:400]))
    if rc == 0 and (missing or zero):
        raise vlib.Inconclusive("vacuity: mechanisms never exercised %s; spec actions never taken %s" % (missing, zero))
    return rc


def replay(ctx, path):
    with open(path) as f:
        obj = json.load(f)
    h = dict(obj["history"], id=0)
    row = confirm(ctx, h, "replay")
    if row is not None and row["r"] == "viol":
        print("VIOLATION property=C15 replay=%s" % path)
        for v in row["viol"]:
            print("  [%s] %s" % (v["sig"], v["what"]))
        return 1
    if row is not None:
        print("replay: %s %s" % (row["r"], json.dumps(row.get("drift") or row.get("note"))))
        return 2
    print("replay: history passes on the current tree")
    return 0


def selftest(ctx):
    """Binding self-test: a behaviour the specification generated must pass unchanged and
    must be rejected (drift) when one recorded field is corrupted."""
    import copy
    consts = dict(Node="{1,2}", BaseName='{"a"}', Kinds='{"index","virtual"}', Types='{"create","rename"}',
                  ExtraName='{"b"}', MaxReq=2)
    ctx.spec_copy(AREA)
    r = ctx.tlc(AREA, "ChannelSvcGen", "self.cfg", files={"self.cfg": cfg("GSpec", consts, {}, ["Emit"], depth=2)},
                tag="self", workers=2)
    base = None
    for h in hists_of(r):
        if [s["t"] for s in h] == ["create", "rename"] and all(s["res"] == "ok" for s in h) \
                and h[0]["ents"][0]["kind"] == "index" and h[0]["ents"][0]["lease"] == 2:
            base = h
            break
    if base is None:
        raise vlib.Inconclusive("selftest: no suitable behaviour generated")
    variants = [("unchanged", base)]
    v = copy.deepcopy(base)
    v[1]["meta"][0]["name"] = "zz"
    variants.append(("metadata name corrupted", v))
    v = copy.deepcopy(base)
    v[0]["ret"][0]["key"]["c"] += 1
    variants.append(("returned key corrupted", v))
    v = copy.deepcopy(base)
    v[1]["res"] = "fail"
    variants.append(("outcome flipped", v))
    v = copy.deepcopy(base)
    v[0]["eng"][1] = []
    variants.append(("engine entry dropped", v))
    hs = [{"id": i, "nodes": 2, "steps": h} for i, (_, h) in enumerate(variants)]
    summ, rows = run_replay(ctx, hs, "self", workers=2)
    got = {row["id"]: row["r"] for row in rows}
    ok = True
    for i, (name, _) in enumerate(variants):
        res = got.get(i, "ok")
        want = "ok" if i == 0 else "drift"
        print("selftest %-28s -> %s (want %s)" % (name, res, want))
        ok = ok and res == want
    import shutil
    shutil.rmtree(ctx.build, ignore_errors=True)
    return 0 if ok else 1
