"""C15 - channel keys unique; metadata always matches the engines (DESIGN.md section 3, C15).

Flow of one run:
  1. design level: ChannelSvc.tla checked by TLC in the MASKED config (no deviation, no
     failure inside the engine-before-metadata window): every invariant must hold.
  2. as-is, one deviation at a time: ChannelSvcGen.tla with exactly one Dev_* constant
     TRUE must violate the clause that deviation is about; the shortest counterexample
     TLC prints (a history) is a DIRECTED SCRIPT.
  3. the directed scripts are replayed on the real cluster. The property oracle of the
     harness (real observations only) says whether the real code shows the deviation.
     That is a verdict (ctx.report) and at the same time calibrates which Dev_* constants
     describe the tree under test.
  4. ChannelSvcGen.tla with the calibrated constants generates behaviours (bounded
     exhaustive BFS for small alphabets, -simulate for wide ones); each is replayed on a
     fresh real cluster; after every request the harness (b) evaluates C15's clauses on
     the real metadata of every node and the real engine of every node (verdicts) and
     (a) compares outcome, returned keys, metadata and engines with the specification's
     post-state (drift -> inconclusive).
"""
import concurrent.futures
import json
import os
import re

import vlib

AREA = "channel"
HARNESS = ["zz_verif_channel_test.go"]

# deviation constant -> (what it is, signature regex the directed script must produce)
DEVS = {
    "Dev_DeleteSkipsVirtual": r"^C15 (CrossStore engine-extra|DeletedIsGone layer=engine op=\S+) kind=virtual after=delete:ok",
    "Dev_EngineCreateNoCleanup": r"^C15 CrossStore engine-extra kind=\w+ after=create\S*:fail",
    "Dev_EngineDeletePartial": r"^C15 CrossStore engine-missing kind=\w+ after=delete:fail",
    "Dev_OverwriteLocalEngine": r"^C15 (CrossStore engine-extra|DeletedIsGone layer=engine op=\S+) kind=(index|fixed|variable) after=create-overwrite\S*:ok other-lease=true",
    "Dev_CalcIndexTwice": r"^C15 NamesUnique how=auto-index-created-twice",
    "Dev_CalcIndexUnchecked": r"^C15 NamesUnique how=auto-index-collides",
    "Dev_FreeRenameStaleIndex": r"^C15 NamesUnique how=user after=\S+:ok gateway-is-bootstrapper=true",
}

BASE = dict(Node="{1,2}", BaseName='{"a","b"}', ExtraName="{}",
            Kinds='{"index","fixed","virtual","free","calc"}', Opts='{"plain"}',
            MaxBatch=1, MaxReq=2, MaxCtr=12, MaxRestart=0,
            Types='{"create","delete","rename"}', Chain="FALSE",
            InjectFail="FALSE", AnyPeerOrder="FALSE", Window_EngineBeforeMeta="TRUE")

# configuration in which each single deviation reaches its counterexample
CALIB = {
    "Dev_DeleteSkipsVirtual": dict(Node="{1}", BaseName='{"a"}', Kinds='{"virtual"}',
                                   Types='{"create","delete"}', MaxReq=2),
    "Dev_EngineCreateNoCleanup": dict(Node="{1}", Kinds='{"index","fixed"}', Types='{"create"}',
                                      MaxBatch=2, MaxReq=1),
    "Dev_EngineDeletePartial": dict(Node="{1}", BaseName='{"a","b","c"}', Kinds='{"index","fixed"}',
                                    Types='{"create","delete"}', MaxBatch=2, MaxReq=3),
    # judged after successful requests only: an overwrite that FAILS after the engine side
    # of deleteOverwritten ran is the (deviation independent) engine-before-metadata window
    "Dev_OverwriteLocalEngine": dict(BaseName='{"a"}', Kinds='{"index","free"}', Types='{"create"}',
                                     Opts='{"plain","overwrite"}', MaxReq=2, _inv="CexCrossStore"),
    # (with validated index names the doubled index makes the request fail instead)
    "Dev_CalcIndexTwice": dict(BaseName='{"a"}', Kinds='{"calc"}', Types='{"create"}', MaxReq=1,
                               _with=["Dev_CalcIndexUnchecked"]),
    "Dev_CalcIndexUnchecked": dict(Node="{1}", BaseName='{"a"}', ExtraName='{"a_time"}',
                                   Kinds='{"virtual","calc"}', Types='{"create"}', MaxReq=2),
    "Dev_FreeRenameStaleIndex": dict(Kinds='{"free"}', Types='{"create","rename"}', MaxReq=3),
}


def cfg(spec, consts, devs, invariants, depth=None, view=None):
    c = dict(BASE)
    c.update(consts)
    lines = ["SPECIFICATION %s" % spec, "CONSTANTS"]
    for k, v in c.items():
        lines.append("  %s = %s" % (k, v))
    for d in DEVS:
        lines.append("  %s = %s" % (d, "TRUE" if devs.get(d) else "FALSE"))
    if depth is not None:
        lines.append("  Depth = %d" % depth)
    lines += ["CONSTRAINT " + ("GBound" if spec == "GSpec" else "Bound")]
    if view:
        lines.append("VIEW " + view)
    lines += ["INVARIANTS " + " ".join(invariants), "CHECK_DEADLOCK FALSE", ""]
    return "\n".join(lines)


def nodes_of(consts):
    c = dict(BASE)
    c.update(consts)
    return c["Node"].count(",") + 1


def hists_of(res, tag="HIST"):
    for body in res.tagged(tag):
        if tag == "CEX":
            m = re.match(r'^"(\w+)", (.*)$', body)
            if not m:
                continue
            body = m.group(2)
        try:
            yield json.loads(json.loads(body))
        except Exception:
            continue


def stim_key(h):
    return json.dumps([[s["t"], s["g"], s["opt"], s["ents"], s["cut"], s["n"]] for s in h], sort_keys=True)


def run_replay(ctx, hists, tag, workers=6, quiesce_s=30, timeout=1500):
    """hists: list of dicts {id, nodes, steps}. Returns (summary, rows)."""
    inp = ctx.path("in_%s.ndjson" % tag)
    out = ctx.path("out_%s.ndjson" % tag)
    with open(inp, "w") as f:
        for h in hists:
            f.write(json.dumps(h, separators=(",", ":")) + "\n")
    rc, text, wall = ctx.go_test(
        "core", "./pkg/distribution/mock", HARNESS, "^TestVerifChannelReplay$",
        env={"VERIF_IN": inp, "VERIF_OUT": out, "VERIF_WORKERS": workers, "VERIF_QUIESCE_S": quiesce_s},
        tag="go_" + tag, timeout=timeout)
    rows = ctx.read_ndjson(out)
    summ = [r for r in rows if r.get("summary")]
    if rc != 0 or not summ:
        raise vlib.Inconclusive("channel replay harness failed rc=%s (%s):\n%s" % (rc, tag, text[-2500:]))
    if summ[0]["replayed"] != len(hists):
        raise vlib.Inconclusive("replayed %s of %s histories" % (summ[0]["replayed"], len(hists)))
    summ[0]["go_wall_s"] = round(wall, 1)
    return summ[0], [r for r in rows if not r.get("summary")]


def design_checks(ctx, thorough):
    """masked exhaustive runs: all invariants must hold."""
    inv = ["TypeOK", "KeysUniqueNeverReused", "KeyEmbedsLease", "NamesUnique", "CrossStore",
           "DeletedIsGone", "OntoMatches"]
    masked = dict(InjectFail="TRUE", AnyPeerOrder="TRUE", Window_EngineBeforeMeta="FALSE")
    runs = [
        ("mc_kinds", dict(masked, Kinds='{"index","fixed","variable","virtual","free","calc","badtype"}',
                          ExtraName='{"a_time"}', MaxReq=2)),
        ("mc_opts", dict(masked, Node="{1,2}", Kinds='{"index","virtual","free"}' if thorough else '{"index","virtual"}',
                         Opts='{"plain","retrieve","overwrite"}', Types='{"create","delete"}',
                         MaxBatch=2, MaxReq=2, InjectFail="FALSE")),
        ("mc_three", dict(masked, Node="{1,2,3}", BaseName='{"a"}', Kinds='{"index","fixed","virtual","free"}',
                          MaxBatch=2 if thorough else 1, MaxReq=3 if thorough else 2, Chain="TRUE")),
    ]
    if thorough:
        runs.append(("mc_deep", dict(masked, Kinds='{"index","fixed","virtual","calc"}', MaxReq=3,
                                     Opts='{"plain","overwrite"}', InjectFail="FALSE")))
    res = []

    def one(item):
        tag, consts = item
        return tag, ctx.tlc(AREA, "ChannelSvc", tag + ".cfg", files={tag + ".cfg": cfg("Spec", consts, {}, inv)},
                            tag=tag, workers=4 if thorough else 3, timeout=1500,
                            coverage=(thorough and tag == "mc_kinds"))
    ctx.spec_copy(AREA)
    with concurrent.futures.ThreadPoolExecutor(max_workers=3) as ex:
        for tag, r in ex.map(one, runs):
            if r.violated:
                raise vlib.Inconclusive(
                    "design: masked config %s violates %s - a window outside the named deviations "
                    "(see build dir %s.out)" % (tag, r.violated, tag))
            res.append({"config": tag, "distinct": r.distinct, "generated": r.generated,
                        "depth": r.depth, "wall_s": round(r.wall, 1),
                        "zero_coverage": r.coverage_zero[:10]})
    return res


def directed_scripts(ctx):
    """one as-is run per deviation; returns {dev: history} (TLC's shortest counterexample)."""
    # failing-request windows are searched with the strict clause (after every completed
    # request); whether the real code shows them is read from the harness' `pending` list
    inv = ["CexCrossStoreStrict", "CexNamesUnique", "CexKeysUnique", "CexDeletedIsGone"]
    out = {}
    stats = []
    ctx.spec_copy(AREA)

    def one(d):
        consts = {k: v for k, v in CALIB[d].items() if not k.startswith("_")}
        on = {d: True}
        for w in CALIB[d].get("_with", []):
            on[w] = True
        c = dict(BASE)
        c.update(consts)
        myinv = [CALIB[d].get("_inv", inv[0])] + inv[1:]
        r = ctx.tlc(AREA, "ChannelSvcGen", "cex_%s.cfg" % d,
                    files={"cex_%s.cfg" % d: cfg("GSpec", consts, on, myinv, depth=c["MaxReq"], view="NoHist")},
                    tag="cex_" + d, workers=2, timeout=900, expect_violation=True)
        return d, r
    with concurrent.futures.ThreadPoolExecutor(max_workers=4) as ex:
        for d, r in ex.map(one, list(DEVS)):
            hs = list(hists_of(r, "CEX"))
            if not hs:
                raise vlib.Inconclusive("design: deviation %s alone does not violate any clause within its "
                                        "calibration bounds (vacuous deviation constant)" % d)
            hs.sort(key=len)
            out[d] = {"nodes": nodes_of(CALIB[d]), "steps": hs[0]}
            stats.append({"deviation": d, "violated": r.violated, "cex_len": len(hs[0]),
                          "distinct": r.distinct, "wall_s": round(r.wall, 1)})
    return out, stats


def confirm(ctx, hist, tag):
    """re-run one history from scratch; returns its row (or None when it passes)."""
    summ, rows = run_replay(ctx, [dict(hist, id=0)], tag, workers=1)
    return rows[0] if rows else None


def report_rows(ctx, rows, by_id, tag, notes, confirmed):
    """route harness verdict rows through ctx.report after a reproduction run.
    Returns number of distinct signatures reported."""
    seen = {}
    for row in rows:
        if row["r"] != "viol":
            continue
        for v in row["viol"]:
            seen.setdefault(v["sig"], []).append((row, v))
    for sig, lst in seen.items():
        if sig in confirmed:
            status = confirmed[sig]
        else:
            row, v = lst[0]
            again = confirm(ctx, by_id[row["id"]], "repro_%s_%d" % (tag, len(confirmed)))
            ok = again is not None and again["r"] == "viol" and any(x["sig"] == sig for x in again["viol"])
            if not ok and len(lst) > 1:
                row, v = lst[1]
                again = confirm(ctx, by_id[row["id"]], "repro2_%s_%d" % (tag, len(confirmed)))
                ok = again is not None and again["r"] == "viol" and any(x["sig"] == sig for x in again["viol"])
            status = confirmed[sig] = "yes" if ok else "no"
            if not ok:
                notes.append("violation %r did not reproduce on re-run (%d histories)" % (sig, len(lst)))
        if status != "yes":
            continue
        row, v = lst[0]
        ctx.report(sig, v["what"], {
            "history": by_id[row["id"]], "violation": v, "log": row.get("log"),
            "histories_with_this_signature": len(lst),
            "cmd": "python3 tools/verif.py replay C15 <this file>"})
    return len(seen)


def gen_profiles(thorough):
    allk = '{"index","fixed","variable","virtual","free","calc","badtype"}'
    opts = '{"plain","retrieve","overwrite"}'
    p = []
    # bounded-exhaustive (BFS): every behaviour of the small alphabet
    p.append(dict(name="bfs2", mode="bfs", sample=None if thorough else 700,
                  consts=dict(MaxReq=2, MaxRestart=1), depth=2))
    p.append(dict(name="bfs_del", mode="bfs", sample=None if thorough else 350,
                  consts=dict(Node="{1,2}", BaseName='{"a"}', Kinds='{"index","virtual","free"}',
                              Types='{"create","delete","rename"}', ExtraName='{"b"}', MaxReq=3), depth=3))
    # restarts: counters, engine directories and names must survive (on-disk storage)
    p.append(dict(name="bfs_restart", mode="bfs", sample=None,
                  consts=dict(Node="{1}", BaseName='{"a"}', Kinds='{"index"}', Types='{"create","delete"}',
                              MaxReq=5, MaxRestart=1), depth=5))
    p.append(dict(name="bfs_rename_restart", mode="bfs", sample=None if thorough else 120,
                  consts=dict(Node="{1,2}" if thorough else "{1}", BaseName='{"a","b"}', Kinds='{"index","virtual"}',
                              Types='{"create","rename"}', MaxReq=3, MaxRestart=1), depth=3))
    # two CreateMany calls inside one caller transaction
    p.append(dict(name="bfs_chain", mode="bfs", sample=None if thorough else 250,
                  consts=dict(Node="{1,2}", BaseName='{"a","b"}' if thorough else '{"a"}',
                              Kinds='{"index","virtual","free"}', Types='{"create"}',
                              Chain="TRUE", MaxReq=2), depth=2))
    # wide random walks
    p.append(dict(name="sim3", mode="sim", num=500 if thorough else 60,
                  consts=dict(Node="{1,2,3}", BaseName='{"a","b","c"}', ExtraName='{"a_time"}', Kinds=allk,
                              Opts=opts, MaxBatch=2, MaxReq=5, MaxCtr=24, MaxRestart=1, Chain="TRUE"),
                  depth=5))
    p.append(dict(name="sim2", mode="sim", num=500 if thorough else 60,
                  consts=dict(Node="{1,2}", BaseName='{"a","b"}', ExtraName='{"a_time"}', Kinds=allk,
                              Opts=opts, MaxBatch=3 if thorough else 2, MaxReq=6 if thorough else 4, MaxCtr=30,
                              MaxRestart=0, Chain="TRUE"),
                  depth=6 if thorough else 4))
    if thorough:
        p.append(dict(name="bfs3", mode="bfs", sample=6000,
                      consts=dict(Kinds='{"index","fixed","virtual","free","calc"}', MaxReq=3,
                                  BaseName='{"a"}', ExtraName='{"a_time"}', Opts='{"plain","overwrite"}'), depth=3))
        p.append(dict(name="sim1", mode="sim", num=300,
                      consts=dict(Node="{1}", BaseName='{"a","b"}', ExtraName='{"a_time"}', Kinds=allk,
                                  Opts=opts, MaxBatch=3, MaxReq=7, MaxCtr=40, MaxRestart=2, Chain="TRUE"),
                      depth=7))
    return p


def run(ctx):
    import time
    thorough = ctx.tier == "thorough"
    notes = ctx.notes
    confirmed = {}
    phases = {}
    t_phase = [time.time()]

    def phase(name):
        now = time.time()
        phases[name] = round(now - t_phase[0], 1)
        t_phase[0] = now
        if os.environ.get("VERIF_DEBUG"):
            print("[c15] phase %s %.1fs" % (name, phases[name]), flush=True)
    # 1. design level, masked
    design = design_checks(ctx, thorough)
    zero = [z for d in design for z in d.get("zero_coverage", [])]
    phase("design")
    # 2. as-is, one deviation at a time -> directed scripts
    scripts, cex_stats = directed_scripts(ctx)
    phase("as-is-cex")
    # 3. directed scripts on the real code: verdicts + calibration
    devs = {}
    order = list(DEVS)
    hs = [dict(scripts[d], id=i) for i, d in enumerate(order)]
    by_id = {h["id"]: h for h in hs}
    summ, rows = run_replay(ctx, hs, "directed", workers=4)
    rowmap = {r["id"]: r for r in rows}
    for i, d in enumerate(order):
        row = rowmap.get(i)
        if row is not None and row["r"] == "inconclusive":
            again = confirm(ctx, by_id[i], "directed_retry_%d" % i)
            if again is not None and again["r"] == "inconclusive":
                raise vlib.Inconclusive("directed script for %s is inconclusive: %s" % (d, again.get("note")))
            row = again
            if row is not None:
                row["id"] = i
                rowmap[i] = row
        sigs = [v["sig"] for v in ((row or {}).get("viol") or []) + ((row or {}).get("pending") or [])]
        devs[d] = any(re.search(DEVS[d], s) for s in sigs)
    report_rows(ctx, [r for r in rowmap.values() if r], by_id, "directed", notes, confirmed)
    calibration = {d: ("present" if v else "absent") for d, v in devs.items()}
    phase("directed-replay")
    # 4. generated behaviours with the calibrated constants
    total = 0
    samples = []
    gens = []
    states = sum(d["distinct"] for d in design)
    trans = sum(d["generated"] for d in design)
    exhaustive_all = True
    mech = {}
    drift_rows = []
    for prof in gen_profiles(thorough):
        tag = prof["name"]
        consts = prof["consts"]
        text = cfg("GSpec", consts, devs, ["Emit"], depth=prof["depth"])
        if prof["mode"] == "bfs":
            r = ctx.tlc(AREA, "ChannelSvcGen", tag + ".cfg", files={tag + ".cfg": text}, tag=tag,
                        workers=6, timeout=2400, heap="6g")
        else:
            r = ctx.tlc(AREA, "ChannelSvcGen", tag + ".cfg", files={tag + ".cfg": text}, tag=tag,
                        workers=4, timeout=2400, simulate="num=%d" % prof["num"], depth=600)
        uniq = {}
        for h in hists_of(r):
            uniq.setdefault(stim_key(h), h)
        allh = list(uniq.values())
        if not allh:
            raise vlib.Inconclusive("profile %s generated no behaviour" % tag)
        chosen = allh
        if prof.get("sample") and len(allh) > prof["sample"]:
            chosen = vlib.sample(allh, prof["sample"], ctx.seed)
            exhaustive_all = False
        if prof["mode"] == "sim":
            exhaustive_all = False
        n = nodes_of(consts)
        hs = [{"id": i, "nodes": n, "steps": h} for i, h in enumerate(chosen)]
        by_id = {h["id"]: h for h in hs}
        summ, rows = run_replay(ctx, hs, tag, workers=8 if thorough else 6)
        for k, v in summ["counts"].items():
            mech[k] = mech.get(k, 0) + v
        total += len(hs)
        if len(samples) < 3:
            samples.append([{k: s[k] for k in ("t", "g", "opt", "ents", "cut", "res", "why", "ret")} for s in chosen[len(chosen) // 2]])
        report_rows(ctx, rows, by_id, tag, notes, confirmed)
        for row in rows:
            if row["r"] in ("drift", "inconclusive"):
                drift_rows.append((tag, by_id[row["id"]], row))
        gens.append({"profile": tag, "mode": prof["mode"], "generated": len(allh), "replayed": len(hs),
                     "tlc_states": r.distinct or r.generated, "tlc_wall_s": round(r.wall, 1),
                     "go_wall_s": summ["go_wall_s"], "counts": {k: v for k, v in summ["counts"].items() if not k.startswith("stat:")}})
        if prof["mode"] == "bfs":
            states += r.distinct
            trans += r.generated
        phase("gen:" + tag)
    # drift / inconclusive rows must reproduce to count
    real_drift = []
    for tag, h, row in drift_rows[:6]:
        again = confirm(ctx, h, "drift_" + tag)
        if again is not None and again["r"] in ("drift", "inconclusive"):
            real_drift.append((tag, h, again))
        elif again is not None and again["r"] == "viol":
            report_rows(ctx, [dict(again, id=h["id"])], {h["id"]: h}, "drift_" + tag, notes, confirmed)
        else:
            notes.append("non-reproducing %s in profile %s: %s" % (row["r"], tag, json.dumps(row.get("drift") or row.get("note"))[:300]))
    cov = {
        "states": states, "transitions": trans,
        "traces_validated_against_impl": total + len(order),
        "samples": samples,
        "exhaustive": exhaustive_all,
        "design_runs": design,
        "as_is_counterexamples": cex_stats,
        "calibration": calibration,
        "phase_wall_s": phases,
        "generation": gens,
        "mechanisms": {k: v for k, v in sorted(mech.items()) if k.startswith("stat:")},
        "rule": "masked design check of ChannelSvc.tla (all clauses, failure injection after every step, any peer order); "
                "one as-is run per named deviation whose shortest counterexample is replayed on the real cluster; "
                "TLC-generated behaviours (BFS-exhaustive small alphabets incl. restarts and chained creates, "
                "random walks over 3 nodes x all kinds x all options) replayed on a fresh real 1-3 node cluster each, "
                "with metadata of every node and engine of every node compared after every request",
        "notes": notes,
    }
    # vacuity guards
    need = ["stat:req:create:ok", "stat:req:create:fail", "stat:req:delete:ok", "stat:req:rename:ok",
            "stat:restarts", "stat:gone-checks", "stat:created"]
    missing = [k for k in need if not mech.get(k)]
    rc = ctx.finish("model_checking", cov, [
        "TLC/SANY 1.8.0; in-memory freighter transports; aspen gossip awaited by polling every node's table "
        "and name index (timeout = inconclusive)",
        "requests are issued one at a time with quiescence in between (C15 quantifies over sequences)",
        "restart = close and reopen of a node's distribution and storage layers on the same directory",
    ])
    if rc == 0 and real_drift and not ctx.known_hits and not ctx.violations:
        tag, h, row = real_drift[0]
        ctx.save_replay({"history": h, "row": row}, name="drift-%s-%d.json" % (ctx.tier, ctx.seed))
        raise vlib.Inconclusive("DRIFT in profile %s: real code and specification disagree on %s (not a statement of "
                                "C15): %s" % (tag, (row.get("drift") or {}).get("what", row.get("note")),
                                              json.dumps(row.get("drift") or row.get("note"))[:600]))
    if rc == 0 and real_drift:
        tag, h, row = real_drift[0]
        print("NOTE property=C15 drift next to reported findings in profile %s: %s" % (
            tag, json.dumps(row.get("drift") or row.get("note"))[:400]))
    if rc == 0 and (missing or zero):
        raise vlib.Inconclusive("vacuity: mechanisms never exercised %s; spec actions never taken %s" % (missing, zero))
    return rc


def replay(ctx, path):
    with open(path) as f:
        obj = json.load(f)
    h = dict(obj["history"], id=0)
    row = confirm(ctx, h, "replay")
    if row is not None and row["r"] == "viol":
        print("VIOLATION property=C15 replay=%s" % path)
        for v in row["viol"]:
            print("  [%s] %s" % (v["sig"], v["what"]))
        return 1
    if row is not None:
        print("replay: %s %s" % (row["r"], json.dumps(row.get("drift") or row.get("note"))))
        return 2
    print("replay: history passes on the current tree")
    return 0
