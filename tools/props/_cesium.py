"""Shared helpers for the CesiumStore family (C01, C04, C10, C02)."""
import json
import os

import vlib

AREA = "cesium"
CHANSETS = '{{"I"}, {"I","D","V"}, {"D"}, {"D","V"}}'


def gen_cfg(spec, T, depth, maxlen=3, maxid=8, writers=2, inv="EmitSim", chansets=CHANSETS, early=False):
    ws = ", ".join('"w%d"' % (i + 1) for i in range(writers))
    return """SPECIFICATION %s
CONSTANTS
  T = %d
  Writers = {%s}
  MaxLen = %d
  MaxId = %d
  ChanSets = %s
  EarlyStart = %s
  Depth = %d
INVARIANTS %s
CHECK_DEADLOCK FALSE
""" % (spec, T, ws, maxlen, maxid, chansets, "TRUE" if early else "FALSE", depth, inv)


def write_hists(res, path, keep=None, dedupe=True):
    """Write HIST lines of a TLC run to an ndjson file. `keep(hist)` filters."""
    n = 0
    seen = set()
    samples = []
    with open(path, "w") as f:
        for h in res.hists():
            if keep and not keep(h):
                continue
            s = json.dumps(h, separators=(",", ":"), sort_keys=True)
            if dedupe:
                k = hash(s)
                if k in seen:
                    continue
                seen.add(k)
            f.write(s + "\n")
            if n < 1:
                samples.append([{"a": x["a"], "args": x["args"], "res": x["res"]} for x in h])
            n += 1
    return n, samples


def replay_store(ctx, path, T, tag, nconc=1, conc=None, full=True, race=False, timeout=1500):
    out = ctx.path("out_%s.ndjson" % tag)
    env = {"VERIF_IN": path, "VERIF_OUT": out, "VERIF_MAXT": 2 * T + 1, "VERIF_NCONC": nconc,
           "VERIF_FULLREADS": "1" if full else "0"}
    if conc is not None:
        env["VERIF_CONC"] = json.dumps(conc)
    rc, text, wall = ctx.go_test("cesium", ".", ["zz_verif_store_test.go"], "^TestVerifStoreReplay$",
                                 env=env, tag=tag, race=race, timeout=timeout)
    rows = ctx.read_ndjson(out)
    if rc != 0 or not rows or not rows[0].get("summary"):
        raise vlib.Inconclusive("store replay harness failed rc=%s:\n%s" % (rc, text[-3000:]))
    return rows[0], rows[1:]


def load_hist(path, i):
    with open(path) as f:
        for k, ln in enumerate(f):
            if k == i:
                return json.loads(ln)
    return None
