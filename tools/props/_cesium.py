"""Shared helpers for the CesiumStore family (C01, C04, C10, C02)."""
import json
import os

import vlib

AREA = "cesium"
CHANSETS = '{{"I"}, {"I","D","V"}, {"D"}, {"D","V"}}'


def gen_cfg(spec, T, depth, maxlen=3, maxid=8, writers=2, inv="EmitSim", chansets=CHANSETS, early=False, deletes=True, plan=0):
    ws = ", ".join('"w%d"' % (i + 1) for i in range(writers))
    return """SPECIFICATION %s
CONSTANTS
  T = %d
  Writers = {%s}
  MaxLen = %d
  MaxId = %d
  ChanSets = %s
  EarlyStart = %s
  DeletesOn = %s
  PlanId = %d
  Depth = %d
INVARIANTS %s
CHECK_DEADLOCK FALSE
""" % (spec, T, ws, maxlen, maxid, chansets, "TRUE" if early else "FALSE", "TRUE" if deletes else "FALSE", plan, depth, inv)


def write_hists(res, path, keep=None, dedupe=True, limit=None, seed=1):
    """Write HIST lines of a TLC run to an ndjson file. `keep(hist)` filters; `limit`
    keeps a seeded random subset of about that many (reservoir-free: two passes)."""
    import random
    stride_keep = None
    if limit:
        total = sum(1 for _ in res.tagged("HIST"))
        if total > limit:
            rnd = random.Random(seed)
            stride_keep = set(rnd.sample(range(total), limit))
    idx = -1
    n = 0
    seen = set()
    samples = []
    with open(path, "w") as f:
        for h in res.hists():
            idx += 1
            if stride_keep is not None and idx not in stride_keep:
                continue
            if keep and not keep(h):
                continue
            s = json.dumps(h, separators=(",", ":"), sort_keys=True)
            if dedupe:
                k = hash(s)
                if k in seen:
                    continue
                seen.add(k)
            f.write(s + "\n")
            if n < 1:
                samples.append([{"a": x["a"], "args": x["args"], "res": x["res"]} for x in h])
            n += 1
    return n, samples


def replay_store(ctx, path, T, tag, nconc=1, conc=None, full=True, race=False, timeout=1500):
    out = ctx.path("out_%s.ndjson" % tag)
    env = {"VERIF_IN": path, "VERIF_OUT": out, "VERIF_MAXT": 2 * T + 1, "VERIF_NCONC": nconc,
           "VERIF_FULLREADS": full if isinstance(full, str) else ("1" if full else "0")}
    if conc is not None:
        env["VERIF_CONC"] = json.dumps(conc)
    rc, text, wall = ctx.go_test("cesium", ".", ["zz_verif_store_test.go"], "^TestVerifStoreReplay$",
                                 env=env, tag=tag, race=race, timeout=timeout)
    rows = ctx.read_ndjson(out)
    if rc != 0 or not rows or not rows[0].get("summary"):
        raise vlib.Inconclusive("store replay harness failed rc=%s:\n%s" % (rc, text[-3000:]))
    return rows[0], rows[1:]


def load_hist(path, i):
    with open(path) as f:
        for k, ln in enumerate(f):
            if k == i:
                return json.loads(ln)
    return None


def mc_cfg(spec, T, writers, maxlen, maxid, props=True, chansets='{{"I"}, {"I","D","V"}, {"D"}}'):
    ws = ", ".join('"w%d"' % (i + 1) for i in range(writers))
    return """SPECIFICATION %s
CONSTANTS
  T = %d
  Writers = {%s}
  EarlyStart = FALSE
  MaxLen = %d
  MaxId = %d
  ChanSets = %s
INVARIANTS TypeOK SamplesInDomains DomainsDisjoint DataHasIndex NoUncommittedVisible
%s
CHECK_DEADLOCK FALSE
""" % (spec, T, ws, maxlen, maxid, chansets, "PROPERTIES DeleteExact IndexGuard" if props else "")


TAINT_SIG = "C04 delete bound inside domain whose start is not on an index sample"


def judge(ctx, pid, path, bad, T, what):
    """Turn harness results into verdicts. Read mismatches (and panics/hangs) are
    verdict-bearing; an outcome-class divergence is verdict-bearing only where C04 states
    it (an index delete that must be refused was allowed). Everything else that stops a
    script is `diverged` (counted; exit 2 if any on an untainted history)."""
    diverged = 0
    for b in bad:
        hist = load_hist(path, b["i"])
        m = b.get("m") or {}
        step = m.get("step", -1)
        st = hist[step] if 0 <= step < len(hist) else {}
        script = [{"a": x["a"], "args": x["args"], "res": x["res"]} for x in hist[: step + 1]]
        rep = {"history": hist[: step + 1], "script": script, "conc": b.get("conc"), "mismatch": m, "T": T,
               "cmd": "python3 tools/verif.py replay %s <this file>" % pid}
        if b["r"] == "inconclusive":
            raise vlib.Inconclusive("harness inconclusive: %s" % json.dumps(b)[:500])
        if b.get("tainted"):
            ctx.report(TAINT_SIG, "%s: %s at step %d (%s) after a %s" % (what, m.get("kind"), step, st.get("a"), b["tainted"]), rep)
            continue
        if b["r"] == "diverged":
            if st.get("a") == "delete" and st.get("res") == "refused" and (st.get("args") or {}).get("must") and m.get("act") == "ok":
                ctx.report("C04 index delete allowed while a dependant has samples in range",
                           "index delete %s was allowed although a channel it indexes has samples in the range" % json.dumps(st.get("args")), rep)
            else:
                diverged += 1
                ctx.notes.append("diverged: step %d %s %s expected %s got %s" % (step, st.get("a"), json.dumps(st.get("args")), m.get("exp"), str(m.get("act"))[:200]))
            continue
        kind = m.get("kind")
        sig = "%s %s mismatch after %s" % (pid, kind, st.get("a"))
        ctx.report(sig, "%s: after step %d (%s %s) %s: expected %s, real cesium returned %s" % (
            what, step, st.get("a"), json.dumps(st.get("args")), m.get("note", ""), str(m.get("exp"))[:300], str(m.get("act"))[:300]), rep)
    return diverged
