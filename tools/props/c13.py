"""C13 - key-value observers see each applied change once, never a stale one (DESIGN.md C13)."""
import vlib
import _aspenkv as A


def run(ctx):
    return A.guarded(ctx, _run)


def _run(ctx):
    states, trans, design = A.run_design(ctx, "C13")
    total, gs, gt, samples, stats, fams = A.run_ingress(ctx, "C13")
    nscen, accepted, cstats, tv_rows, nbad = A.run_cluster_layer(ctx, "C13")
    if any(n.startswith("design: ") and "masked config" in n for n in ctx.notes) and not ctx.violations:
        raise vlib.Inconclusive("; ".join(ctx.notes[:3]))
    need = {"notes_p": stats.get("notes_p", 0), "notes_f": stats.get("notes_f", 0), "late_subs": stats.get("subs", 0),
            "rejected": stats.get("rejected", 0), "locals": stats.get("locals", 0),
            "cluster_notes_p": cstats.get("notes_p", 0), "cluster_notes_f": cstats.get("notes_f", 0),
            "cluster_rejected": cstats.get("rejected", 0)}
    if any(v == 0 for v in need.values()):
        raise vlib.Inconclusive("vacuous run: %s" % need)
    cov = {
        "states": states + gs, "transitions": trans + gt,
        "traces_validated_against_impl": total + accepted,
        "samples": samples[:2],
        "exhaustive": False,
        "design_runs": design,
        "ingress_families": fams,
        "ingress_histories_replayed": total,
        "ingress_stats": stats,
        "cluster_scenarios": nscen, "cluster_traces_accepted_by_AspenKVTrace": accepted,
        "cluster_stats": cstats, "trace_validation_runs": tv_rows[:8],
        "rule": "real subscribers (DB.OnChange, NewObservable(IgnoreHostLeaseholder).OnChange, attached before and during "
                "traffic, plus an in-package TxRequest observer) on the node of C06's layer (a) and on every node of layer (b); "
                "after every delivered request / local write each subscriber's log must be exactly what AspenKV's Notify "
                "computes (accepted operations once, in order; nothing for rejected or re-delivered ones; local writes hidden "
                "from the host-leaseholder filter only); a sentinel request closes each history so late strays are seen",
        "notes": ctx.notes[:20],
    }
    return ctx.finish("model_checking", cov, [
        "subscribers keep up (handlers only append to a log); the lag branch of the spec is model-checked, not replayed",
        "deletes carry no value, so a delete notification is matched to its (key, version) through the in-package TxRequest "
        "observer that is fed by the same observable",
        "membership static, transports freighter/mock, scheduler = harness (see C06)",
    ])


def replay(ctx, path):
    return A.replay(ctx, path, "C13")
