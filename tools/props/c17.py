"""C17 - indexed queries equal full scans; uncommitted writes stay private, aborts vanish
(DESIGN.md section 3, C17).

1. Design check (TLC, exhaustive): GorpIndex.tla in the masked configuration (commit is one
   step) must satisfy every invariant / action property; in the as-written configuration
   (KVCommit ; [Notify] ; Flush) TLC is expected to violate NoResidue only through the
   named Window_CommitFlush.
2. Conformance: behaviours of GorpIndexGen.tla (TLC simulation, seeded) are replayed into a
   real gorp.Table on memkv with a LookupIndex and a SortedIndex on the same field, in two
   observer wirings (index observer on the DB itself / remote-only as in production). After
   every step every view (no tx + every open tx) is projected and compared with the state
   the specification computed.
3. The design-level counterexample of the as-written configuration is replayed on the real
   code as NestedCommit / NestedSet steps (second writer committed from a kv change handler
   that runs inside the first commit).
"""
import json
import os

import vlib

AREA = "gorp"
MODULE = "x/go"
PKG = "./gorp"
HARNESS = ["zz_verif_gorp_test.go"]

# mismatch classes that contradict the property statement; the others are pinned beyond
# the property (module header of GorpIndex.tla) and are reported as drift
PROPERTY_CLS = {"view", "get", "residue", "query", "scan", "dup", "dup-values", "stale-window", "ordered",
                "panic", "error"}
DRIFT_CLS = {"out", "ordered-tx", "ordered-limit-filter", "harness"}


def consts(nkey, nval, ntx, atomic, selfobs):
    return """  NKey = %d
  NVal = %d
  NTx = %d
  AtomicCommit = %s
  SelfObserve = %s
""" % (nkey, nval, ntx, "TRUE" if atomic else "FALSE", "TRUE" if selfobs else "FALSE")


def mc_cfg(nkey, nval, ntx):
    return ("SPECIFICATION Spec\nCONSTANTS\n" + consts(nkey, nval, ntx, True, True) +
            "INVARIANTS TypeOK IdxWellFormed DeltaMatchesBatch IndexEqualsScan GetEqualsView "
            "ReadYourWrites Isolation CommittedIndexExact NoResidue\n"
            "PROPERTIES IsolationStep CommitVisible AbortVanishes\nCHECK_DEADLOCK FALSE\n")


def asis_cfg(nkey, nval, ntx, selfobs):
    return ("SPECIFICATION Spec\nCONSTANTS\n" + consts(nkey, nval, ntx, False, selfobs) +
            "INVARIANTS TypeOK IdxWellFormed DeltaMatchesBatch ReadYourWrites NoResidue\n"
            "PROPERTIES IsolationStep\nCHECK_DEADLOCK FALSE\n")


def gen_cfg(nkey, nval, ntx, depth, nest, maxdirect, maxtxops, sound=True):
    return ("SPECIFICATION GSpec\nCONSTANTS\n" + consts(nkey, nval, ntx, True, True) +
            "  Depth = %d\n  Nest = %s\n  MaxDirect = %d\n  MaxTxOps = %d\n" % (
                depth, '"%s"' % (nest or "none"), maxdirect, maxtxops) +
            ("INVARIANTS TypeOK\n" if not sound else "INVARIANTS TypeOK IdxWellFormed\n") +
            "CHECK_DEADLOCK FALSE\n")


def tagged_json(res, tag):
    for body in res.tagged(tag):
        try:
            return json.loads(json.loads(body))
        except Exception:
            continue
    return None


def write_hists(res, path, limit=None):
    """Copy the behaviours TLC printed (one JSON document per HIST line) to an ndjson file.
    Only the outer TLC string literal is decoded; the inner JSON is passed through."""
    n = 0
    samples = []
    with open(path, "w") as f:
        for body in res.tagged("HIST"):
            try:
                inner = json.loads(body)
            except Exception:
                continue
            if "\n" in inner:
                inner = json.dumps(json.loads(inner), separators=(",", ":"))
            f.write(inner + "\n")
            if n < 1:
                h = json.loads(inner)
                samples.append([{k: s[k] for k in ("a", "u", "k", "v", "v2", "out", "kv")} for s in h])
            n += 1
            if limit and n >= limit:
                break
    return n, samples


def replay_file(ctx, path, defs_path, nval, tag, modes="self,ext", timeout=1500, zero="auto"):
    out = ctx.path("out_%s.ndjson" % tag)
    rc, text, wall = ctx.go_test(
        MODULE, PKG, HARNESS, "^TestVerifGorpReplay$",
        env={"VERIF_IN": path, "VERIF_OUT": out, "VERIF_DEFS": defs_path, "VERIF_NVAL": nval,
             "VERIF_MODES": modes, "VERIF_ZERO": zero, "VERIF_WORKERS": os.environ.get("VERIF_WORKERS", "")},
        tag=tag, timeout=timeout)
    rows = ctx.read_ndjson(out)
    if rc != 0 or not rows or not rows[0].get("summary"):
        raise vlib.Inconclusive("gorp replay harness failed rc=%s:\n%s" % (rc, text[-3000:]))
    return rows[0], rows[1:], wall


def load_hist(path, i):
    with open(path) as f:
        for n, ln in enumerate(f):
            if n == i:
                return json.loads(ln)
    return None


def signature(b):
    cls = b.get("cls")
    if cls == "stale-window":
        return "C17 stale-window %s" % b.get("a")
    if cls == "dup-values":
        return "C17 dup-values eq"
    what = b.get("what", "")
    kind = what.split(" in ")[0].split("(")[0]
    # strip tree numbers / view names so that one structural cause gives one signature
    kind = " ".join(w for w in kind.split() if not w.isdigit())
    return "C17 %s after %s [%s]" % (cls, b.get("a"), kind)


def judge(ctx, bads, defs_path, nval):
    """bads: list of (hist_path, result row). Reproduce, classify, report."""
    drift = []
    seen = set()
    for hp, b in bads:
        if b.get("r") != "mismatch":
            raise vlib.Inconclusive("harness inconclusive: %s" % b)
        sig = signature(b)
        if sig in seen:
            continue
        seen.add(sig)
        if len(seen) > 12:
            break
        hist = load_hist(hp, b["i"])
        step = hist[b["step"]] if 0 <= b.get("step", -1) < len(hist) else {}
        one = ctx.path("one.ndjson")
        with open(one, "w") as f:
            f.write(json.dumps(hist) + "\n")
        summ, bad2, _ = replay_file(ctx, one, defs_path, nval, "repro", modes=b.get("mode") or "self,ext",
                                    zero="1" if b.get("zero") else "0")
        if not bad2:
            raise vlib.Inconclusive("mismatch did not reproduce: %s" % b)
        b2 = bad2[0]
        sig = signature(b2)
        cls = b2.get("cls")
        if cls in DRIFT_CLS or cls not in PROPERTY_CLS:
            drift.append(b2)
            continue
        upto = max(b2.get("step", 0), 0)
        script = [{k: s[k] for k in ("a", "u", "k", "v", "v2")} for s in hist[:upto + 1]]
        what = ("gorp table (observer mode %s%s): after step %d (%s %s %s %s) %s: specification/scan says %s, "
                "real code gave %s" % (b2.get("mode"), ', value "a" stored as ""' if b2.get("zero") else "", b2.get("step"), step.get("a"), step.get("u"),
                                       step.get("k"), step.get("v"), b2.get("what"), b2.get("exp"), b2.get("act")))
        ctx.report(sig, what, {"history": hist, "script": script, "mismatch": b2, "nval": nval,
                               "cmd": "python3 tools/verif.py replay C17 <this file>"})
    if drift and not ctx.violations and not ctx.known_hits:
        raise vlib.Inconclusive("model drift (pinned beyond the property): %s" % json.dumps(drift[:3]))
    if drift:
        ctx.notes.append("drift: %s" % json.dumps(drift[:3]))


def run(ctx):
    import time
    thorough = ctx.tier == "thorough"
    phases = {}
    t_phase = time.time()
    workers = int(os.environ.get("VERIF_TLC_WORKERS", "0") or 0) or None
    states = trans = 0
    design = []
    # ---- 1. exhaustive design check -------------------------------------------------
    sizes = [(2, 2, 2)] if not thorough else [(2, 2, 2), (3, 2, 2)]
    skip_design = bool(os.environ.get("VERIF_C17_SKIP_DESIGN"))  # development aid (mutation runs)
    if skip_design:
        sizes = []
        ctx.notes.append("design check skipped (VERIF_C17_SKIP_DESIGN)")
    for (nk, nv, nt) in sizes:
        r = ctx.tlc(AREA, "GorpIndex", "mc.cfg", files={"mc.cfg": mc_cfg(nk, nv, nt)},
                    tag="mc_%d%d%d" % (nk, nv, nt), timeout=3000, workers=workers,
                    coverage=(nk == 2))
        if r.violated:
            ctx.notes.append("design (masked %dx%dx%d): %s violated" % (nk, nv, nt, r.violated))
        zero = [a for a in r.coverage_zero if a not in ("KVCommit", "Notify", "Flush")]
        states += r.distinct
        trans += r.generated
        design.append({"config": "masked", "keys": nk, "vals": nv, "txs": nt, "distinct": r.distinct,
                       "generated": r.generated, "violated": r.violated, "wall_s": round(r.wall, 1),
                       "actions_never_fired": zero})
        if zero:
            raise vlib.Inconclusive("vacuity: spec actions never fired in masked config: %s" % zero)
    if design and design[0]["violated"]:
        raise vlib.Inconclusive("design spec violates %s in the masked configuration (spec drift)" %
                                design[0]["violated"])
    window = []
    for selfobs in (() if skip_design else (True, False)):
        r = ctx.tlc(AREA, "GorpIndex", "asis.cfg", files={"asis.cfg": asis_cfg(2, 2, 2, selfobs)},
                    tag="asis_%s" % ("self" if selfobs else "ext"), timeout=1500, workers=workers,
                    expect_violation=True)
        states += r.distinct
        trans += r.generated
        window.append({"config": "as-written", "self_observe": selfobs, "distinct": r.distinct,
                       "generated": r.generated, "violated": r.violated, "wall_s": round(r.wall, 1)})
        if r.violated not in (None, "NoResidue"):
            raise vlib.Inconclusive("as-written design violates %s (only NoResidue through "
                                    "Window_CommitFlush is expected)" % r.violated)
    design += window

    phases["design_s"] = round(time.time() - t_phase, 1)
    t_phase = time.time()
    # ---- 2. behaviours replayed into the real table ---------------------------------
    plans = []
    if not thorough:
        plans.append(("main", dict(nkey=3, nval=2, ntx=2, depth=14, nest=None, maxdirect=3, maxtxops=3), 250, 16))
        plans.append(("free", dict(nkey=3, nval=2, ntx=2, depth=10, nest=None, maxdirect=10, maxtxops=10), 60, 12))
        plans.append(("nest_tx", dict(nkey=3, nval=2, ntx=2, depth=8, nest="tx", maxdirect=1, maxtxops=1), 50, 10))
        plans.append(("nest_set", dict(nkey=3, nval=2, ntx=2, depth=8, nest="set", maxdirect=2, maxtxops=2), 25, 10))
    else:
        plans.append(("main", dict(nkey=3, nval=2, ntx=2, depth=16, nest=None, maxdirect=3, maxtxops=3), 1000, 18))
        plans.append(("wide", dict(nkey=4, nval=3, ntx=3, depth=20, nest=None, maxdirect=4, maxtxops=3), 600, 22))
        plans.append(("free", dict(nkey=3, nval=3, ntx=2, depth=12, nest=None, maxdirect=12, maxtxops=12), 500, 14))
        plans.append(("nest_tx", dict(nkey=3, nval=2, ntx=3, depth=10, nest="tx", maxdirect=1, maxtxops=2), 300, 12))
        plans.append(("nest_set", dict(nkey=3, nval=2, ntx=2, depth=9, nest="set", maxdirect=2, maxtxops=2), 150, 11))
    total = 0
    samples = []
    bads = []
    mech = {}
    replays = []
    defs_path = ctx.path("defs.json")
    simw = 4
    for name, kw, num, simdepth in plans:
        r = ctx.tlc(AREA, "GorpIndexGen", "gen.cfg", files={"gen.cfg": gen_cfg(**kw)}, tag="gen_" + name,
                    simulate="num=%d" % num, depth=simdepth, workers=simw, timeout=1500)
        trees, oqs = tagged_json(r, "TREES"), tagged_json(r, "OQS")
        if not trees or not oqs:
            raise vlib.Inconclusive("generator did not print TREES/OQS")
        with open(defs_path, "w") as f:
            json.dump({"trees": trees, "oqs": oqs}, f)
        hp = ctx.path("hist_%s.ndjson" % name)
        n, smp = write_hists(r, hp)
        if n == 0:
            raise vlib.Inconclusive("no behaviours generated (%s)" % name)
        samples += smp
        summ, bad, wall = replay_file(ctx, hp, defs_path, kw["nval"], "rp_" + name)
        if summ["replayed"] != 2 * n:
            raise vlib.Inconclusive("replayed %s of %s behaviour runs" % (summ["replayed"], 2 * n))
        total += summ["replayed"]
        replays.append({"plan": name, "constants": kw, "behaviours": n, "runs": summ["replayed"],
                        "bad": summ["bad"], "wall_s": round(wall, 1), "tlc_wall_s": round(r.wall, 1)})
        for k in ("steps", "queries", "ordered", "tx_views", "tx_views_with_staged_writes",
                  "nest_conflicts", "dup_value_hits"):
            mech[k] = mech.get(k, 0) + summ.get(k, 0)
        for a, c in summ.get("actions", {}).items():
            mech.setdefault("actions", {})
            mech["actions"][a] = mech["actions"].get(a, 0) + c
        # judge one representative per class first
        bads += [(hp, b, kw["nval"]) for b in bad]
    phases["generate_replay_s"] = round(time.time() - t_phase, 1)
    t_phase = time.time()
    by_nval = {}
    for hp, b, nv in bads:
        by_nval.setdefault(nv, []).append((hp, b))
    for nv, lst in by_nval.items():
        # most informative first: property-level classes before drift classes
        lst.sort(key=lambda x: (x[1].get("cls") in DRIFT_CLS, x[1].get("cls") == "dup-values", x[1]["i"]))
        judge(ctx, lst, defs_path, nv)
    # vacuity of the binding (only meaningful when behaviours ran to their end)
    need = ["set", "upd", "del", "delset", "updeq", "deleq", "remote", "open", "commit", "abort", "commitfail",
            "populate", "nest", "nestset"]
    missing = [a for a in need if mech.get("actions", {}).get(a, 0) == 0]
    if not ctx.violations and (missing or mech.get("tx_views_with_staged_writes", 0) == 0
                               or mech.get("nest_conflicts", 0) == 0):
        raise vlib.Inconclusive("vacuity: replay never exercised %s (mechanisms: %s)" % (missing, mech))

    phases["judge_s"] = round(time.time() - t_phase, 1)
    t_phase = time.time()
    # ---- 3. schedules the synchronous script cannot pause inside (thorough) -----------
    conc = []
    # gated schedule (both tiers): a replicated write to an existing row lands between
    # OpenTable's observer subscription and the start of its bulk load
    gout = ctx.path("gated.ndjson")
    rc, text, wall = ctx.go_test(MODULE, PKG, HARNESS, "^TestVerifGorpGated$", env={"VERIF_OUT": gout}, tag="gated", timeout=600)
    gated = ctx.read_ndjson(gout)
    if rc != 0 or not gated:
        raise vlib.Inconclusive("gated populate driver failed rc=%s:\n%s" % (rc, text[-2000:]))
    for o in gated:
        if o.get("stale"):
            ctx.report("C17 populate-race stale index",
                       "%s: index differs from the table after quiescence in %d of %d trials, e.g. %s" % (
                           o["kind"], o["stale"], o["trials"], o.get("sample")),
                       {"concurrent": o, "cmd": "go test -tags verif -run TestVerifGorpGated (see tools/props/c17.py)"})
    if thorough:
        out = ctx.path("conc.ndjson")
        rc, text, wall = ctx.go_test(MODULE, PKG, HARNESS, "^TestVerifGorpConcurrent$",
                                     env={"VERIF_OUT": out, "VERIF_TRIALS": 3000, "VERIF_POP_TRIALS": 6000}, tag="conc", timeout=1500)
        conc = ctx.read_ndjson(out)
        if rc != 0 or not conc:
            raise vlib.Inconclusive("concurrent driver failed rc=%s:\n%s" % (rc, text[-2000:]))
        for o in conc:
            if o.get("stale"):
                if o["kind"] == "commit-commit":
                    sig = "C17 stale-window concurrent-commit"
                else:
                    sig = "C17 populate-race stale index"
                ctx.report(sig, "%s (observer mode %s): index differs from the table after quiescence in %d of %d "
                           "trials, e.g. %s" % (o["kind"], o["mode"], o["stale"], o["trials"], o.get("sample")),
                           {"concurrent": o, "cmd": "go test -tags verif -run TestVerifGorpConcurrent (see tools/props/c17.py)"})

    phases["concurrent_s"] = round(time.time() - t_phase, 1)
    cov = {
        "phase_wall_s": phases,
        "states": states, "transitions": trans,
        "traces_validated_against_impl": total,
        "samples": samples[:3],
        "exhaustive": False,
        "design_runs": design,
        "replays": replays,
        "mechanisms": mech,
        "concurrent": conc + gated,
        "rule": "design: every state of GorpIndex.tla (masked) for the listed sizes, 18 filter trees x every view; "
                "conformance: TLC-simulated behaviours (seeded) replayed step by step into gorp.Table on memkv in two "
                "observer wirings, comparing rows, LookupIndex/SortedIndex.Get per value, 18 filter trees x "
                "{lookup, sorted, scan} x {Exec, Count|Exists} and 16 ordered cursor walks in every view after every step",
        "notes": ctx.notes,
    }
    return ctx.finish("model_checking", cov, [
        "TLC/SANY 1.8.0; memkv (pebble in-memory, indexed batches: a tx reads its own batch over the live DB)",
        "behaviours are sampled by TLC simulation, not enumerated; the design check is exhaustive for the listed sizes",
        "order among equal values of the SortedIndex is treated as unspecified",
        "the commit/flush window is reproduced by running the second writer from a kv change handler inside the "
        "first commit (and by free-running goroutines in the thorough tier)",
    ])


def replay(ctx, path):
    with open(path) as f:
        obj = json.load(f)
    if "history" not in obj:
        print("replay: artifact has no history (concurrent finding): re-run the thorough tier")
        return 2
    r = ctx.tlc(AREA, "GorpIndexGen", "gen.cfg",
                files={"gen.cfg": gen_cfg(2, 2, 2, 1, None, 1, 1)}, tag="defs", simulate="num=1", depth=2,
                workers=1, timeout=300)
    defs_path = ctx.path("defs.json")
    with open(defs_path, "w") as f:
        json.dump({"trees": tagged_json(r, "TREES"), "oqs": tagged_json(r, "OQS")}, f)
    one = ctx.path("one.ndjson")
    with open(one, "w") as f:
        f.write(json.dumps(obj["history"]) + "\n")
    mm = obj.get("mismatch") or {}
    summ, bad, _ = replay_file(ctx, one, defs_path, obj.get("nval", 3), "replay", modes=mm.get("mode") or "self,ext",
                               zero=("1" if mm.get("zero") else "0") if "zero" in mm else "auto")
    want = (obj.get("mismatch") or {}).get("cls")
    bad = [b for b in bad if b.get("cls") in PROPERTY_CLS and (b.get("cls") != "dup-values" or want == "dup-values")]
    if bad:
        print("VIOLATION property=C17 replay=%s" % path)
        print("  " + json.dumps(bad[0]))
        return 1
    print("replay: history passes on the current tree")
    return 0
