"""C09 - concurrent cesium use is race-free, deadlock-free and serializable.
Level: exploration (schedules are sampled on real goroutines; every sampled execution is
decided by CesiumLinTrace.tla + the race detector + a stall watchdog)."""
import json

import vlib
import _cesium as C
import _fcconc

TRACE_CFG = """SPECIFICATION TSpec
CONSTANTS
  T = 14
  Writers = {"w1"}
  MaxLen = 3
  MaxId = 1000
  ChanSets = {{"I","D","V"}, {"I"}, {"D","V"}}
  EarlyStart = FALSE
INVARIANTS SamplesInDomains DomainsDisjoint DataHasIndex NoUncommittedVisible
CONSTRAINT HW
POSTCONDITION TraceAccepted
CHECK_DEADLOCK FALSE
"""


def record(ctx, rounds, gomaxprocs, tag, race=True):
    out = ctx.path("trace_%s.ndjson" % tag)
    rc, text, wall = ctx.go_test(
        "cesium", ".", ["zz_verif_store_test.go", "zz_verif_conc_test.go"], "^TestVerifConcurrent$",
        env={"VERIF_OUT": out, "VERIF_ROUNDS": rounds, "GOMAXPROCS": gomaxprocs}, tag=tag, race=race, timeout=2400)
    rows = ctx.read_ndjson(out)
    return rc, text, rows


def validate(ctx, events, tag):
    text = "\n".join(json.dumps(e, separators=(",", ":")) for e in events) + "\n"
    r = ctx.tlc(C.AREA, "CesiumLinTrace", "tr.cfg", files={"tr.cfg": TRACE_CFG, "trace.ndjson": text},
                workers=1, deque=True, tag=tag, timeout=1800, expect_violation=True)
    hwm = None
    for body in r.tagged("HWM"):
        try:
            hwm = int(body.split(",")[0].strip())
        except ValueError:
            pass
    ok = (not r.violated) and r.rc == 0 and hwm is None and not r.postcondition_failed
    return ok, hwm, r


GC_CFG = """SPECIFICATION Spec
CONSTANTS
  Dev_OpenBeforeLock = %s
  Dev_NoOffsetRefresh = %s
  Dev_GCNoDeleteLock = %s
  Readers = {%s}
INVARIANTS %s
CHECK_DEADLOCK FALSE
"""


def design_stage(ctx):
    """DomainGC.tla: the repaired design of reader / delete / garbage collection on one data file
    holds; each of the three repaired defects alone (named deviation) reproduces its counterexample;
    the residual window of the repaired code is shown explicitly."""
    thorough = ctx.tier == "thorough"
    readers = '"r1", "r2"' if not thorough else '"r1", "r2", "r3"'
    inv = "TypeOK ReadsOwnDomain PointersAddressOwnCells NoStaleHandle"
    b = lambda x: "TRUE" if x else "FALSE"
    runs = []
    st = tr = 0
    m = ctx.tlc(C.AREA, "DomainGC", "gc_masked.cfg", files={"gc_masked.cfg": GC_CFG % (b(0), b(0), b(0), readers, inv)},
                workers=4, tag="gc_masked", timeout=900)
    if m.violated:
        raise vlib.Inconclusive("DomainGC.tla (repaired design) violates %s" % m.violated)
    st += m.distinct
    tr += m.generated
    runs.append({"config": "repaired", "distinct": m.distinct, "generated": m.generated, "violated": None})
    for name, devs, want in (("open-before-lock", (1, 0, 0), "NoStaleHandle"), ("no-offset-refresh", (0, 1, 0), "ReadsOwnDomain"),
                             ("gc-without-delete-lock", (0, 0, 1), "PointersAddressOwnCells")):
        r = ctx.tlc(C.AREA, "DomainGC", "gc_dev.cfg", files={"gc_dev.cfg": GC_CFG % (b(devs[0]), b(devs[1]), b(devs[2]), '"r1"', inv)},
                    workers=1, tag="gc_" + name, timeout=300, expect_violation=True)
        if not r.violated:
            raise vlib.Inconclusive("DomainGC.tla: deviation %s no longer reproduces a counterexample (vacuous model)" % name)
        runs.append({"config": name, "violated": r.violated, "expected_kind": want})
    r = ctx.tlc(C.AREA, "DomainGC", "gc_res.cfg", files={"gc_res.cfg": GC_CFG % (b(0), b(0), b(0), '"r1"', "ReadsOwnDomainEvenIfCut")},
                workers=1, tag="gc_residual", timeout=300, expect_violation=True)
    runs.append({"config": "repaired, residual window (reader positioned before a cut + compaction)", "violated": r.violated})
    # FileControllerConc.tla: garbage collection vs a writer opening the same file (prepareForGC's re-test
    # under writers.Lock, newWriter under one hold of it); masked run must hold, each deviation must reproduce
    s2, t2, r2 = _fcconc.design_runs(ctx)
    st += s2
    tr += t2
    runs.extend(r2)
    return st, tr, runs


def run(ctx):
    thorough = ctx.tier == "thorough"
    dstates, dtrans, design = design_stage(ctx)
    plan = [(1, 6), (2, 8), (4, 10), (16, 12)] if not thorough else [(1, 40), (2, 60), (4, 80), (8, 80), (16, 120)]
    total_rounds = total_events = tstates = ttrans = 0
    samples = []
    for gmp, rounds in plan:
        tag = "conc_p%d" % gmp
        rc, text, rows = record(ctx, rounds, gmp, tag)
        if "DATA RACE" in text:
            i = text.index("DATA RACE")
            ctx.report("C09 data race", "race detector report while running concurrent cesium operations (GOMAXPROCS=%d):\n%s" % (
                gmp, text[max(0, i - 200): i + 2500]), {"kind": "race", "gomaxprocs": gmp, "report": text[max(0, i - 200): i + 6000]})
            continue
        summ = [r for r in rows if r.get("ev") == "summary"]
        fatals = [r for r in rows if r.get("ev") == "fatal"]
        for f in fatals:
            msg = f.get("msg", "")
            if msg.startswith("HANG"):
                ctx.report("C09 deadlock", "concurrent round %s did not finish (GOMAXPROCS=%d)" % (f.get("round"), gmp),
                           {"kind": "hang", "gomaxprocs": gmp, "dump": msg[:20000]})
            elif msg.startswith("CHAN:"):
                ctx.report("C09 channel create/delete not serializable", "round %s: %s" % (f.get("round"), msg[:500]),
                           {"kind": "fatal", "gomaxprocs": gmp, "msg": msg[:5000]})
            elif msg.startswith("OBS"):
                ctx.notes.append(msg[:300])   # anomalies of reads that ran DURING the concurrency: not stated by C09
            else:
                ctx.report("C09 operation failed under concurrency", "round %s: %s" % (f.get("round"), msg[:500]),
                           {"kind": "fatal", "gomaxprocs": gmp, "msg": msg[:5000]})
        if rc != 0 and not fatals:
            raise vlib.Inconclusive("concurrent driver failed rc=%s:\n%s" % (rc, text[-3000:]))
        if not summ:
            raise vlib.Inconclusive("concurrent driver wrote no summary:\n%s" % text[-2000:])
        events = [r for r in rows if r.get("ev") not in ("summary", "fatal")]
        if not events:
            continue
        ok, hwm, r = validate(ctx, events, "tv_" + tag)
        tstates += r.distinct
        ttrans += r.generated
        total_rounds += summ[0]["rounds"]
        total_events += len(events)
        if not samples:
            samples.append(events[:25])
        if not ok:
            at = (hwm or 1) - 1
            lo = at
            while lo > 0 and events[lo].get("ev") != "reset":
                lo -= 1
            hi = at + 1
            while hi < len(events) and events[hi].get("ev") != "reset":
                hi += 1
            what = ("invariant %s violated" % r.violated) if r.violated else \
                "no serial order of the successful operations explains event %d: %s" % (at - lo, json.dumps(events[at])[:400] if at < len(events) else "?")
            sig = "C09 not serializable: %s" % (events[at].get("ev") if at < len(events) else "?")
            finals = [e for e in events[lo:hi] if e.get("ev") == "final"]
            if at < len(events) and events[at].get("ev") == "final" and len(finals) == 2 and events[at] is finals[0]:
                f1, f2 = finals[0]["cm"], finals[1]["cm"]
                if f1 != f2 or (finals[0].get("anom") and not finals[1].get("anom")):
                    # what the still-open database returns differs from what the same files
                    # return after close + reopen: in-memory pointer offsets / offset tables
                    # went stale under concurrent delete + garbage collection
                    sig = "C09 in-memory read is stale after concurrent delete and GC (content after reopen differs)"
            failed_del = [e for e in events[lo:hi] if e.get("ev") == "ret" and e.get("p") == "d"
                          and str(e.get("res", "")).startswith("err:cannot delete index channel")]
            if sig.startswith("C09 not serializable") and failed_del:
                # DeleteTimeRange removes the named data channels first and only then checks
                # the index guard: a refused call keeps its partial effect
                sig = "C09 multi-channel delete reported failure after deleting some of its channels"
            if sig.startswith("C09 not serializable"):
                # did a compacting GC pass run while a delete call was in progress?
                win = events[lo:hi]
                gcs, dels, cur = [], [], {}
                for k, e in enumerate(win):
                    if e.get("ev") == "call" and e.get("p") in ("g", "d"):
                        cur[e["p"]] = k
                    elif e.get("ev") == "ret" and e.get("p") == "g" and "g" in cur:
                        if e.get("shrunk"):
                            gcs.append((cur["g"], k))
                    elif e.get("ev") == "ret" and e.get("p") == "d" and "d" in cur:
                        dels.append((cur["d"], k))
                if any(g[0] < d[1] and d[0] < g[1] for g in gcs for d in dels):
                    sig = "C09 content wrong after a time-range delete overlapped a compacting GC pass"
            ctx.report(sig,
                       "concurrent trace (GOMAXPROCS=%d) rejected by CesiumLinTrace.tla: %s" % (gmp, what),
                       {"kind": "trace", "trace": events[lo:hi], "unexplained_event_index": at - lo, "gomaxprocs": gmp})
    if total_rounds < 2 and not ctx.violations:
        raise vlib.Inconclusive("vacuous: %d concurrent rounds validated" % total_rounds)
    cov = {
        "evaluations": total_rounds,
        "distinct_nontrivial": total_rounds,
        "rule": "one evaluation = one concurrent round on a fresh real cesium.DB: a writer (two sessions on fresh time regions, "
                "auto/explicit commit, immediate/lazy/interval index persistence), a deleter on older data, a GC loop, a reader "
                "loop and an unrelated channel create/delete loop, at GOMAXPROCS in {1,2,4,16}, under -race and a 120 s stall "
                "watchdog; its call/ret trace plus the content read back in memory and after reopen is validated against "
                "CesiumLinTrace.tla (some serial order of the successful operations); every round's schedule is distinct",
        "samples": samples,
        "events_validated": total_events,
        "states": tstates + dstates, "transitions": ttrans + dtrans,
        "design_runs": design,
        "traces_validated_against_impl": total_rounds,
        "exhaustive": False,
    }
    return ctx.finish("exploration", cov, [
        "schedules are sampled, not enumerated; the Go race detector decides the data-race clause",
        "deletes are confined to time regions below every concurrently open writer (the property's 'disjoint time regions')",
        "rounds whose deletes cut a rollover-continuation domain (known finding C04-delete-in-inexact-start-domain) are skipped",
    ])


def replay(ctx, path):
    with open(path) as f:
        obj = json.load(f)
    if obj.get("kind") != "trace":
        print("replay: %s findings are reproduced by re-running the check (schedule-dependent)" % obj.get("kind"))
        return 0
    ok, hwm, r = validate(ctx, obj["trace"], "replay")
    if not ok:
        print("VIOLATION property=C09 replay=%s" % path)
        print("  recorded trace still rejected (high-water mark %s)" % hwm)
        return 1
    print("replay: recorded trace is accepted")
    return 0
