"""C11 - node keys are unique under concurrent joins and juror failures (DESIGN.md section 3, C11).

1. Pledge.tla (via PledgeMC.tla) is model checked: exhaustive small configurations with identical
   views (all invariants must hold) and configurations with stale views (UniqueKeys is expected to
   fail at the design level: quorums drawn from different views need not intersect).
2. PledgeGen.tla produces schedules: one per distinct duplicate-key state of the stale configurations
   (incl. the directed 5-member scenario of the DESIGN), one per distinct terminal state of the small
   configurations, and seeded simulations with every fault kind, gossip and joins.
3. The schedules are run against the REAL pledge package by the scheduler-gate harness (script mode:
   quorum forced, every reaction compared; free mode: seeded adversary, quorums random, real timeouts).
4. Verdict: UniqueKeys / SameClusterKey on the real pledge.Pledge responses; every observed event
   sequence is validated against PledgeTrace.tla (proposed key, quorum, juror verdict, admission).
   A duplicate produced by a trace the specification ACCEPTS with differing views is the design-level
   defect (known finding); any other duplicate or any rejected property-level step is a violation.
"""
import json
import os
import random

import vlib

AREA = "pledge"
GO = ("aspen", "./internal/cluster/pledge", ["zz_verif_pledge_test.go"])
ALL_FAULTS = '{"lost", "fail", "timeout", "late"}'

# name -> (members, InitView, InitUnhealthy, InitApprovals, AllowedVia) operators of PledgeMC.tla
CONF = {
    "same3": (3, "Same3View", "Empty", "Empty", "AllVia"),
    "same4": (4, "Same3View", "Empty", "Empty", "AllVia"),
    "stale3": (3, "Stale3View", "Empty", "Empty", "AllVia"),
    "stale3b": (3, "Stale3bView", "Empty", "Empty", "AllVia"),
    "stale5": (5, "Stale5View", "Stale5Unhealthy", "Stale5Approvals", "Stale5Via"),
    "stale5free": (5, "Stale5View", "Empty", "Stale5Approvals", "AllVia"),
}

SIG_SIZE = "C11 duplicate key: quorums drawn from views of different size do not intersect"
SIG_EQ = "C11 duplicate key: quorums drawn from different views of equal size do not intersect"
SIG_MEMBER = "C11 duplicate key: quorum drawn from a stale view assigned the key of an existing member"


def tla_set(xs):
    return "{" + ", ".join(str(x) for x in xs) + "}"


def cfg(conf, spec, maxprop, faults, joins, gossip, pledges=(101, 102), attempts=1, maxkey=9,
        invs=("TypeOK", "UniqueKeys", "AdmittedOnlyAfterFullQuorum", "SameClusterKey", "AboveSnapshot"),
        depth=None, view=False, maxlearn=2):
    n, v, u, a, via = CONF[conf]
    s = "SPECIFICATION %s\nCONSTANTS\n" % spec
    s += "  InitMember = %s\n  Pledge = %s\n" % (tla_set(range(1, n + 1)), tla_set(pledges))
    s += "  MaxProposals = %d\n  MaxAttempts = %d\n  MaxKey = %d\n" % (maxprop, attempts, maxkey)
    s += "  Gossip = %s\n  Joins = %s\n  Faults = %s\n" % ("TRUE" if gossip else "FALSE", "TRUE" if joins else "FALSE", faults)
    s += "  InitView <- %s\n  InitUnhealthy <- %s\n  InitApprovals <- %s\n  AllowedVia <- %s\n" % (v, u, a, via)
    if depth is not None:
        s += "  Depth = %d\n" % depth
    s += "  MaxLearn = %d\n" % maxlearn
    s += "CONSTRAINT KeyBound\nCONSTRAINT LearnBound\n"
    if view:
        s += "VIEW GView\n"
    s += "INVARIANTS %s\nCHECK_DEADLOCK FALSE\n" % " ".join(invs)
    return s


TRACE_CFG = """SPECIFICATION TSpec
CONSTANTS
  InitMember = {1, 2, 3, 4, 5, 6, 7, 8}
  Pledge = {101, 102, 103, 104}
  MaxProposals = %d
  MaxAttempts = 100
  MaxKey = 100000
  Gossip = TRUE
  Joins = TRUE
  Faults = {"lost", "fail", "timeout", "late"}
  InitView <- TEmpty
  InitUnhealthy <- TEmpty
  InitApprovals <- TEmpty
  AllowedVia <- TVia
INVARIANTS TypeOK AdmittedOnlyAfterFullQuorum SameClusterKey
CONSTRAINT Mark
POSTCONDITION Accepted
CHECK_DEADLOCK FALSE
"""


# ------------------------------------------------------------------ schedules
def tagged_json(res, tag):
    for body in res.tagged(tag):
        try:
            yield json.loads(json.loads(body))
        except Exception:
            continue


def scenario_from_hist(hist, sid):
    init, steps = hist[0], hist[1:]
    n = len(init["view"])
    return {
        "id": sid, "mode": "script", "force": True,
        "members": list(range(1, n + 1)), "pledges": sorted(init["pledges"]),
        "view": {str(i + 1): sorted(init["view"][i]) for i in range(n)},
        "unhealthy": {str(i + 1): sorted(init["un"][i]) for i in range(n)},
        "approvals": {str(i + 1): sorted(init["appr"][i]) for i in range(n)},
        "maxprop": init["maxprop"], "steps": steps,
    }


def story5():
    """The directed scenario of the DESIGN as a complete real story (no seeded approvals): a cluster
    {1,2,3}; nodes 4 and 5 join through member 1 (real pledges 103, 104); gossip reaches 1, 4, 5 but
    not 2 and 3; then pledge 101 joins through 1 (sees 2, 3 as suspect) while pledge 102 joins through
    3 (never learned 4, 5; sees 1 as suspect)."""
    S = []

    def st(a, p=0, m=0, k=0, q=(), ok=True, r=0):
        S.append({"a": a, "p": p, "m": m, "k": k, "q": list(q), "ok": ok, "r": r, "att": 0})
    st("start", 103, 1); st("propose", 103, 1, 4, (1, 2), r=1)
    st("deliver", 103, 1, 4, r=1); st("deliver", 103, 2, 4, r=1); st("admit", 103, k=4); st("join", 103, k=4)
    st("learn", m=1, k=4)
    for k in (1, 2, 3):
        st("learn", m=103, k=k)
    st("start", 104, 1); st("propose", 104, 1, 5, (1, 2, 4), r=1)
    st("deliver", 104, 1, 5, r=1); st("deliver", 104, 2, 5, r=1); st("deliver", 104, 4, 5, r=1)
    st("admit", 104, k=5); st("join", 104, k=5)
    st("learn", m=1, k=5); st("learn", m=103, k=5)
    for k in (1, 2, 3, 4):
        st("learn", m=104, k=k)
    # from here: the TLC counterexample of the directed configuration
    st("start", 101, 1); st("propose", 101, 1, 6, (1, 4, 5), r=1)
    st("start", 102, 3); st("propose", 102, 3, 4, (2, 3), r=1)
    st("deliver", 101, 5, 6, r=1)
    st("deliver", 102, 3, 4, r=1); st("deliver", 102, 2, 4, ok=False, r=1); st("retry", 102)
    st("propose", 102, 3, 5, (2, 3), r=2)
    st("deliver", 102, 3, 5, r=2)
    st("deliver", 101, 1, 6, r=1); st("deliver", 101, 4, 6, r=1); st("admit", 101, k=6); st("join", 101, k=6)
    st("deliver", 102, 2, 5, ok=False, r=2); st("retry", 102)
    st("propose", 102, 3, 6, (2, 3), r=3)
    st("deliver", 102, 2, 6, r=3); st("deliver", 102, 3, 6, r=3); st("admit", 102, k=6); st("join", 102, k=6)
    return {"id": "story5", "mode": "script", "force": True, "members": [1, 2, 3],
            "pledges": [101, 102, 103, 104], "view": {"1": [1, 2, 3], "2": [1, 2, 3], "3": [1, 2, 3]},
            "unhealthy": {}, "approvals": {}, "maxprop": 3, "steps": S}


def free_scenarios(rnd, n, maxprop):
    out = []
    for i in range(n):
        nm = rnd.choice([3, 3, 4, 5])
        members = list(range(1, nm + 1))
        kind = rnd.choice(["same", "same", "same", "stale"])
        view = {}
        for m in members:
            if kind == "same":
                view[str(m)] = list(members)
            else:
                v = [x for x in members if x == m or rnd.random() < 0.6]
                view[str(m)] = v
        un = {}
        for m in members:
            if rnd.random() < 0.25:
                others = [x for x in view[str(m)] if x != m]
                if others:
                    un[str(m)] = [rnd.choice(others)]
        np_ = rnd.choice([2, 2, 3])
        pledges = [101 + j for j in range(np_)]
        peers = {}
        for p in pledges:
            ps = list(members)
            rnd.shuffle(ps)
            peers[str(p)] = ps[:rnd.choice([1, 2, nm])]
        out.append({"id": "free%d_%s" % (i, kind), "mode": "free", "members": members, "pledges": pledges,
                    "view": view, "unhealthy": un, "approvals": {}, "maxprop": maxprop, "peers": peers,
                    "seed": rnd.randrange(1 << 30), "maxsteps": 80, "rt": rnd.random() < 0.25,
                    "gossip": rnd.random() < 0.7, "flux": rnd.random() < 0.3, "kind": kind})
    return out


# ------------------------------------------------------------------ running the harness
def run_harness(ctx, scenarios, tag, race=False):
    ip = ctx.path("sc_%s.ndjson" % tag)
    op = ctx.path("out_%s.ndjson" % tag)
    with open(ip, "w") as f:
        for sc in scenarios:
            f.write(json.dumps(sc, separators=(",", ":")) + "\n")
    rc, text, wall = ctx.go_test(GO[0], GO[1], GO[2], "^TestVerifPledge$",
                                 env={"VERIF_IN": ip, "VERIF_OUT": op, "VERIF_WORKERS": 6},
                                 tag="go_" + tag, race=race, timeout=1500)
    rows = ctx.read_ndjson(op)
    raced = False
    if "DATA RACE" in text:
        if "pledge.(*juror).verdict" in text:
            raced = True
            # uniqueness rests on a juror deciding one request at a time (j.mu)
            i = text.index("DATA RACE")
            ctx.report("C11 juror verdicts race on the approvals of one juror",
                       "the race detector reports two concurrent juror.verdict calls touching shared state", {"race": text[i:i + 2500]})
        else:
            raise vlib.Inconclusive("race detector fired in the pledge harness run:\n" + text[-3000:])
    if (rc != 0 and not raced) or not rows or not rows[0].get("summary") or len(rows) - 1 != len(scenarios):
        raise vlib.Inconclusive("pledge harness failed rc=%s:\n%s" % (rc, text[-2500:]))
    return rows[1:], wall


# ------------------------------------------------------------------ a small re-implementation of the
# specification's bookkeeping, used ONLY to word signatures (the verdict on a step comes from TLC)
class Mini:
    def __init__(self):
        self.reset([], 3)

    def reset(self, members, maxprop):
        self.key = {m: m for m in members}
        self.view, self.un, self.appr = {}, {}, {}
        self.resp, self.adm = {}, {}
        self.maxprop = maxprop

    def jok(self, j, k):
        return k not in self.appr.get(j, set()) and k > max(self.view.get(j, set()) or {0})

    def why(self, e):
        """Reason the event is not allowed in the current state (None if it looks allowed)."""
        ev, p = e["ev"], e["p"]
        r = self.resp.get(p)
        if ev == "propose":
            if not r or r["st"] != "propose":
                return "drift", "proposal in a state where none is due"
            v = self.view.get(r["via"], set())
            exp = (max(v or {0}) + 1) if r["key"] == 0 else r["key"] + 1
            if e["k"] != exp:
                if r["key"] != 0:
                    return "prop", "retry proposed key %d after key %d (must increment)" % (e["k"], r["key"]) if e["k"] > r["key"] else "retry reused the key (must increment on every retry)"
                return "prop", "first proposal is not the highest known key + 1"
            q = set(e["q"])
            if not q <= v or 2 * len(q) <= len(v):
                return "prop", "quorum is not a majority of the members known to the responsible"
            if len(q) != len(v) // 2 + 1:
                return "drift", "quorum larger than floor(n/2)+1"
            if q & self.un.get(r["via"], set()):
                return "drift", "quorum contains a member the view holds as unhealthy"
            if r["round"] >= self.maxprop:
                return "drift", "more proposals than MaxProposals"
            return None
        if ev in ("deliver", "lost", "late", "seed"):
            j = e["j"]
            ok = self.jok(j, e["k"])
            if e["ok"] != ok:
                if e["ok"]:
                    if e["k"] in self.appr.get(j, set()):
                        return "prop", "juror approved a key it had already approved"
                    return "prop", "juror approved a key that is not above every key it knows"
                return "drift", "juror rejected a key it should approve"
            return ("drift", "request not outstanding") if ev != "seed" else None
        if ev == "admit":
            if not r or r["st"] != "wait":
                return "prop", "admitted without a proposal outstanding"
            if r["bad"] or (r["ok"] != r["quorum"]):
                return "prop", "admitted without the approval of every member of the quorum"
            if e["k"] != r["key"]:
                return "prop", "admitted with a key other than the approved one"
            return None
        if ev == "admitted":
            a = self.adm.get(p)
            if not a or a["key"] != e["k"]:
                return "prop", "pledge received a key its responsible did not get approved"
            if e["ck"] != "K":
                return "prop", "pledge received a cluster key other than the cluster's"
            return None
        if ev == "extra":
            return "drift", "juror request outside the proposed quorum / key"
        return "drift", "%s not allowed here" % ev

    def apply(self, e):
        ev, p = e["ev"], e["p"]
        if ev == "reset":
            self.reset(e["members"], e["k"])
        elif ev == "view":
            self.view[e["m"]], self.un[e["m"]] = set(e["view"]), set(e["un"])
        elif ev in ("seed", "late"):
            self.appr.setdefault(e["j"], set()).add(e["k"])
        elif ev == "start":
            self.resp[p] = {"via": e["m"], "st": "propose", "key": 0, "round": 0, "quorum": set(), "ok": set(), "bad": set(), "snap": set()}
        elif ev == "propose":
            r = self.resp[p]
            r.update(key=e["k"], round=r["round"] + 1, quorum=set(e["q"]), ok=set(), bad=set(), st="wait",
                     snap=set(self.view.get(r["via"], set())))
        elif ev in ("deliver", "lost"):
            self.appr.setdefault(e["j"], set()).add(e["k"])
            r = self.resp.get(p)
            if r:
                (r["ok"] if (ev == "deliver" and e["ok"]) else r["bad"]).add(e["to"])
        elif ev in ("fail", "timeout"):
            if p in self.resp:
                self.resp[p]["bad"].add(e["to"])
        elif ev == "retry":
            if p in self.resp:
                self.resp[p]["st"] = "propose"
        elif ev == "giveup":
            self.resp.pop(p, None)
        elif ev == "admit":
            r = self.resp.get(p)
            if r:
                self.adm[p] = {"key": e["k"], "snap": set(r["snap"]), "quorum": set(r["quorum"]), "via": r["via"]}
                r["st"] = "done"
        elif ev == "admitted":
            self.key[p] = e["k"]


def explain(events, idx):
    m = Mini()
    for e in events[:idx]:
        m.apply(e)
    if 0 <= idx < len(events):
        w = m.why(events[idx])
        return w or ("drift", "%s not allowed here" % events[idx]["ev"])
    return "drift", "?"


def admissions(events):
    m = Mini()
    for e in events:
        try:
            m.apply(e)
        except Exception:
            break
    return m.adm


# ------------------------------------------------------------------ trace validation
def tlc_trace(ctx, items, tag, maxprop):
    """items: list of (scenario, events). One TLC run over the concatenation. Returns
    (accepted: bool, bad: (pos, event index, why) or None, distinct, generated)."""
    lines, spans = [], []
    for sc, evs in items:
        a = len(lines) + 1
        for e in evs:
            lines.append(json.dumps(e, separators=(",", ":")))
        spans.append((a, len(lines)))
    name, cfgname, mod = "trace_%s.ndjson" % tag, "trace_%s.cfg" % tag, "PledgeTrace_%s" % tag
    d = ctx.spec_copy(AREA)
    with open(os.path.join(d, "PledgeTrace.tla")) as f:
        text = f.read().replace("MODULE PledgeTrace", "MODULE " + mod).replace('"trace.ndjson"', '"%s"' % name)
    r = ctx.tlc(AREA, mod, cfgname, files={name: "\n".join(lines) + "\n", cfgname: TRACE_CFG % maxprop, mod + ".tla": text},
                workers=1, tag="tv_" + tag, timeout=1200, expect_violation=True)
    hw = None
    for b in r.tagged("HW"):
        try:
            hw = int(b)
        except ValueError:
            pass
    why = "unexplained"
    if r.violated:
        last = None
        for ln in r.lines():
            ln = ln.strip()
            if ln.startswith("/\\ l = "):
                try:
                    last = int(ln.split("=")[1])
                except ValueError:
                    pass
        # the invariant fails in the state AFTER event l-1
        hw = (last or 2) - 1
        why = "invariant " + r.violated
    elif r.rc == 0 and not r.postcondition_failed and hw is None and not r.error:
        return True, None, r.distinct, r.generated
    elif hw is None:
        raise vlib.Inconclusive("trace validation gave no verdict (rc=%s): %s" % (r.rc, "\n".join(list(r.lines())[-15:])))
    if hw == len(lines) + 1:
        return True, None, r.distinct, r.generated
    for pos, (a, b) in enumerate(spans):
        if a <= hw <= b:
            return False, (pos, hw - a, why), r.distinct, r.generated
    raise vlib.Inconclusive("cannot locate rejected event %s" % hw)


def validate_all(ctx, items, tag, maxprop, max_bad=10, chunk=400):
    """Validate every scenario's events; returns (accepted ids set, rejections {id: (idx, why)},
    distinct, generated, unvalidated count)."""
    accepted, rejected = set(), {}
    dist = gen = 0
    todo = list(items)
    n = 0
    skipped = 0
    while todo:
        part, todo = todo[:chunk], todo[chunk:]
        while part:
            if len(rejected) >= max_bad:
                skipped += len(part) + len(todo)
                return accepted, rejected, dist, gen, skipped
            n += 1
            ok, bad, d, g = tlc_trace(ctx, part, "%s_%d" % (tag, n), maxprop)
            dist += d
            gen += g
            if ok:
                accepted |= {sc["id"] for sc, _ in part}
                part = []
            else:
                pos, idx, why = bad
                accepted |= {sc["id"] for sc, _ in part[:pos]}
                rejected[part[pos][0]["id"]] = (idx, why)
                part = part[pos + 1:]
    return accepted, rejected, dist, gen, skipped


# ------------------------------------------------------------------ judging
def duplicates(sc, row):
    """Pairs of nodes holding the same key according to the REAL pledge.Pledge responses."""
    held = {("m", m): m for m in sc["members"]}
    for p, r in row["responses"].items():
        held[("p", int(p))] = r["key"]
    items = sorted(held.items(), key=lambda kv: str(kv[0]))
    dups = []
    for i in range(len(items)):
        for j in range(i + 1, len(items)):
            if items[i][1] == items[j][1] and (items[i][0][0] == "p" or items[j][0][0] == "p"):
                dups.append((items[i][0], items[j][0], items[i][1]))
    return dups


def dup_signature(sc, row, dups, accepted, rej):
    a, b, k = dups[0]
    if not accepted:
        idx, why = rej
        kind, reason = explain(row["events"], idx) if not why.startswith("invariant") else ("prop", why)
        return "C11 duplicate key %d after a step the protocol does not allow: %s" % (k, reason), reason
    adm = admissions(row["events"])
    if a[0] == "m" or b[0] == "m":
        return SIG_MEMBER, "existing member key %d" % k
    sa, sb = adm.get(a[1], {}).get("snap"), adm.get(b[1], {}).get("snap")
    if sa is None or sb is None:
        return "C11 duplicate key %d: admission not in the trace" % k, ""
    if sa == sb:
        return "C11 duplicate key %d with identical views although every step conforms to Pledge.tla" % k, ""
    qa, qb = adm[a[1]]["quorum"], adm[b[1]]["quorum"]
    detail = "key %d approved by quorum %s of view %s and by quorum %s of view %s" % (k, sorted(qa), sorted(sa), sorted(qb), sorted(sb))
    return (SIG_SIZE if len(sa) != len(sb) else SIG_EQ), detail


def judge(ctx, scenarios, rows, tag, maxprop, stats):
    """Direct checks on the real responses + trace validation. Reports through ctx.report."""
    by_id = {sc["id"]: (sc, row) for sc, row in zip(scenarios, rows)}
    stalled = [(sc["id"], row["stalled"]) for sc, row in zip(scenarios, rows) if row.get("stalled")]
    items = [(sc, row["events"]) for sc, row in zip(scenarios, rows) if row["events"] and not row.get("stalled")]
    accepted, rejected, dist, gen, skipped = validate_all(ctx, items, tag, maxprop)
    stats["tv_distinct"] = stats.get("tv_distinct", 0) + dist
    stats["tv_generated"] = stats.get("tv_generated", 0) + gen
    stats["accepted"] = stats.get("accepted", 0) + len(accepted)
    stats["unvalidated"] = stats.get("unvalidated", 0) + skipped
    drift = []
    for sc, row in zip(scenarios, rows):
        sid = sc["id"]
        for e in row["events"]:
            stats["ev_" + e["ev"]] = stats.get("ev_" + e["ev"], 0) + 1
            if e["ev"] in ("deliver", "lost", "late") and not e["ok"]:
                stats["ev_rejected_verdict"] = stats.get("ev_rejected_verdict", 0) + 1
        if sc.get("rt"):
            stats["rt_scenarios"] = stats.get("rt_scenarios", 0) + 1
        stats["concurrent_pairs"] = stats.get("concurrent_pairs", 0) + row.get("stats", {}).get("pair", 0)
        if len(ctx.violations) >= 8:
            break       # enough evidence; every further scenario costs a TLC run
        dups = duplicates(sc, row)
        cks = [r["ck"] for r in row["responses"].values()]
        if sid not in accepted and sid not in rejected and not dups and all(c == "K" for c in cks):
            continue
        if dups:
            stats["dup_scenarios"] = stats.get("dup_scenarios", 0) + 1
            if sid not in accepted and sid not in rejected:
                # not reached by the batch validation (stalled, or the rejection budget ran out)
                ok1, bad1, _, _ = tlc_trace(ctx, [(sc, row["events"])], "%s_one%d" % (tag, stats["dup_scenarios"]), maxprop)
                if ok1:
                    accepted.add(sid)
                else:
                    rejected[sid] = (bad1[1], bad1[2])
            sig, detail = dup_signature(sc, row, dups, sid in accepted, rejected.get(sid))
            what = "two nodes hold node key %d (%s and %s) in scenario %s: %s" % (
                dups[0][2], dups[0][0], dups[0][1], sid, detail)
            reproduce(ctx, sc, sig, what, row, lambda r2: bool(duplicates(sc, r2)))
            continue
        if any(c != "K" for c in cks):
            reproduce(ctx, sc, "C11 pledge received a cluster key other than the cluster's",
                      "pledge.Pledge returned a foreign ClusterKey in scenario %s" % sid, row,
                      lambda r2: any(r["ck"] != "K" for r in r2["responses"].values()))
            continue
        if sid in rejected:
            idx, why = rejected[sid]
            if why.startswith("invariant"):
                kind, reason = "prop", why
            else:
                kind, reason = explain(row["events"], idx)
            ev = row["events"][idx] if 0 <= idx < len(row["events"]) else {}
            if kind == "prop" and late_extra(row["events"], idx):
                kind, reason = "drift", "batch of juror requests reached the gate in two parts"
            if kind == "prop":
                sig = "C11 step not allowed: %s" % reason
                what = "scenario %s event %d %s: %s" % (sid, idx, json.dumps({k: v for k, v in ev.items() if v not in (0, [], "none")}, sort_keys=True), reason)
                reproduce(ctx, sc, sig, what, row, None, idx=idx, why=reason)
            else:
                drift.append("%s event %d (%s): %s" % (sid, idx, ev.get("ev"), reason))
    diverged = [(sc["id"], row["diverged"]) for sc, row in zip(scenarios, rows)
                if row.get("diverged") and sc["id"] in accepted]
    return drift, diverged, stalled


def reproduce(ctx, sc, sig, what, row, still, idx=None, why=None):
    """Re-run the scenario once from scratch; report only what shows up again (the same duplicate, or -
    the real code picks quorums at random in free mode - any step the property forbids)."""
    import re
    known = any(k.get("status") == "known" and re.search(k["signature"], sig) for k in ctx._known)
    if sig in [v[0] for v in ctx.violations]:
        ctx.report(sig, what, {})
        return
    for k in ctx._known:
        if k.get("status") == "known" and re.search(k["signature"], sig) and k["id"] in [h[0] for h in ctx.known_hits]:
            ctx.known_count = getattr(ctx, "known_count", 0) + 1
            return
    if len(ctx.violations) >= 8:
        return
    ctx.repro_n = getattr(ctx, "repro_n", 0) + 1
    rows2, _ = run_harness(ctx, [sc], "repro%d" % ctx.repro_n)
    r2 = rows2[0]
    again = bool(still and still(r2))
    if not again and not known:
        ok, bad, _, _ = tlc_trace(ctx, [(sc, r2["events"])], "repro%d" % ctx.repro_n, sc["maxprop"])
        if not ok:
            k2, _w = explain(r2["events"], bad[1]) if not bad[2].startswith("invariant") else ("prop", bad[2])
            again = (k2 == "prop") and not late_extra(r2["events"], bad[1])
    if not again:
        if not known:
            ctx.unreproduced = getattr(ctx, "unreproduced", []) + [what]
        return
    ctx.report(sig, what, {"scenario": sc, "observed_events": row["events"], "responses": row["responses"],
                           "cmd": "python3 tools/verif.py replay C11 <this file>"})


def late_extra(events, idx):
    """A proposal the harness logged short because part of the batch reached the gate late (the rest
    shows up as `extra` events of the same pledge and key): harness timing, not the code."""
    if not (0 <= idx < len(events)) or events[idx]["ev"] != "propose":
        return False
    e = events[idx]
    return any(x["ev"] == "extra" and x["p"] == e["p"] and x["k"] == e["k"] for x in events[idx + 1:])


# ------------------------------------------------------------------ main
def extra_known(ctx):
    """Development aid: VERIF_KNOWN_EXTRA=<json file with a "findings" list> is consulted in addition to
    known_findings.json (builders do not edit that file)."""
    p = os.environ.get("VERIF_KNOWN_EXTRA")
    if p and os.path.exists(p):
        with open(p) as f:
            for e in json.load(f).get("findings", []):
                if e.get("property") == ctx.pid and e not in ctx._known:
                    ctx._known.append(e)


def wiring_stage(ctx):
    """The specification's `view` (members known to the coordinator) is what cluster.newConfig wires
    into pledge as Candidates: all members of the cluster store, whatever their health."""
    out = ctx.path("wiring.json")
    rc, text, wall = ctx.go_test("aspen", "./internal/cluster", ["zz_verif_pledgewiring_test.go"], "^TestVerifPledgeWiring$",
                                 env={"VERIF_OUT": out}, tag="wiring", timeout=600)
    rows = ctx.read_ndjson(out)
    if rc != 0 or not rows:
        raise vlib.Inconclusive("pledge wiring harness failed rc=%s:\n%s" % (rc, text[-2000:]))
    r = rows[0]
    if r.get("error"):
        raise vlib.Inconclusive("pledge wiring harness: %s" % r["error"])
    if not r.get("ok"):
        ctx.report("C11 wiring: pledge candidates are not the members known to the node",
                   "cluster.newConfig: with members %s in the cluster store (healthy, suspect and dead ones), Pledge.Candidates() returns %s: "
                   "quorums are sized from, and proposed keys are checked against, a subset of the known members" % (r.get("want"), r.get("got")),
                   {"layer": "wiring", "row": r})
    return r


def run(ctx):
    extra_known(ctx)
    wiring = wiring_stage(ctx)
    thorough = ctx.tier == "thorough"
    rnd = random.Random(ctx.seed)
    states = trans = 0
    design = []
    stats = {}
    notes = ctx.notes

    def mc(name, conf, maxprop, faults, joins, gossip, expect_dup, workers=6, pledges=(101, 102), attempts=1, maxlearn=2):
        nonlocal states, trans
        r = ctx.tlc(AREA, "PledgeMC", name + ".cfg",
                    files={name + ".cfg": cfg(conf, "SpecR", maxprop, faults, joins, gossip, pledges=pledges, attempts=attempts,
                                              maxlearn=maxlearn)},
                    tag="mc_" + name, workers=workers, timeout=3000, expect_violation=True)
        states += r.distinct
        trans += r.generated
        design.append({"config": name, "distinct": r.distinct, "generated": r.generated, "violated": r.violated,
                       "expected_violation": "UniqueKeys" if expect_dup else None, "wall_s": round(r.wall, 1)})
        if r.error or (r.violated and r.violated != "UniqueKeys"):
            raise vlib.Inconclusive("design check %s: %s" % (name, r.violated or r.error))
        if r.violated and not expect_dup:
            # a design-level counterexample with identical views is unexpected; the real code decides
            notes.append("design: UniqueKeys violated in %s" % name)
        if expect_dup and not r.violated:
            raise vlib.Inconclusive("design check %s: the stale-view duplicate was not found (specification changed?)" % name)
        return r

    # 1. design level ------------------------------------------------------------------
    mc("same3_f", "same3", 3 if thorough else 2, '{"lost", "fail"}', False, False, False)
    mc("same3_j", "same3", 2, "{}", True, True, False, maxlearn=2 if thorough else 1)
    if thorough:
        mc("same4_n", "same4", 2, "{}", False, False, False)
    mc("stale3", "stale3", 2, "{}", False, False, True, workers=2)
    mc("stale5", "stale5", 3, "{}", False, False, True, workers=2)

    # 2. schedules ---------------------------------------------------------------------
    scenarios = []
    samples = []

    def gen(name, conf, maxprop, faults, joins, gossip, inv, view, depth, simulate=None, pledges=(101, 102),
            attempts=1, tagname="HIST", limit=None, workers=4):
        r = ctx.tlc(AREA, "PledgeGen", name + ".cfg",
                    files={name + ".cfg": cfg(conf, "GSpec", maxprop, faults, joins, gossip, pledges=pledges,
                                              attempts=attempts, invs=("TypeOK", inv), depth=depth, view=view, maxkey=12)},
                    tag="gen_" + name, workers=workers, timeout=1500, simulate=simulate,
                    depth=(depth + 2) if simulate else None, expect_violation=True)
        if r.error:
            raise vlib.Inconclusive("generator %s: %s" % (name, r.error))
        hs = list(tagged_json(r, "DUP" if inv.startswith("Dup") else tagname))
        if limit and len(hs) > limit:
            hs = vlib.sample(hs, limit, ctx.seed)
        out = [scenario_from_hist(h, "%s_%d" % (name, i)) for i, h in enumerate(hs)]
        return out, r

    # 2a. directed: the DESIGN's 5-member scenario (TLC counterexample, and as a full real story)
    d5, _ = gen("dup5", "stale5", 3, "{}", False, False, "DupEmit", True, 80, workers=2)
    if not d5:
        raise vlib.Inconclusive("TLC produced no duplicate-key schedule for the directed configuration")
    d5[0]["id"] = "stale5_directed"
    directed = [d5[0], story5()]
    # 2b. one schedule per distinct duplicate-key state of the stale configurations
    for name, conf, mp, jg in (("dup3", "stale3", 2, False),) + ((("dup3j", "stale3", 2, True), ("dup5all", "stale5", 3, False)) if thorough else ()):
        ds, _ = gen(name, conf, mp, "{}", jg, jg, "DupPrint", True, 80, limit=150 if thorough else 40)
        if not ds:
            raise vlib.Inconclusive("no duplicate-key schedule generated for %s" % name)
        directed += ds
    # 2c. one schedule per distinct terminal state of the small identical-view configuration
    term, r = gen("term3", "same3", 2, '{"lost", "fail"}', False, False, "Emit", True, 80,
                  limit=3000 if thorough else 400)
    states += r.distinct
    trans += r.generated
    scenarios += term
    # 2d. seeded simulations with every fault kind, gossip, joins, three pledges, two contacts each
    nsim = 2500 if thorough else 250
    for name, conf, share in (("sim_same3", "same3", 0.5), ("sim_stale3", "stale3", 0.2), ("sim_stale3b", "stale3b", 0.15),
                              ("sim_stale5", "stale5free", 0.15)):
        # (the simulator also evaluates Emit on the siblings of the last step: more schedules than num)
        ss, _ = gen(name, conf, 3, ALL_FAULTS, True, True, "Emit", False, 48, simulate="num=%d" % max(6, int(nsim * share / 6)),
                    pledges=(101, 102, 103), attempts=2, limit=max(10, int(nsim * share)))
        if not ss:
            raise vlib.Inconclusive("no simulated schedules (%s)" % name)
        scenarios += ss
    samples.append({"directed": d5[0]["steps"][:6]})
    # 2e. free mode
    free = free_scenarios(rnd, 1500 if thorough else 200, 3)

    # 3. run ---------------------------------------------------------------------------
    walls = {}
    rows_d, walls["directed"] = run_harness(ctx, directed, "directed")
    race = thorough or bool(os.environ.get("VERIF_RACE"))
    rows_s, walls["script"] = run_harness(ctx, scenarios, "script", race=race)
    rows_f, walls["free"] = run_harness(ctx, free, "free", race=race)

    # the directed 5-member schedules must be executed to the end for their verdict to mean anything
    incomplete = ["%s: %s" % (sc["id"], row.get("stalled") or row.get("diverged"))
                  for sc, row in list(zip(directed, rows_d))[:2] if row.get("stalled") or row.get("diverged")]

    # the two directed schedules are kept as replay artifacts of the known finding
    if not ctx.replay_path:
        for sc, row in list(zip(directed, rows_d))[:2]:
            if duplicates(sc, row):
                ctx.save_replay({"scenario": sc, "responses": row["responses"], "property": "C11",
                                 "note": "directed stale-view schedule; both real pledge.Pledge calls return the same key",
                                 "cmd": "python3 tools/verif.py replay C11 <this file>"}, name="known-%s.json" % sc["id"])

    # 4. judge -------------------------------------------------------------------------
    drift, diverged, stalled = [], [], []
    for scs, rows, tag in ((directed, rows_d, "d"), (scenarios, rows_s, "s"), (free, rows_f, "f")):
        # PledgeTrace takes MaxProposals as a constant: one validation run per value
        for mp in sorted({sc["maxprop"] for sc in scs}):
            pairs = [(sc, row) for sc, row in zip(scs, rows) if sc["maxprop"] == mp]
            d, v, s = judge(ctx, [x[0] for x in pairs], [x[1] for x in pairs], "%s%d" % (tag, mp), mp, stats)
            drift += d
            diverged += v
            stalled += s
    total = len(directed) + len(scenarios) + len(free)

    if not ctx.violations:
        if getattr(ctx, "unreproduced", None):
            raise vlib.Inconclusive("did not reproduce on a re-run: %s" % ctx.unreproduced[0])
        if incomplete:
            raise vlib.Inconclusive("directed scenario did not run to the end: %s" % incomplete[0])
        if stalled:
            raise vlib.Inconclusive("harness stalled in %d scenarios, e.g. %s" % (len(stalled), stalled[0]))
        if drift:
            raise vlib.Inconclusive("model drift (not a statement of the property) in %d scenarios, e.g. %s" % (len(drift), drift[0]))
        if diverged:
            raise vlib.Inconclusive("real code left the TLC schedule on a path the specification also allows in %d scenarios, e.g. %s" % (len(diverged), diverged[0]))
        if stats.get("unvalidated"):
            raise vlib.Inconclusive("%d traces not validated" % stats["unvalidated"])
        need = ["ev_deliver", "ev_lost", "ev_fail", "ev_timeout", "ev_late", "ev_retry", "ev_giveup", "ev_admitted",
                "ev_rejected_verdict", "rt_scenarios", "concurrent_pairs"]
        missing = [k for k in need if not stats.get(k)]
        if missing:
            raise vlib.Inconclusive("vacuous run: never exercised %s" % missing)

    cov = {
        "states": states, "transitions": trans,
        "traces_validated_against_impl": stats.get("accepted", 0),
        "scenarios_run": total,
        "samples": samples,
        "exhaustive": True,
        "design_runs": design,
        "mechanisms": {k: v for k, v in sorted(stats.items())},
        "harness_wall_s": {k: round(v, 1) for k, v in walls.items()},
        "rule": "Pledge.tla exhaustively for 3 members x 2 pledges x <=%d proposals (identical views: all invariants hold; stale views: "
                "UniqueKeys fails by design). Real pledge.Arbitrate/pledge.Pledge driven through a scheduler gate by: the TLC counterexample of the "
                "directed 5-member configuration (seeded and as a full real story), one schedule per distinct duplicate state of the stale "
                "configurations, one per distinct terminal state of the identical-view configuration, seeded simulations with every fault kind, "
                "and a seeded free adversary with real timeouts; every observed trace validated against PledgeTrace.tla, UniqueKeys/SameClusterKey "
                "checked on the real responses" % (3 if thorough else 2),
        "notes": notes,
    }
    return ctx.finish("model_checking", cov, [
        "TLC/SANY; the scheduler gate serialises network events (one driver), local steps of a responsible are not interleaved with the driver",
        "juror approvals are reconstructed from the observed verdict events (private to a closure in the code)",
        "a timeout in script mode is the error context.DeadlineExceeded returned by the transport while the request stays in the network; "
        "real RequestTimeout expiry is exercised in the free mode scenarios flagged rt",
        "juror process restarts (approvals are in memory) are outside the property's quantifier and not modelled",
    ])


def replay(ctx, path):
    extra_known(ctx)
    with open(path) as f:
        obj = json.load(f)
    sc = obj["scenario"]
    rows, _ = run_harness(ctx, [sc], "replay")
    row = rows[0]
    dups = duplicates(sc, row)
    ok, bad, _, _ = tlc_trace(ctx, [(sc, row["events"])], "replay", sc["maxprop"])
    if dups:
        print("VIOLATION property=C11 replay=%s" % path)
        print("  duplicate key %s; trace %s by PledgeTrace.tla" % (dups[0], "accepted" if ok else "rejected at event %d" % bad[1]))
        return 1
    if not ok:
        kind, reason = explain(row["events"], bad[1])
        print("VIOLATION property=C11 replay=%s" % path if kind == "prop" else "DRIFT property=C11")
        print("  event %d: %s" % (bad[1], reason))
        return 1 if kind == "prop" else 2
    print("replay: scenario passes on the current tree (responses %s)" % json.dumps(row["responses"], sort_keys=True))
    return 0


def selftest(ctx):
    """Binding self-test: the trace of the real story5 run is accepted; with one observation corrupted
    (a verdict flipped, a quorum member dropped, a retry key not incremented, an approval event
    removed, a foreign cluster key) PledgeTrace.tla must reject it."""
    import copy
    sc = story5()
    rows, _ = run_harness(ctx, [sc], "selftest")
    evs = rows[0]["events"]
    ok, bad, _, _ = tlc_trace(ctx, [(sc, evs)], "st_base", 3)
    if not ok:
        print("selftest: base trace rejected at %s" % (bad,))
        return 1
    failures = 0

    def corrupt(name, fn):
        nonlocal failures
        e2 = copy.deepcopy(evs)
        fn(e2)
        ok2, bad2, _, _ = tlc_trace(ctx, [(sc, e2)], "st_" + name, 3)
        print("selftest %-18s %s" % (name, "rejected at event %d (%s)" % (bad2[1], bad2[2]) if not ok2 else "ACCEPTED (bad)"))
        if ok2:
            failures += 1

    def idx(pred, nth=0):
        hits = [i for i, e in enumerate(evs) if pred(e)]
        return hits[nth]

    corrupt("verdict_flip", lambda t: t[idx(lambda e: e["ev"] == "deliver" and not e["ok"])].update(ok=True))
    corrupt("quorum_minority", lambda t: t[idx(lambda e: e["ev"] == "propose" and len(e["q"]) == 3)].update(q=[1, 4]))
    corrupt("retry_same_key", lambda t: t[idx(lambda e: e["ev"] == "propose" and e["r"] == 2)].update(k=4))
    corrupt("approval_dropped", lambda t: t.pop(idx(lambda e: e["ev"] == "deliver" and e["p"] == 101, 2)))
    corrupt("foreign_cluster_key", lambda t: t[idx(lambda e: e["ev"] == "admitted")].update(ck="other"))
    corrupt("admitted_other_key", lambda t: t[idx(lambda e: e["ev"] == "admitted")].update(k=9))
    print("selftest: %s" % ("ok" if not failures else "%d corruptions accepted" % failures))
    import shutil
    shutil.rmtree(ctx.build, ignore_errors=True)
    return 1 if failures else 0
