"""Shared machinery for C06 (aspen replicas converge) and C13 (kv observers).

spec/aspenkv/AspenKV.tla       cluster design spec (named deviations = windows)
spec/aspenkv/AspenKVGen.tla    ingress behaviours for layer (a)
spec/aspenkv/AspenKVTrace.tla  trace validation for layer (b)
harness/aspen/internal/kv/zz_verif_kv_test.go
"""
import json
import os

import vlib

AREA = "aspenkv"
HARNESS = ["zz_verif_kv_test.go"]
WINDOWS = ["RecoveryUnchecked", "VolatileStore", "StaleFeedback", "MultiLease", "PrematureRemoval"]
# windows the masked runs do not step into. "StaleFeedback" is no longer one of them: store.go was
# repaired (a recovered mark only replaces the store entry of the same operation) and the model
# follows; the as-was behaviour is the deviation switch "StaleFeedbackOverwrite" of AspenKV.tla.
# "RecoveryUnchecked" left them too: recovery.go was repaired (mark loaded once, peers in turn, only
# superseding operations applied); as-was = deviation "RecoveryUncheckedApply".
MASKED = [w for w in WINDOWS if w not in ("StaleFeedback", "RecoveryUnchecked")]
ASWAS_STALEFB = ["StaleFeedbackOverwrite"]
ASWAS_RECOVERY = ["RecoveryUncheckedApply"]
# as written up to a990c2d: the recovery transaction is not serialised with the gossip ingress
ASWAS_RECOVERY_INGRESS = ["RecoveryNotSerialised"]

C06_KINDS = {"engine", "value", "order", "regress", "diverged"}
C13_KINDS = {"notify-raw", "notify-p", "notify-f", "txlh", "incomplete", "dup", "stale", "unstored", "missed",
             "filter-shown", "filter-hidden"}
DRIFT_KINDS = {"feedback", "forward", "local-result"}


def tset(xs):
    return "{" + ", ".join('"%s"' % x for x in xs) + "}"


def nset(xs):
    return "{" + ", ".join(str(x) for x in xs) + "}"


# ------------------------------------------------------------------ design checks (TLC on AspenKV)

def mc_cfg(nodes, keys, maxver, maxnet, faults, restarts, subs=False, lag=False, ackafter=False,
           masked=MASKED, thr=1, deviations=(), extra_inv=""):
    return """SPECIFICATION Spec
CONSTANTS
  Node = %s
  Key = %s
  MaxVer = %d
  Threshold = %d
  MaxNet = %d
  MaxFaults = %d
  MaxRestarts = %d
  WithSubs = %s
  AllowLag = %s
  AckAfter = %s
  Masked = %s
  Deviations = %s
CONSTRAINT NetBound
INVARIANTS TypeOK OrderIndependence SameSetSameState QuiescentConverged LeaseVersions AtMostOnce NeverStale CompleteWhileKeepingUp HostFilterExact %s
PROPERTIES NoRegress
CHECK_DEADLOCK FALSE
""" % (nset(nodes), tset(keys), maxver, thr, maxnet, faults, restarts,
       "TRUE" if subs else "FALSE", "TRUE" if lag else "FALSE", "TRUE" if ackafter else "FALSE", tset(masked),
       tset(deviations), extra_inv)


def design_runs(tier, want):
    """(tag, cfg-kwargs, expect) - expect None = must hold; else the window that is un-masked."""
    runs = []
    if want == "C06":
        runs.append(("m2n1k", dict(nodes=[1, 2], keys=["k1"], maxver=2, maxnet=2, faults=1, restarts=1, ackafter=True), None))
        runs.append(("m2n2k", dict(nodes=[1, 2], keys=["k1", "k2"], maxver=2, maxnet=1, faults=0, restarts=1), None))
        if tier == "thorough":
            runs.append(("m2n1k3v", dict(nodes=[1, 2], keys=["k1"], maxver=3, maxnet=2, faults=1, restarts=1), None))
            runs.append(("m3n1k", dict(nodes=[1, 2, 3], keys=["k1"], maxver=1, maxnet=2, faults=0, restarts=1), None))
        # every named window is real at design level: un-masking it must break an invariant
        un = lambda ws: [w for w in MASKED if w not in ws]
        runs.append(("w_volatile", dict(nodes=[1, 2], keys=["k1"], maxver=2, maxnet=2, faults=0, restarts=1, masked=un(["VolatileStore"])), "VolatileStore"))
        # self-test of the repaired model: (1) the situation the repair is about - a mark reaching the
        # threshold over a different, newer store entry - is reachable in the masked runs (the probe
        # invariant NoStaleHit must be reported violated); (2) with the as-was deviation switched back
        # on, the same environment still produces the stale-feedback counterexample
        runs.append(("v_stalehit", dict(nodes=[1, 2], keys=["k1"], maxver=2, maxnet=2, faults=0, restarts=0, extra_inv="NoStaleHit"), "probe:NoStaleHit"))
        runs.append(("w_stalefb_aswas", dict(nodes=[1, 2], keys=["k1"], maxver=2, maxnet=2, faults=0, restarts=0, deviations=ASWAS_STALEFB), "StaleFeedback"))
        runs.append(("w_multilease", dict(nodes=[1, 2], keys=["k1"], maxver=2, maxnet=1, faults=0, restarts=0, masked=un(["MultiLease"])), "MultiLease"))
        # repaired recovery, 3 nodes, restarts free (the masked runs above have MaxRestarts 1 as well):
        # must hold; as-was deviation with the same environment: must still violate
        runs.append(("m3n1k2v_rec", dict(nodes=[1, 2, 3], keys=["k1"], maxver=2, maxnet=1, faults=0, restarts=1), None))
        runs.append(("w_recovery_aswas", dict(nodes=[1, 2, 3], keys=["k1"], maxver=2, maxnet=1, faults=0, restarts=1, deviations=ASWAS_RECOVERY), "RecoveryUnchecked"))
        # recovery vs gossip ingress: with the read/commit of the recovery transaction split and ingress
        # allowed in between (as written) a newer accepted operation is overwritten; atomic (default) holds
        # (the masked runs above deliver gossip to nodes in "rec" between the peers' recoveries)
        runs.append(("w_recovery_ingress_aswas", dict(nodes=[1, 2], keys=["k1"], maxver=2, maxnet=2, faults=0, restarts=1,
                                                      deviations=ASWAS_RECOVERY_INGRESS), "RecoveryVsIngress"))
        runs.append(("w_premature", dict(nodes=[1, 2, 3], keys=["k1"], maxver=1, maxnet=2, faults=0, restarts=0, masked=un(["PrematureRemoval"])), "PrematureRemoval"))
    else:
        runs.append(("s2n1k", dict(nodes=[1, 2], keys=["k1"], maxver=2, maxnet=1, faults=1, restarts=1, subs=True, lag=True), None))
        if tier == "thorough":
            runs.append(("s2n2k", dict(nodes=[1, 2], keys=["k1", "k2"], maxver=2, maxnet=1, faults=0, restarts=0, subs=True, lag=False), None))
    return runs


def run_design(ctx, want):
    states = trans = 0
    design = []
    for tag, kw, expect in design_runs(ctx.tier, want):
        r = ctx.tlc(AREA, "AspenKV", "mc.cfg", files={"mc.cfg": mc_cfg(**kw)}, tag="mc_" + tag,
                    workers=6, timeout=1500, expect_violation=expect is not None)
        states += r.distinct
        trans += r.generated
        row = {"cfg": tag, "distinct": r.distinct, "generated": r.generated, "violated": r.violated,
               "wall_s": round(r.wall, 1), "unmasked": expect}
        design.append(row)
        if expect is None and r.violated:
            # a design-level counterexample is not a verdict about the code (DESIGN 2.5); the
            # bindings below decide. But it means the masked spec is wrong: say so, exit 2 later.
            ctx.notes.append("design: %s violated in masked config %s" % (r.violated, tag))
        if expect is not None and not r.violated:
            ctx.notes.append("design: un-masking %s did not break any invariant in %s" % (expect, tag))
        if expect is not None and expect.startswith("probe:") and r.violated != expect[6:]:
            ctx.notes.append("design: masked config: probe %s not reached (%s) in %s" % (expect[6:], r.violated, tag))
    return states, trans, design


# ------------------------------------------------------------------ layer (a): ingress replay

def gen_cfg(pool, npools, dup, batch, nlocal, c0s, late, keys=("k1", "k2"), vers=(1, 2, 3), fail=0, rfail=0):
    return """SPECIFICATION GSpec
CONSTANTS
  Host = 2
  Remote = {1, 3}
  Key = %s
  GVers = %s
  PoolSize = %d
  NPools = %d
  MaxDup = %d
  MaxBatch = %d
  NLocal = %d
  C0s = %s
  LateSub = %s
  MaxFail = %d
  MaxReadFail = %d
INVARIANTS Emit GOrderIndependence
CHECK_DEADLOCK FALSE
""" % (tset(keys), nset(vers), pool, npools, dup, batch, nlocal, nset(c0s), "TRUE" if late else "FALSE", fail, rfail)


STALL_N, STALL_LATE_AT, STALL_MIN_ACCEPTED = 120, 50, 70


def stall_cfg():
    """AspenKVStallGen: long single-operation streams; a stalled subscriber + fast ones."""
    return """SPECIFICATION SSpec
CONSTANTS
  Host = 2
  Remote = {1, 3}
  Key = {"k1", "k2"}
  N = %d
  LateAt = %d
INVARIANTS SEmit
CHECK_DEADLOCK FALSE
""" % (STALL_N, STALL_LATE_AT)


def gen_runs(tier):
    """Bounded-exhaustive families. npools=0: every pool of that size (exhaustive over
    2 keys x 3 versions x 2 remote leaseholders x set/delete); else a seeded random subset."""
    q = tier != "thorough"
    return [
        # every pool of 1..3 ops, every permutation and batching
        ("p1", dict(pool=1, npools=0, dup=2, batch=3, nlocal=1, c0s=[0, 1, 2], late=True)),
        ("p2", dict(pool=2, npools=0, dup=0, batch=2, nlocal=0, c0s=[0], late=False)),
        ("p2dup", dict(pool=2, npools=0 if not q else 60, dup=2, batch=4, nlocal=0, c0s=[0], late=False)),
        ("p2loc", dict(pool=2, npools=10 if q else 90, dup=1, batch=3, nlocal=1, c0s=[0, 1, 2], late=True)),
        ("p3", dict(pool=3, npools=0 if not q else 500, dup=0, batch=3, nlocal=0, c0s=[0], late=False)),
        ("p3dup", dict(pool=3, npools=10 if q else 120, dup=1, batch=4, nlocal=0, c0s=[0], late=False)),
        ("p3loc", dict(pool=3, npools=4 if q else 40, dup=0, batch=3, nlocal=1, c0s=[0, 2], late=True)),
        ("p4", dict(pool=4, npools=20 if q else 300, dup=0, batch=4, nlocal=0, c0s=[0], late=False)),
        ("p5", dict(pool=5, npools=6 if q else 80, dup=0, batch=5, nlocal=0, c0s=[0], late=False)),
        ("p4dup", dict(pool=4, npools=2 if q else 25, dup=1, batch=5, nlocal=0, c0s=[0], late=False)),
        # fail=1: exactly one request per history whose ingress transaction fails to commit
        # (storage fault injected by the harness' engine wrapper); its operations are delivered
        # again later, interleaved with everything else
        ("f1", dict(pool=1, npools=0, dup=1, batch=2, nlocal=0, c0s=[0], late=True, fail=1)),
        ("f2", dict(pool=2, npools=40 if q else 0, dup=0, batch=2, nlocal=0, c0s=[0], late=False, fail=1)),
        ("f2loc", dict(pool=2, npools=5 if q else 40, dup=0, batch=2, nlocal=1, c0s=[0, 1], late=True, fail=1)),
        # rfail=1: in exactly one request per history ONE digest read of the ingress transaction meets
        # a transient (not "not found") storage fault: that operation must be treated as not superseding
        ("r1", dict(pool=1, npools=0, dup=1, batch=2, nlocal=0, c0s=[0], late=False, rfail=1)),
        ("r2", dict(pool=2, npools=40 if q else 0, dup=1, batch=2, nlocal=0, c0s=[0], late=False, rfail=1)),
    ] + ([] if q else [
        ("r3", dict(pool=3, npools=40, dup=0, batch=3, nlocal=0, c0s=[0], late=False, rfail=1)),
        ("f2dup", dict(pool=2, npools=60, dup=1, batch=3, nlocal=0, c0s=[0], late=False, fail=1)),
        ("f3", dict(pool=3, npools=60, dup=0, batch=3, nlocal=0, c0s=[0], late=False, fail=1)),
    ])


def write_hists(res, path):
    n = 0
    sample = None
    with open(path, "w") as f:
        for h in res.hists():
            f.write(json.dumps(h, separators=(",", ":")) + "\n")
            if sample is None and len(h) >= 3:
                sample = h
            n += 1
    return n, sample


def replay_ingress(ctx, path, tag, maxbad=40, timeout=1500, kinds=None):
    """kinds: mismatch kinds that end a history and count towards maxbad (the running property's
    clauses); other kinds are recorded as "soft" rows and the replay goes on."""
    out = ctx.path("out_%s.ndjson" % tag)
    env = {"VERIF_IN": path, "VERIF_OUT": out, "VERIF_WORKERS": 6, "VERIF_MAXBAD": maxbad}
    if kinds:
        env["VERIF_KINDS"] = ",".join(sorted(kinds))
    rc, text, wall = ctx.go_test("aspen", "./internal/kv", HARNESS, "^TestVerifKVIngress$", env=env,
                                 tag=tag, timeout=timeout)
    rows = ctx.read_ndjson(out)
    if rc != 0 or not rows or not rows[0].get("summary"):
        raise vlib.Inconclusive("kv ingress harness failed rc=%s:\n%s" % (rc, text[-3000:]))
    return rows[0], rows[1:]


def load_hist(path, i):
    with open(path) as f:
        for k, ln in enumerate(f):
            if k == i:
                return json.loads(ln)
    return None


def run_ingress(ctx, want):
    """Generate (TLC, families in parallel) + replay (one go test). Returns
    (total replayed, states, transitions, samples, stats, families)."""
    from concurrent.futures import ThreadPoolExecutor
    states = trans = 0
    samples = []
    kinds = C06_KINDS if want == "C06" else C13_KINDS
    drift = []
    fams = []
    runs = gen_runs(ctx.tier)

    def gen(item):
        tag, kw = item
        return tag, kw, ctx.tlc(AREA, "AspenKVGen", "g_%s.cfg" % tag, files={"g_%s.cfg" % tag: gen_cfg(**kw)},
                                tag="gen_" + tag, workers=3, timeout=1500)

    ctx.spec_copy(AREA)
    with ThreadPoolExecutor(max_workers=3) as ex_:
        results = list(ex_.map(gen, runs))
    hp = ctx.path("h_all.ndjson")
    n = 0
    with open(hp, "w") as f:
        for tag, kw, r in results:
            if r.violated:
                raise vlib.Inconclusive("generator invariant %s violated (%s)" % (r.violated, tag))
            states += r.distinct
            trans += r.generated
            k = 0
            for h in r.hists():
                f.write(json.dumps(h, separators=(",", ":")) + "\n")
                if k == 0 and len(samples) < 2 and len(h) >= 3:
                    samples.append(h)
                k += 1
            if k == 0:
                raise vlib.Inconclusive("no histories generated (%s)" % tag)
            n += k
            fams.append({"family": tag, "histories": k, "pools": "all" if kw["npools"] == 0 else kw["npools"],
                         "tlc_wall_s": round(r.wall, 1), "fail": kw.get("fail", 0), "rfail": kw.get("rfail", 0),
                         **{x: kw[x] for x in ("pool", "dup", "batch", "nlocal")}})
        # long streams with a stalled subscriber (TLC simulation, seeded): C13 completeness for the
        # subscribers that keep up while one does not
        nstall = 3 if ctx.tier != "thorough" else 24
        r = ctx.tlc(AREA, "AspenKVStallGen", "stall.cfg", files={"stall.cfg": stall_cfg()}, simulate="num=%d" % nstall,
                    depth=STALL_N + 6, workers=1, tag="gen_stall", timeout=600)
        seen, k = set(), 0
        for h in r.hists():
            key = json.dumps(h, sort_keys=True)
            if key in seen or k >= nstall or sum(len(x.get("acc") or []) for x in h) < STALL_MIN_ACCEPTED:
                continue
            seen.add(key)
            f.write(json.dumps(h, separators=(",", ":")) + "\n")
            k += 1
        if k == 0:
            raise vlib.Inconclusive("no stall histories generated")
        n += k
        fams.append({"family": "stall", "histories": k, "requests": STALL_N, "late_subscribers_at": STALL_LATE_AT, "tlc_wall_s": round(r.wall, 1)})
    summ, bad = replay_ingress(ctx, hp, "rp_all", kinds=kinds)
    stats = summ.get("stats") or {}
    hard0 = [x for x in bad if x.get("r") == "mismatch"]
    if not hard0:
        vac = {"syncreads": stats.get("syncreads", 0), "stall_histories": stats.get("stall_histories", 0),
               "stall_lost": stats.get("stall_lost", 0)}
        if any(v == 0 for v in vac.values()) or stats.get("stall_accepted", 0) < STALL_MIN_ACCEPTED * vac["stall_histories"]:
            raise vlib.Inconclusive("vacuous run: read faults / stalled-subscriber overflow not exercised: %s" % dict(vac, stall_accepted=stats.get("stall_accepted", 0)))
    if any(kw.get("fail") for _, kw in runs) and not stats.get("syncfails") and not [x for x in bad if x.get("r") != "soft"]:
        raise vlib.Inconclusive("vacuous run: no request with a failing ingress commit was replayed (syncfails=0)")
    hardbad = [b for b in bad if b.get("r") != "soft"]
    if summ["replayed"] + len(hardbad) < n and len(hardbad) < 40:
        if (stats.get("timeouts") or 0) > 8 and not hardbad:
            raise vlib.Inconclusive("the ingress pipeline swallowed operations (%s timeouts); sibling-property mismatches: %s" % (
                stats.get("timeouts"), json.dumps([b for b in bad if b.get("r") == "soft"][:2])[:500]))
        raise vlib.Inconclusive("replayed %s of %s histories" % (summ["replayed"], n))
    total = summ["replayed"]
    judged = 0
    # mismatches first; a history the harness could not finish is only inconclusive when nothing was found
    for b in sorted(bad, key=lambda x: x.get("r") == "inconclusive"):
        if b.get("r") == "inconclusive":
            if ctx.violations:
                continue
            raise vlib.Inconclusive("harness inconclusive: %s" % json.dumps(b)[:400])
        kind = b.get("kind")
        if kind in DRIFT_KINDS:
            drift.append("%s step %d: expected %s got %s" % (kind, b["step"], b["exp"], b["act"]))
            continue
        if kind not in kinds:
            continue            # the sibling property's clause; its own check reports it
        if judged >= 4:
            continue
        judged += 1
        hist = load_hist(hp, b["i"])
        one = ctx.path("one.ndjson")
        with open(one, "w") as f:
            f.write(json.dumps(hist) + "\n")
        s2, bad2 = replay_ingress(ctx, one, "repro", maxbad=1, kinds=kinds)
        bad2 = [x for x in bad2 if x.get("r") != "soft"]
        if not bad2:
            raise vlib.Inconclusive("ingress mismatch did not reproduce: %s" % json.dumps(b)[:400])
        step = hist[b["step"]] if 0 <= b["step"] < len(hist) else {"a": "end"}
        sig = "%s ingress %s after %s" % (want, kind, step.get("a"))
        ctx.report(sig, "ingress of a real node, step %d (%s %s): %s expected %s, real code gave %s" % (
            b["step"], step.get("a"), json.dumps(step.get("ops") or [step.get("k"), step.get("var")])[:300], kind,
            b["exp"][:300], b["act"][:300]),
            {"layer": "ingress", "history": hist, "mismatch": b, "cmd": "python3 tools/verif.py replay %s <this file>" % want})
    if drift and not ctx.violations:
        raise vlib.Inconclusive("model drift in pinned-beyond-property outputs: " + "; ".join(drift[:3]))
    return total, states, trans, samples, stats, fams


# ------------------------------------------------------------------ layer (b): cluster

def ex(i, j):
    return {"a": "exchange", "from": i, "to": j}


def dfb(i, j):
    return {"a": "deliver", "t": "fb", "from": i, "to": j}


WINDOW_SCRIPTS = [
    # (id, window, expected violation kind, script)
    ("w-volatile-store", "VolatileStore", "diverged",
     {"nodes": 2, "keys": ["k1"], "steps": [
         {"a": "write", "n": 2, "k": "k1", "var": "set"}, {"a": "crash", "n": 2}, {"a": "restart", "n": 2},
         {"a": "quiesce"}]}),
    ("w-local-race", "MultiLease", "regress",
     {"nodes": 2, "keys": ["k1"], "steps": [
         {"a": "write", "n": 1, "k": "k1", "var": "set"}, {"a": "write", "n": 1, "k": "k1", "var": "set"},
         {"a": "write", "n": 1, "k": "k1", "var": "set"}, {"a": "txset", "n": 2, "k": "k1", "var": "set"},
         ex(1, 2), {"a": "txcommit", "n": 2}]}),
]

WINDOW_SIG = {
    "RecoveryVsIngress": "C06 window recovery-vs-ingress: a gossip request accepted while the start-up recovery transaction was open is overwritten by its commit",
    "VolatileStore": "C06 window volatile-store: restart forgets infected operations, cluster quiesces diverged",
    "StaleFeedback": "C06 window stale-feedback: recovered mark for an old version un-infects the key's newer operation",
    "RecoveryUnchecked": "C06 window recovery-unchecked: start-up recovery replaces a stored operation by an older one",
    "MultiLease": "C06 window local-persist-unchecked: local persist replaces a newer gossiped operation",
}

# nodes 1 and 2 exchange (node 3 is down) until node 1's operations were delivered, fed back and
# removed from both gossip stores (SIR removal): only start-up recovery can still deliver them
SIR_12 = [ex(1, 2), ex(1, 2), dfb(2, 1), ex(1, 2), dfb(2, 1), ex(1, 2), dfb(2, 1), dfb(1, 2),
          ex(2, 1), dfb(1, 2), ex(2, 1), dfb(1, 2), ex(2, 1), dfb(1, 2), ex(2, 1), dfb(1, 2), dfb(2, 1), dfb(2, 1)]

# directed, deterministic scenarios that must hold (no window): mutation-sensitive regressions
HOLD_SCRIPTS = [
    # formerly the RecoveryUnchecked window scripts (recovery.go repaired since). tie: both nodes wrote
    # k1 at version 1 before any gossip; node 2 restarts and its peer streams (v1, lh1), which does not
    # supersede (v1, lh2): node 2 must keep its operation. order: the two peers of node 3 hold v2 and v1;
    # whatever order they are recovered in, node 3 must end with v2. On an unrepaired tree a regress at
    # the "recovered" step is reported under WINDOW_SIG["RecoveryUnchecked"].
    # gossip ingress while a start-up recovery is in progress (kv.Open binds the handlers before
    # runRecovery): node 2 is held inside its recovery after node 1 streamed k1 v1 (vRecGate); node 1
    # writes v2 and gossips it to node 2, which stores it; then recovery finishes. Node 2 must still
    # hold v2. A tree whose recovery transaction is not serialised with the ingress commits v1 over it:
    # reported under WINDOW_SIG["RecoveryVsIngress"].
    ("d-recovery-vs-ingress", {"nodes": 2, "keys": ["k1", "k2"], "steps": [
        {"a": "write", "n": 2, "k": "k2", "var": "set"}, {"a": "quiesce"},
        {"a": "crash", "n": 2}, {"a": "write", "n": 1, "k": "k1", "var": "set"},
        {"a": "restart_gated", "n": 2}, {"a": "write", "n": 1, "k": "k1", "var": "set"},
        {"a": "deliver_rec", "from": 1}, {"a": "release"}, {"a": "quiesce"}]}),
    ("d-recovery-tie", {"nodes": 2, "keys": ["k1"], "steps": [
        {"a": "write", "n": 1, "k": "k1", "var": "set"}, {"a": "write", "n": 2, "k": "k1", "var": "set"},
        {"a": "crash", "n": 2}, {"a": "restart", "n": 2}]}),
    ("d-recovery-order", {"nodes": 3, "keys": ["k1", "k2"], "steps": [
        {"a": "crash", "n": 3}, {"a": "write", "n": 1, "k": "k1", "var": "set"}, ex(1, 2),
        {"a": "write", "n": 1, "k": "k1", "var": "del"}, {"a": "write", "n": 2, "k": "k2", "var": "set"},
        {"a": "restart", "n": 3}, {"a": "quiesce"}]}),
    # formerly the StaleFeedback window script (store.go repaired since): the third feedback for
    # version 1 reaches the threshold after version 2 was written; the mark must NOT un-infect
    # version 2 and the cluster must quiesce converged. On an unrepaired tree it quiesces diverged
    # and is reported under WINDOW_SIG["StaleFeedback"] (taint "stalefb").
    ("d-stale-feedback", {"nodes": 2, "keys": ["k1"], "steps": [
        {"a": "write", "n": 1, "k": "k1", "var": "set"}, ex(1, 2), ex(1, 2), ex(1, 2), ex(1, 2),
        dfb(2, 1), dfb(2, 1), {"a": "write", "n": 1, "k": "k1", "var": "set"}, dfb(2, 1),
        {"a": "quiesce"}]}),
    ("d-stale-feedback-3", {"nodes": 3, "keys": ["k1"], "steps": [
        {"a": "write", "n": 1, "k": "k1", "var": "set"}, ex(1, 2), ex(1, 2), ex(1, 2), ex(1, 2),
        dfb(2, 1), dfb(2, 1), {"a": "write", "n": 1, "k": "k1", "var": "del"}, dfb(2, 1),
        {"a": "quiesce"}]}),
    ("d-overwrite-fb", {"nodes": 2, "keys": ["k1", "k2"], "steps": [
        {"a": "sub", "n": 1, "s": "p"}, {"a": "sub", "n": 2, "s": "p"}, {"a": "sub", "n": 2, "s": "f"}, {"a": "sub", "n": 1, "s": "f"},
        {"a": "write", "n": 1, "k": "k1", "var": "set"}, ex(1, 2), ex(1, 2), dfb(2, 1),
        {"a": "write", "n": 1, "k": "k1", "var": "set"}, ex(1, 2), ex(1, 2), dfb(2, 1),
        {"a": "write", "n": 2, "k": "k1", "var": "del"}, {"a": "write", "n": 2, "k": "k2", "var": "set"},
        ex(2, 1), ex(1, 2), {"a": "quiesce"}]}),
    ("d-restart-clean", {"nodes": 2, "keys": ["k1", "k2"], "steps": [
        {"a": "write", "n": 1, "k": "k1", "var": "set"}, {"a": "write", "n": 2, "k": "k2", "var": "set"},
        {"a": "quiesce"}, {"a": "write", "n": 1, "k": "k1", "var": "set"}, {"a": "crash", "n": 2},
        {"a": "restart", "n": 2}, {"a": "write", "n": 2, "k": "k1", "var": "del"}, {"a": "quiesce"}]}),
    # an operation removed (SIR) while a node was down must reach it through start-up recovery
    ("d-recover-missed", {"nodes": 3, "keys": ["k1", "k2"], "steps": [
        {"a": "crash", "n": 3}, {"a": "write", "n": 1, "k": "k1", "var": "set"}, {"a": "write", "n": 1, "k": "k1", "var": "set"},
        {"a": "write", "n": 2, "k": "k2", "var": "set"},
        ex(1, 2), ex(1, 2), dfb(2, 1), ex(1, 2), dfb(2, 1), ex(1, 2), dfb(2, 1), dfb(1, 2),
        ex(2, 1), dfb(1, 2), ex(2, 1), dfb(1, 2), ex(2, 1), dfb(1, 2), ex(2, 1), dfb(1, 2), dfb(2, 1), dfb(2, 1),
        {"a": "restart", "n": 3}, {"a": "quiesce"}]}),
    # start-up recovery AT the high-water boundary: the restarting node's high-water mark (from
    # its own leaseholder counter) equals the version of an operation of ANOTHER leaseholder it
    # missed while down and that gossip no longer carries
    ("d-recover-at-highwater-1", {"nodes": 3, "keys": ["k1", "k2"], "steps": [
        {"a": "write", "n": 3, "k": "k2", "var": "set"}, {"a": "quiesce"}, {"a": "crash", "n": 3},
        {"a": "write", "n": 1, "k": "k1", "var": "set"}] + SIR_12 + [
        {"a": "restart", "n": 3}, {"a": "quiesce"}]}),
    ("d-recover-at-highwater-2", {"nodes": 3, "keys": ["k1", "k2"], "steps": [
        {"a": "write", "n": 3, "k": "k2", "var": "set"}, {"a": "write", "n": 3, "k": "k2", "var": "del"}, {"a": "quiesce"},
        {"a": "crash", "n": 3},
        {"a": "write", "n": 1, "k": "k1", "var": "set"}, {"a": "write", "n": 1, "k": "k1", "var": "set"}] + SIR_12 + [
        {"a": "restart", "n": 3}, {"a": "quiesce"}]}),
    # feedback for version 1 of a key must not count towards the removal of version 2
    ("d-feedback-per-version", {"nodes": 3, "keys": ["k1"], "steps": [
        {"a": "write", "n": 1, "k": "k1", "var": "set"}, ex(1, 2), ex(1, 2), ex(1, 2),
        dfb(2, 1), dfb(2, 1), dfb(1, 2), dfb(1, 2),
        {"a": "write", "n": 1, "k": "k1", "var": "set"}, ex(1, 2), {"a": "drop", "t": "fb", "from": 1, "to": 2},
        ex(1, 2), dfb(2, 1), dfb(1, 2), {"a": "quiesce"}]}),
    ("d-three", {"nodes": 3, "keys": ["k1", "k2"], "steps": [
        {"a": "sub", "n": 3, "s": "p"}, {"a": "sub", "n": 3, "s": "f"},
        {"a": "write", "n": 1, "k": "k1", "var": "set"}, {"a": "write", "n": 3, "k": "k2", "var": "set"},
        ex(1, 2), ex(2, 3), ex(3, 1), {"a": "write", "n": 2, "k": "k1", "var": "set"},
        {"a": "write", "n": 1, "k": "k2", "var": "del"}, {"a": "dup", "t": "fb"}, {"a": "quiesce"}]}),
]


def run_cluster(ctx, scripts, nrandom, tag, steps=40, asis=False, nodes="2,3", timeout=1500):
    inp = ctx.path("scripts_%s.ndjson" % tag)
    with open(inp, "w") as f:
        for sid, s in scripts:
            f.write(json.dumps(dict(s, id=sid)) + "\n")
    out = ctx.path("cl_%s.ndjson" % tag)
    env = {"VERIF_IN": inp, "VERIF_OUT": out, "VERIF_RANDOM": nrandom, "VERIF_STEPS": steps, "VERIF_NODES": nodes}
    if asis:
        env["VERIF_ASIS"] = "1"
    rc, text, wall = ctx.go_test("aspen", "./internal/kv", HARNESS, "^TestVerifKVCluster$", env=env, tag="cl_" + tag, timeout=timeout)
    rows = ctx.read_ndjson(out)
    if rc != 0 or not rows or not rows[0].get("summary"):
        raise vlib.Inconclusive("kv cluster harness failed rc=%s:\n%s" % (rc, text[-3000:]))
    return rows[1:]


TRACE_KEYS = ["k1", "k2", "k3"]
ABSENT = {"ver": 0, "lh": 0, "var": "none"}


def tlc_event(e):
    e = dict(e)
    eng = []
    for n in range(3):
        m = e["eng"][n] if n < len(e["eng"]) else {}
        eng.append({k: m.get(k, ABSENT) for k in TRACE_KEYS})
    e["eng"] = eng
    return e


TRACE_CFG = """SPECIFICATION TSpec
CONSTANTS
  Node = {1, 2, 3}
  Key = {"k1", "k2", "k3"}
  MaxVer = 24
  Threshold = 1
  MaxNet = 1000
  MaxFaults = 1000
  MaxRestarts = 1000
  WithSubs = TRUE
  AllowLag = FALSE
  AckAfter = TRUE
  Masked = {}
  Deviations = %s
CONSTRAINT Mark
INVARIANTS OrderIndependence SameSetSameState TQuiescentConverged LeaseVersions AtMostOnce NeverStale CompleteWhileKeepingUp HostFilterExact
PROPERTIES TNoRegress
POSTCONDITION Accepted
CHECK_DEADLOCK FALSE
"""


def validate_traces(ctx, scen, tag, deviations=()):
    """One TLC run over the concatenation. Returns dict(ok, violated, hw, bad_index, spans).
    deviations: as-was behaviours of AspenKV.tla switched on (default: the code as repaired)."""
    lines = []
    spans = []
    for s in scen:
        start = len(lines) + 1
        for e in s["trace"]:
            lines.append(json.dumps(tlc_event(e), separators=(",", ":")))
        spans.append((start, len(lines)))
    name = "trace_%s.ndjson" % tag
    modname = "AspenKVTrace_%s" % tag
    d = ctx.spec_copy(AREA)
    with open(os.path.join(d, "AspenKVTrace.tla")) as f:
        mod = f.read()
    mod = mod.replace("MODULE AspenKVTrace", "MODULE " + modname).replace('"trace.ndjson"', '"%s"' % name)
    r = ctx.tlc(AREA, modname, "trace_%s.cfg" % tag,
                files={name: "\n".join(lines) + "\n", "trace_%s.cfg" % tag: TRACE_CFG % tset(deviations), modname + ".tla": mod},
                workers=1, deque=True, tag="tv_" + tag, timeout=1500, expect_violation=True)
    hw = None
    for b in r.tagged("HW"):
        try:
            hw = int(b)
        except ValueError:
            pass
    res = {"distinct": r.distinct, "generated": r.generated, "violated": r.violated, "hw": hw,
           "events": len(lines), "ok": False, "bad": None, "at": None, "wall_s": round(r.wall, 1)}
    at = None
    if r.violated:
        for ln in r.lines():
            ln = ln.strip()
            if ln.startswith("/\\ l = "):
                try:
                    at = int(ln[len("/\\ l = "):])
                except ValueError:
                    pass
    elif hw is not None:
        at = hw
    elif not r.postcondition_failed and r.rc == 0:
        res["ok"] = True
        return res
    elif r.error:
        raise vlib.Inconclusive("trace validation error: %s" % r.error)
    res["at"] = at
    if at is not None:
        for i, (a, b) in enumerate(spans):
            if a <= at <= b + 1:
                res["bad"] = i
        if res["bad"] is None:
            res["bad"] = len(spans) - 1
        a, b = spans[res["bad"]]
        res["event"] = json.loads(lines[min(at, b) - 1]) if lines else None
        res["offset"] = at - a
    return res


def judge_cluster(ctx, want, scen, windows=False):
    """Direct (Go-side) verdicts of cluster scenarios. Returns count of scenarios with viols."""
    kinds = C06_KINDS if want == "C06" else C13_KINDS
    nbad = 0
    for s in scen:
        vs = [v for v in s["viols"] if v["kind"] in kinds]
        if s.get("broken") and not vs:
            ctx.broken = getattr(ctx, "broken", []) + ["cluster scenario %s broke: %s" % (s["id"], s["broken"])]
            continue
        if not vs:
            continue
        nbad += 1
        v = vs[0]
        sig = "%s cluster %s at %s" % (want, v["kind"], v["ev"])
        taints = (v.get("taint") or "").split(",")
        if want == "C06" and v["kind"] == "regress" and v["ev"] == "recovered" and "recgate" in taints:
            # gossip was accepted by the node while its start-up recovery was in progress, and the end of
            # the recovery replaced that operation by an older one
            sig = WINDOW_SIG["RecoveryVsIngress"]
        elif want == "C06" and v["kind"] == "regress" and v["ev"] == "recovered":
            # start-up recovery replaced a stored operation by an older one: the as-was recovery.go
            sig = WINDOW_SIG["RecoveryUnchecked"]
        elif want == "C06" and v["kind"] == "diverged" and ("stalefb:" + v.get("key", "")) in taints:
            # a recovered mark for an old version reached the threshold over the key's newer operation
            # earlier in this scenario, and the cluster then quiesced diverged: the as-was store.go
            sig = WINDOW_SIG["StaleFeedback"]
        ctx.report(sig, "real %d-node cluster, scenario %s: %s" % (s["nodes"], s["id"], v["what"]),
                   {"layer": "cluster", "scenario": s["id"], "seed": s.get("seed"), "masked": s.get("masked"),
                    "nodes": s["nodes"], "keys": s["keys"], "violations": vs[:5],
                    "trace": [{k: e[k] for k in e if e[k] not in ([], "", 0)} for e in s["trace"]][:v["step"] + 2]})
    return nbad


def run_windows(ctx):
    """As-is: each named window replayed as a directed script on the real code. A window that
    shows is reported under its stable signature (known finding); one that does not is noted."""
    scen = run_cluster(ctx, [(sid, sc) for sid, _, _, sc in WINDOW_SCRIPTS], 0, "win")
    byid = {s["id"]: s for s in scen}
    rows = []
    for sid, window, kind, sc in WINDOW_SCRIPTS:
        s = byid.get(sid)
        if s is None or s.get("broken"):
            raise vlib.Inconclusive("window script %s broke: %s" % (sid, s and s.get("broken")))
        hit = [v for v in s["viols"] if v["kind"] == kind]
        other = [v for v in s["viols"] if v["kind"] != kind and v["kind"] in C06_KINDS]
        tv = validate_traces(ctx, [s], sid.replace("-", "_"))
        rows.append({"script": sid, "window": window, "real_code_shows": bool(hit), "what": hit[0]["what"] if hit else None,
                     "trace_spec": "accepted" if tv["ok"] else ("invariant %s violated on the matched behaviour" % tv["violated"] if tv["violated"] else "rejected at event %s" % tv.get("offset"))})
        if hit:
            ctx.report(WINDOW_SIG[window], hit[0]["what"], {"layer": "cluster", "script": sc, "window": window,
                                                          "violations": s["viols"][:4], "trace_validation": tv})
            if not tv["violated"] and not tv["ok"]:
                ctx.notes.append("window %s: trace rejected by AspenKVTrace at offset %s (drift)" % (window, tv.get("offset")))
        else:
            ctx.notes.append("window %s did not show on this tree (closed?)" % window)
        for v in other:
            ctx.report("C06 cluster %s at %s in window script %s" % (v["kind"], v["ev"], sid), v["what"],
                       {"layer": "cluster", "script": sc, "violations": s["viols"][:4]})
    return rows


def run_cluster_layer(ctx, want):
    """Masked schedules (directed + seeded random): must hold, traces must be accepted."""
    nrand = 60 if ctx.tier != "thorough" else 600
    scen = run_cluster(ctx, HOLD_SCRIPTS, nrand, "masked", steps=45)
    nbad = judge_cluster(ctx, want, scen)
    scen = [s for s in scen if not s.get("broken")]
    stats = {}
    for s in scen:
        for k, v in (s.get("stats") or {}).items():
            stats[k] = stats.get(k, 0) + v
    accepted = 0
    tv_rows = []
    # validate in chunks so one rejected trace does not hide the others
    chunk = 40
    rejected = []
    for c0 in range(0, len(scen), chunk):
        part = [s for s in scen[c0:c0 + chunk]]
        todo = part
        guard = 0
        while todo and guard < 6:
            guard += 1
            tv = validate_traces(ctx, todo, "m%d_%d" % (c0, guard))
            tv_rows.append({k: tv[k] for k in ("events", "distinct", "generated", "ok", "violated", "wall_s")})
            if tv["ok"]:
                accepted += len(todo)
                break
            i = tv["bad"] if tv["bad"] is not None else 0
            accepted += i
            rejected.append((todo[i], tv))
            todo = todo[i + 1:]
    for s, tv in rejected[:3]:
        direct = [v for v in s["viols"]]
        if tv["violated"] and not direct:
            # the matched behaviour of the real nodes violates an invariant of the spec
            inv = tv["violated"]
            prop = "C13" if inv in ("AtMostOnce", "NeverStale", "CompleteWhileKeepingUp", "HostFilterExact") else "C06"
            off = tv.get("offset") or 0
            prev_ev = s["trace"][off - 1]["ev"] if 0 < off <= len(s["trace"]) else ""
            if prop == want and prev_ev == "recovered" and inv in ("OrderIndependence", "SameSetSameState", "TNoRegress"):
                # the real start-up recovery committed its per-peer transactions in an order that
                # replaced a newer operation by an older one: the RecoveryUnchecked window
                ctx.report(WINDOW_SIG["RecoveryUnchecked"] + " (peers recovered in turn)",
                           "scenario %s: start-up recovery of node %s ended with an operation older than one a peer had streamed (%s violated on the matched behaviour)" % (
                               s["id"], s["trace"][off - 1].get("n"), inv),
                           {"layer": "cluster", "scenario": s["id"], "seed": s.get("seed"), "trace": s["trace"][: off + 1]})
            elif prop == want:
                ctx.report("%s cluster trace violates %s" % (want, inv),
                           "scenario %s: the behaviour of the real nodes, matched step by step by AspenKVTrace, violates %s at event %s" % (s["id"], inv, tv.get("offset")),
                           {"layer": "cluster", "scenario": s["id"], "seed": s.get("seed"), "trace": s["trace"][: (tv.get("offset") or 0) + 1]})
        elif not direct and (tv.get("event") or {}).get("ev") == "recovered" and \
                (lambda t2: t2["ok"] or t2["violated"])(validate_traces(ctx, [s], "aswasrec_%s" % s["id"].replace("-", "_"), deviations=ASWAS_RECOVERY)):
            # the digests after kv.Open are not what recovering the peers in turn with the supersedes rule
            # gives, but what the as-was recovery (unordered, unchecked) gives
            if want == "C06":
                ctx.report(WINDOW_SIG["RecoveryUnchecked"] + " (digests after Open only explained by the as-was model)",
                           "scenario %s: start-up recovery of node %s left digests that the repaired recovery cannot produce" % (
                               s["id"], (tv.get("event") or {}).get("n")),
                           {"layer": "cluster", "scenario": s["id"], "seed": s.get("seed"), "trace": s["trace"][: (tv.get("offset") or 0) + 1]})
        elif not direct and "stalefb" in (s.get("taints") or []) and \
                (lambda t2: t2["ok"] or t2["violated"])(validate_traces(ctx, [s], "aswas_%s" % s["id"].replace("-", "_"), deviations=ASWAS_STALEFB)):
            # not a behaviour of the repaired model, but one of the as-was model: on this tree a recovered
            # mark for an old version still replaces the store entry of the key's newer operation, which
            # stops being gossiped (whether this schedule then diverges depends on who else holds it)
            if want == "C06":
                ctx.report(WINDOW_SIG["StaleFeedback"] + " (store entry replaced; trace only explained by the as-was model)",
                           "scenario %s: after a feedback for an old version reached the threshold, the node stopped gossiping the key's "
                           "newer, never fed-back operation (event %s)" % (s["id"], tv.get("offset")),
                           {"layer": "cluster", "scenario": s["id"], "seed": s.get("seed"), "trace": s["trace"][: (tv.get("offset") or 0) + 1]})
        elif not direct:
            raise vlib.Inconclusive("trace of scenario %s is not a behaviour of AspenKV (event %s: %s) although no property-level "
                                    "symptom was observed: model drift" % (s["id"], tv.get("offset"), json.dumps(tv.get("event"))[:600]))
    if getattr(ctx, "broken", None) and not ctx.violations:
        raise vlib.Inconclusive("; ".join(ctx.broken[:3]))
    return len(scen), accepted, stats, tv_rows, nbad


def run_live(ctx, rounds=6):
    """Thorough tier only: the real periodic emitter / random peer / feedback transport on two
    nodes with a 5 ms interval. Informational for convergence time; a regress seen while polling is
    a violation; a cluster that quiesced diverged is the stale-feedback window occurring naturally
    (single owner per key, no restarts, two nodes: no other window is open)."""
    out = ctx.path("live.ndjson")
    rc, text, wall = ctx.go_test("aspen", "./internal/kv", HARNESS, "^TestVerifKVLive$",
                                 env={"VERIF_OUT": out, "VERIF_LIVE_ROUNDS": rounds, "VERIF_LIVE_MS": 15000}, tag="live", timeout=600)
    rows = ctx.read_ndjson(out)
    if rc != 0 or not rows or not rows[0].get("summary"):
        raise vlib.Inconclusive("kv live harness failed rc=%s:\n%s" % (rc, text[-2000:]))
    res = rows[1:]
    for r in res:
        if r["r"] == "regress":
            ctx.report("C06 live regress", "live 2-node cluster: " + r["what"], {"layer": "live", "row": r})
        elif r["r"] == "diverged-quiesced":
            ctx.report(WINDOW_SIG["StaleFeedback"] + " (live run, 5 ms gossip)", "live 2-node cluster quiesced diverged: " + r["what"],
                       {"layer": "live", "row": r})
        elif r["r"] in ("timeout", "error"):
            raise vlib.Inconclusive("live run: %s" % json.dumps(r))
    return [{"round": r["round"], "result": r["r"], "writes": r["writes"], "converge_ms": r["converge_ms"]} for r in res]


def guarded(ctx, body):
    """Run a check body; an inconclusive condition met AFTER a real-code violation was recorded
    does not hide the violation."""
    try:
        return body(ctx)
    except vlib.Inconclusive as e:
        if ctx.violations:
            ctx.notes.append("also inconclusive: %s" % str(e)[:300])
            return ctx.finish("model_checking", {"states": 0, "transitions": 0, "traces_validated_against_impl": 0,
                                                 "samples": [], "exhaustive": False, "notes": ctx.notes[:20]}, [])
        raise


def replay(ctx, path, want):
    with open(path) as f:
        obj = json.load(f)
    if obj.get("layer") == "ingress":
        one = ctx.path("one.ndjson")
        with open(one, "w") as f:
            f.write(json.dumps(obj["history"]) + "\n")
        summ, bad = replay_ingress(ctx, one, "replay", maxbad=1)
        if bad:
            print("VIOLATION property=%s replay=%s" % (want, path))
            print("  " + json.dumps(bad[0])[:600])
            return 1
        print("replay: history passes on the current tree")
        return 0
    if "script" in obj:
        scen = run_cluster(ctx, [("replay", obj["script"])], 0, "replay")
    else:
        raise vlib.Inconclusive("random cluster scenarios are re-run by seed: python3 tools/verif.py check %s --seed %s" % (want, obj.get("seed")))
    vs = [v for s in scen for v in s["viols"]]
    if vs:
        print("VIOLATION property=%s replay=%s" % (want, path))
        print("  " + json.dumps(vs[0])[:600])
        return 1
    print("replay: scenario passes on the current tree")
    return 0
