"""C07 - a cluster is one data space: write via any node, read via any node
(DESIGN.md section 3, C07; spec/dist/DistFramer.tla)."""
import json
import random

import vlib

AREA = "dist"
PKG = "./pkg/distribution/mock"
HARNESS = ["zz_verif_framer_test.go"]
TAINT_SIG = "C07 frame without a series for a peer leaseholder: previous request re-sent"
ACKFAIL_SIG = "C07 ack: commit acknowledged although a leaseholder failed to commit"
BUGS = ["drop_part", "ack_first", "count_short", "no_broadcast", "skip_validate", "local_remote", "last_response"]


def base_consts(nodes, groups, free, T, maxlen, maxid, maxcommits, writers, skip=False, bug="none", mayfail=False):
    gs = ", ".join('"%s"' % g for g in groups)
    ws = ", ".join('"w%d"' % (i + 1) for i in range(writers))
    return """  NNodes = %d
  Groups = {%s}
  HasFree = %s
  T = %d
  MaxLen = %d
  MaxId = %d
  MaxCommits = %d
  Writers = {%s}
  SkipAbsentPeers = %s
  MayFail = %s
  Bug = "%s"
""" % (nodes, gs, "TRUE" if free else "FALSE", T, maxlen, maxid, maxcommits, ws, "TRUE" if skip else "FALSE",
       "TRUE" if mayfail else "FALSE", bug)


def mc_cfg(nodes=2, skip=False, bug="none", keysets=None, T=1):
    keysets = keysets or '{{"Ai","Ad","Bi","Bd","F"}, {"Ad"}, {"Ai","X"}}'
    return """SPECIFICATION SpecMC
CONSTANTS
%s  MCKeySets = %s
  MCStarts = {0}
  MCRanges <- RangesSmall
INVARIANTS TypeOK LocationTransparency NoPhantom StoredAtLeaseholderOnly AckedIsReadable NoStuckWriter
PROPERTIES CommitAckOnlyAfterAll AckNeverHidesFailure OpenFailsOnUnknownChannel IterExact
CHECK_DEADLOCK FALSE
""" % (base_consts(nodes, ["A", "B"], True, T, 2, 2, 2, 1, skip=skip, bug=bug, mayfail=True), keysets)


def gen_cfg(spec, nodes, groups, T, depth, maxlen, maxid, writers, plan=0, sync_partial_ok=True, inv="EmitSim",
            bfs_keysets="{}", maxcommits=3):
    return """SPECIFICATION %s
CONSTANTS
%s  Depth = %d
  PlanId = %d
  SyncPartialOK = %s
  BFSKeySets = %s
INVARIANTS %s
CHECK_DEADLOCK FALSE
""" % (spec, base_consts(nodes, groups, True, T, maxlen, maxid, maxcommits, writers), depth, plan,
       "TRUE" if sync_partial_ok else "FALSE", bfs_keysets, inv)


def slim(h):
    return [{"a": x["a"], "args": x["args"], "res": x["res"]} for x in h]


def interesting(h):
    """BFS histories worth a cluster: at least one write that becomes visible (auto-commit,
    commit or close after it) or a failing open."""
    kinds = [x["a"] for x in h[1:]]
    if any(x["res"] != "ok" for x in h[1:]) and "write" in kinds:
        return True
    if "write" not in kinds:
        return False
    last_w = max(i for i, k in enumerate(kinds) if k == "write")
    if any(k in ("commit", "close") for k in kinds[last_w + 1:]):
        return True
    return any(x["a"] == "open" and x["res"] == "ok" and x["args"]["auto"] for x in h[1:])


def write_hists(res, path, keep=None, limit=None, seed=1):
    hs = []
    seen = set()
    for h in res.hists():
        if keep and not keep(h):
            continue
        s = json.dumps(h, separators=(",", ":"), sort_keys=True)
        k = hash(s)
        if k in seen:
            continue
        seen.add(k)
        hs.append(s)
    total = len(hs)
    if limit and len(hs) > limit:
        rnd = random.Random(seed)
        # stratify by (placement, kind sequence) so rare shapes survive the sampling
        buckets = {}
        for s in hs:
            h = json.loads(s)
            key = (json.dumps(h[0]["args"]["lease"], sort_keys=True), tuple(x["a"] for x in h[1:]))
            buckets.setdefault(key, []).append(s)
        keys = sorted(buckets)
        out = []
        while len(out) < limit and keys:
            for k in list(keys):
                b = buckets[k]
                out.append(b.pop(rnd.randrange(len(b))))
                if not b:
                    keys.remove(k)
                if len(out) >= limit:
                    break
        hs = out
    with open(path, "w") as f:
        for s in hs:
            f.write(s + "\n")
    samples = [slim(json.loads(hs[0]))] if hs else []
    return len(hs), total, samples


def replay_file(ctx, path, T, tag, nconc=1, conc=None, full=True, traces=False, timeout=1500):
    out = ctx.path("out_%s.ndjson" % tag)
    env = {"VERIF_IN": path, "VERIF_OUT": out, "VERIF_MAXT": 2 * T + 1, "VERIF_NCONC": nconc,
           "VERIF_FULLREADS": "1" if full else "0", "VERIF_WORKERS": 8}
    tp = None
    if traces:
        tp = ctx.path("trace_%s.ndjson" % tag)
        env["VERIF_TRACES"] = "1"
        env["VERIF_TRACE_OUT"] = tp
    if conc is not None:
        env["VERIF_CONC"] = json.dumps(conc)
    rc, text, wall = ctx.go_test("core", PKG, HARNESS, "^TestVerifFramerReplay$", env=env, tag=tag, timeout=timeout)
    rows = ctx.read_ndjson(out)
    if rc != 0 or not rows or not rows[0].get("summary"):
        raise vlib.Inconclusive("framer replay harness failed rc=%s:\n%s" % (rc, text[-3000:]))
    return rows[0], rows[1:], tp


def directed(ctx):
    out = ctx.path("directed.ndjson")
    rc, text, wall = ctx.go_test("core", PKG, HARNESS, "^TestVerifFramerDirected$", env={"VERIF_OUT": out}, tag="directed", timeout=600)
    rows = ctx.read_ndjson(out)
    if rc != 0 or not rows or "error" in rows[0]:
        raise vlib.Inconclusive("directed scripts failed rc=%s: %s\n%s" % (rc, rows[:1], text[-2000:]))
    return rows[0]


def load_hist(path, i):
    with open(path) as f:
        for k, ln in enumerate(f):
            if k == i:
                return json.loads(ln)
    return None


def judge(ctx, path, bad, T, stale_defect=False):
    """Harness results -> verdicts. `viol` rows are verdict-bearing (re-run once from scratch);
    `diverged` / `hang` / `inconclusive` rows are counted and make the run inconclusive."""
    soft = []
    seen = {}
    for b in bad:
        hist = load_hist(path, b["i"])
        if b["r"] != "viol":
            soft.append("%s: %s" % (b["r"], (b.get("note") or "")[:300]))
            continue
        v = b["v"]
        # at most two reproductions per structural signature, eight per file (each is a fresh go test)
        key = (v["kind"], v["sig"], bool(b.get("tainted")) and stale_defect)
        seen[key] = seen.get(key, 0) + 1
        if seen[key] > 2 or sum(min(n, 2) for n in seen.values()) > 8 or len(ctx.violations) >= 8:
            continue
        rep = {"history": hist[: v.get("step", len(hist)) + 1], "script": slim(hist[: v.get("step", len(hist)) + 1]),
               "conc": b.get("conc"), "violation": v, "T": T, "tainted": b.get("tainted"),
               "cmd": "python3 tools/verif.py replay C07 <this file>"}
        # reproduction: the same script and concretisation once more from scratch
        one = ctx.path("one.ndjson")
        with open(one, "w") as f:
            f.write(json.dumps(hist) + "\n")
        summ2, bad2, _ = replay_file(ctx, one, T, "repro", conc=b.get("conc"))
        if not [x for x in bad2 if x["r"] == "viol"]:
            soft.append("violation did not reproduce: %s" % json.dumps(v)[:300])
            continue
        what = "%s (step %d): %s%s" % (v["kind"], v.get("step", -1), v["what"],
                                       (" expected %s, real cluster returned %s" % (v.get("exp"), v.get("act"))) if v.get("exp") or v.get("act") else "")
        if b.get("tainted") and stale_defect:
            ctx.report(TAINT_SIG, "%s [after %s]" % (what, b["tainted"]), rep)
        else:
            ctx.report("C07 %s: %s" % (v["kind"], v["sig"]), what, rep)
    return soft


def trace_cfg():
    return """SPECIFICATION TSpec
CONSTANTS
  NNodes = 3
  Groups = {"A", "B", "C"}
  HasFree = TRUE
  T = 4
  MaxLen = 10
  MaxId = 1000000
  MaxCommits = 1000000
  Writers = {"w1", "w2"}
  SkipAbsentPeers = FALSE
  MayFail = FALSE
  Bug = "none"
INVARIANTS NoPhantom StoredAtLeaseholderOnly AckedIsReadable
PROPERTIES CommitAckOnlyAfterAll
CONSTRAINT HW
POSTCONDITION TraceAccepted
CHECK_DEADLOCK FALSE
"""


def validate_traces(ctx, text, tag):
    """Recorded commit protocols (gateway call/return, per-peer commit responses) against
    DistFramerTrace.tla. Returns (accepted, events, distinct states)."""
    n = len([x for x in text.split("\n") if x.strip()])
    if n == 0:
        return True, 0, 0, None
    r = ctx.tlc(AREA, "DistFramerTrace", "tr.cfg", files={"tr.cfg": trace_cfg(), "trace.ndjson": text},
                workers=1, deque=True, tag=tag, timeout=1200, expect_violation=True)
    hwm = None
    for body in r.tagged("HWM"):
        try:
            hwm = int(body.split(",")[0].strip())
        except ValueError:
            pass
    ok = r.rc == 0 and not r.violated and not r.postcondition_failed and hwm is None
    return ok, n, r.distinct, hwm


def run(ctx):
    thorough = ctx.tier == "thorough"
    states = trans = 0
    design = []
    # 1. exhaustive design check: code as written; the pre-fix deviation and each seeded fault must be caught
    r = ctx.tlc(AREA, "DistFramerMC", "mc.cfg", files={"mc.cfg": mc_cfg(nodes=2 if not thorough else 3, T=1)},
                tag="mc", workers=6, timeout=3000, coverage=thorough)
    if r.violated:
        ctx.notes.append("design: %s violated" % r.violated)
    states += r.distinct
    trans += r.generated
    design.append({"cfg": "as written", "nodes": 2 if not thorough else 3, "distinct": r.distinct, "generated": r.generated,
                   "violated": r.violated, "wall_s": round(r.wall, 1), "coverage_zero": r.coverage_zero[:10]})
    teeth = {}
    for bug in BUGS + ["SkipAbsentPeers"]:
        cfg = mc_cfg(skip=True) if bug == "SkipAbsentPeers" else mc_cfg(bug=bug)
        rb = ctx.tlc(AREA, "DistFramerMC", "mcb.cfg", files={"mcb.cfg": cfg}, tag="mc_" + bug, workers=4, timeout=1200,
                     expect_violation=True)
        teeth[bug] = rb.violated
        if not rb.violated:
            raise vlib.Inconclusive("vacuity: seeded design fault %s violates no property of DistFramer.tla" % bug)
    # 2. directed scripts of the named deviation (frames lacking a peer leaseholder's series)
    obs = directed(ctx)
    sync_partial_ok = not obs.get("sync_hangs")
    # the tree still has the (fixed) stale re-send defect: violations of scripts that contain such a frame are attributed to it
    stale_defect = (obs.get("nosync_peer_samples") or 0) > 1
    if obs.get("nosync_peer_samples") != 1 or obs.get("nosync_iter"):
        dup = (obs.get("nosync_peer_samples") or 0) > 1
        ctx.report(TAINT_SIG if dup else "C07 directed script: cluster differs from the single-node store",
                   "directed script: gateway 1, A on node 1, B on node 2, non-Sync writer: Write(A+B @t0); Write(A only @t2); "
                   "Commit => node 2 holds %s sample(s) of Bd (1 written). %s" % (obs.get("nosync_peer_samples"), obs.get("nosync_iter", "")),
                   {"directed": obs, "kind": "directed"})
    # clause 4 with a REFUSING leaseholder: Commit must not be acknowledged as a success
    fc_runs = fc_refused = 0
    for o in obs.get("failcommit", []):
        if "error" in o or "open_err" in o:
            raise vlib.Inconclusive("directed failing-commit script could not run: %s" % o)
        fc_runs += 1
        if o.get("A_committed"):
            raise vlib.Inconclusive("directed failing-commit script: the leaseholder accepted the overlapping commit (model drift): %s" % o)
        fc_refused += 1
        if o.get("commit_acked"):
            ctx.report(ACKFAIL_SIG,
                       "directed script: Ai leased to node 1, Bi to node 2; session 1 stores Ai@t6; session 2 on gateway %d (node %d's writer "
                       "server slowed down, so it answers last): writer {Ai,Bi} start t0, Write(Ai,Bi @ {t2,t8}), Commit() returned SUCCESS "
                       "although leaseholder 1 refused the commit (its range overlaps the stored domain; it still holds %d sample, not 3); "
                       "the error surfaced only at Close: %s" % (o["gateway"], o["slow"], o["A_samples_on_node1"], str(o.get("close_err"))[:160]),
                       {"directed": o, "kind": "directed"})
    # 3. behaviours replayed on the real cluster
    total = 0
    samples = []
    stats = {}
    soft = []
    trace_events = trace_states = traces_ok = 0
    runs = []
    bfs_ks = '{{"Ai","Ad","Bi","Bd","F"}, {"Ai","Bi"}, {"Ad","Bi","Bd"}, {"Ai","X"}}'
    runs.append(("bfs", dict(spec="GSpecBFS", nodes=2, groups=["A", "B"], T=1, depth=4, maxlen=2, maxid=2, writers=1, inv="Emit",
                             bfs_keysets=bfs_ks, sync_partial_ok=sync_partial_ok), None, 250 if not thorough else 4000))
    n_sim = 20 if not thorough else 240
    runs.append(("sim", dict(spec="GSpecSim", nodes=3, groups=["A", "B"], T=4, depth=12, maxlen=3, maxid=9, writers=2,
                             sync_partial_ok=sync_partial_ok), "num=%d" % n_sim, None))
    for plan in (1, 2, 3, 4):
        runs.append(("plan%d" % plan, dict(spec="GSpecSim", nodes=3, groups=["A", "B"], T=4, depth=14, maxlen=3, maxid=9, writers=2,
                                           plan=plan, sync_partial_ok=sync_partial_ok), "num=%d" % (6 if not thorough else 70), None))
    if thorough:
        runs.append(("sim3g", dict(spec="GSpecSim", nodes=3, groups=["A", "B", "C"], T=3, depth=12, maxlen=2, maxid=8, writers=2,
                                   sync_partial_ok=sync_partial_ok), "num=60", None))
        runs.append(("sim2n", dict(spec="GSpecSim", nodes=2, groups=["A", "B"], T=4, depth=12, maxlen=3, maxid=9, writers=2,
                                   sync_partial_ok=sync_partial_ok), "num=60", None))
        runs.append(("sim1n", dict(spec="GSpecSim", nodes=1, groups=["A", "B"], T=3, depth=10, maxlen=3, maxid=8, writers=2,
                                   sync_partial_ok=sync_partial_ok), "num=25", None))
    bfs_total = 0
    for tag, kw, sim, limit in runs:
        T = kw["T"]
        cfg = gen_cfg(**kw)
        if sim:
            r = ctx.tlc(AREA, "DistFramerGen", "g.cfg", files={"g.cfg": cfg}, simulate=sim, depth=400, workers=4,
                        tag="gen_" + tag, timeout=1500)
        else:
            r = ctx.tlc(AREA, "DistFramerGen", "g.cfg", files={"g.cfg": cfg}, tag="gen_" + tag, timeout=2400, workers=6)
            states += r.distinct
            trans += r.generated
        hp = ctx.path("h_%s.ndjson" % tag)
        n, tot, smp = write_hists(r, hp, keep=(interesting if not sim else None), limit=limit, seed=ctx.seed)
        if not sim:
            bfs_total = tot
        if n == 0:
            raise vlib.Inconclusive("no histories generated (%s)" % tag)
        samples += smp[:1]
        summ, bad, tp = replay_file(ctx, hp, T, "rp_" + tag, nconc=1 if not thorough else 2, traces=True)
        total += summ["replays"]
        for k, v in summ.items():
            if isinstance(v, int) and k not in ("summary",):
                stats[k] = stats.get(k, 0) + v
        soft += judge(ctx, hp, bad, T, stale_defect=stale_defect)
        # 4. recorded commit protocols validated against the trace spec
        if tp:
            with open(tp) as f:
                text = f.read()
            ok, nev, nst, hwm = validate_traces(ctx, text, "tv_" + tag)
            trace_events += nev
            trace_states += nst
            if ok:
                traces_ok += summ.get("traces", 0)
            else:
                lines = [x for x in text.split("\n") if x.strip()]
                at = (hwm or 1) - 1
                lo = at
                while lo > 0 and '"ev":"reset"' not in lines[lo]:
                    lo -= 1
                hi = at + 1
                while hi < len(lines) and '"ev":"reset"' not in lines[hi]:
                    hi += 1
                evt = lines[at] if at < len(lines) else "?"
                why = ("a Commit returned before every involved peer leaseholder had answered that commit" if '"commit.ret"' in evt else
                       "a Sync Write returned before every leaseholder had processed it" if '"write.ret"' in evt else
                       "a peer received a request the gateway's calls do not explain (or did not receive one they require)")
                ctx.report("C07 ack: recorded writer protocol rejected by DistFramerTrace (%s)" % (json.loads(evt).get("ev") if evt != "?" else "?"),
                           "recorded writer protocol rejected by DistFramerTrace.tla: no behaviour of the specification explains event %d: %s (%s)" % (
                               at - lo, evt, why),
                           {"trace": lines[lo:hi], "unexplained_event_index": at - lo, "kind": "trace"})
    if soft and not ctx.violations:
        raise vlib.Inconclusive("%d replayed scripts hung / diverged from the model's outcome classes / did not reproduce: %s" % (
            len(soft), "; ".join(soft[:3])))
    # vacuity guards: the mechanisms the property names were exercised
    need = ["iter_reads", "setbounds_reads", "store_reads", "ack_checks", "commits_with_slow_peer", "peer_commit_responses", "failed_opens",
            "dataonly_writes", "free_channel_frames", "remote_only_writes", "mixed_local_remote_writes", "partial_frames"]
    missing = [k for k in need if stats.get(k, 0) == 0]
    if missing and not ctx.violations:
        raise vlib.Inconclusive("vacuous run, never exercised: %s (%s)" % (missing, stats))
    cov = {
        "states": states, "transitions": trans,
        "traces_validated_against_impl": total,
        "commit_protocol_traces_accepted": traces_ok, "trace_events": trace_events, "trace_validation_states": trace_states,
        "samples": samples[:3],
        "exhaustive": False,
        "bfs_histories_total": bfs_total,
        "design_runs": design,
        "design_faults_caught_by": teeth,
        "directed_observations": {k: v for k, v in obs.items() if k != "failcommit"},
        "directed_failing_commit_runs": fc_runs,
        "directed_failing_commit_details": [{k: (v[:80] if isinstance(v, str) else v) for k, v in o.items()} for o in obs.get("failcommit", [])],
        "harness_stats": stats,
        "rule": "TLC behaviours of DistFramer.tla (every placement of 2 index groups over 2 nodes x every gateway, depth 4, sampled; "
                "simulated 12-14 call scripts over 3 nodes, 2 concurrent writers on different gateways, data-only writers, free "
                "virtual channel, frames mixing local / remote / free parts, Sync and fire-and-forget, auto-commit and explicit "
                "commits) replayed on a real in-memory cluster; after every commit / close / visible write an iterator is opened on "
                "EVERY node over all channels, every channel alone and a seeded set of ranges (all ranges after the last call), in both "
                "directions, and compared with the single-node store; every node's cesium is inspected directly (samples at the "
                "leaseholder only); right after each Commit ack every involved leaseholder is read (one peer slowed down); opens on a "
                "never-created key must fail; the recorded commit protocol is validated against DistFramerTrace.tla",
        "notes": ctx.notes[:20],
    }
    return ctx.finish("model_checking", cov, [
        "in-memory transports (freighter mock network): no serialisation between nodes (C08 covers the codec)",
        "writers of one script own disjoint channel sets; no open inside an existing domain (C03/C05 cover those)",
        "iterator acks, Commit's End and Write's Authorized are not judged (the synchronizer forwards the last response)",
        "the gateway's own commit is observed through the read right after the ack, peers' commits through the transport recorder",
    ])


def replay(ctx, path):
    with open(path) as f:
        obj = json.load(f)
    if obj.get("kind") == "trace":
        ok, n, st, hwm = validate_traces(ctx, "\n".join(obj["trace"]) + "\n", "replay")
        if not ok:
            print("VIOLATION property=C07 replay=%s" % path)
            print("  recorded trace still rejected (high-water mark %s of %s events)" % (hwm, n))
            return 1
        print("replay: recorded trace is accepted by the current specification")
        return 0
    if obj.get("kind") == "directed":
        obs = directed(ctx)
        acked = [o for o in obs.get("failcommit", []) if o.get("commit_acked") and not o.get("A_committed")]
        if obs.get("nosync_peer_samples") != 1 or obs.get("nosync_iter") or acked:
            print("VIOLATION property=C07 replay=%s" % path)
            print("  " + json.dumps(obs))
            return 1
        print("replay: directed script passes on the current tree")
        return 0
    one = ctx.path("one.ndjson")
    with open(one, "w") as f:
        f.write(json.dumps(obj["history"]) + "\n")
    summ, bad, _ = replay_file(ctx, one, obj.get("T", 4), "replay", conc=obj.get("conc"))
    if bad:
        print("VIOLATION property=C07 replay=%s" % path)
        print("  " + json.dumps(bad[0])[:800])
        return 1
    print("replay: history passes on the current tree")
    return 0
