"""C18 - access is granted exactly when a role's policy covers every object
(DESIGN.md section 3, C18).

spec/rbac/RBAC.tla models the writer calls of rbac/role, rbac/policy and the ontology
walk of Enforce as written; TLC checks the biconditional (NoOrphanGrant/Biconditional),
UnknownSubjectDenied, NoRoleDenied, MixedDenied, NextCheckReflects, TxIsolation.
RBACGen emits bounded-exhaustive and simulated histories; the Go harness replays them
into a real rbac.Service and after every step asks the real enforcer (inside the open
transaction and on the committed DB) every request subject x action x object list
(length <= 2) and compares Allow/Deny with the property formula.
"""
import json
import os
import shutil

import vlib

AREA = "rbac"
HARNESS = ["zz_verif_rbac_test.go"]
PKG = "./pkg/service/access/rbac"

# policy tables: [actions, objects] per policy id. Objects "T:" = type-level, "T:k" = instance.
POLDEFS = [
    {"p1": (["retrieve"], ["T1:k1"]),
     "p2": (["update"], ["T1:", "T2:k2"]),
     "p3": (["retrieve", "update"], ["T2:k1", "T1:k2"])},
    {"p1": (["retrieve", "update"], ["T2:"]),
     "p2": (["retrieve"], ["T1:k2", "T2:k1"]),
     "p3": (["update"], ["T1:k1"])},
    {"p1": (["update"], ["T1:k1", "T1:k2"]),
     "p2": (["retrieve"], ["T1:"]),
     "p3": (["retrieve"], ["T2:k2", "T1:k1"])},
    {"p1": (["retrieve"], ["T2:k1"]),
     "p2": (["retrieve", "update"], ["T1:k2"]),
     "p3": (["update"], ["T2:", "T1:k1"])},
]
REQ6 = ["T1:k1", "T1:k2", "T2:k1", "T2:k2", "T1:", "T3:k1"]
REQ8 = REQ6 + ["T2:", "T3:"]
REQ4 = ["T1:k1", "T1:k2", "T2:k1", "T3:k1"]

KNOWN_SIG = "C18 over-permit via deleted role"


def tla_set(xs):
    return "{" + ", ".join('"%s"' % x for x in xs) + "}"


def mc_module(base, poldef):
    rows = []
    for p, (acts, objs) in sorted(poldef.items()):
        rows.append('("%s" :> [actions |-> %s, objects |-> %s])' % (p, tla_set(acts), tla_set(objs)))
    return "---- MODULE %sMC ----\nEXTENDS %s\nPolDefImpl == %s\n====\n" % (
        base, base, " @@\n              ".join(rows))


def consts(poldef, mode, errops, subjects=2, roles=2, req=REQ6, depth=None, pending=99):
    s = """CONSTANTS
  Subject = %s
  Role = %s
  Policy = %s
  Action = {"retrieve", "update"}
  PolDef <- PolDefImpl
  ReqObj = %s
  DeleteMode = "%s"
  ErrOps = %s
  MaxPending = %d
""" % (tla_set(["s%d" % (i + 1) for i in range(subjects)]),
       tla_set(["r%d" % (i + 1) for i in range(roles)]),
       tla_set(sorted(poldef)), tla_set(req), mode, "TRUE" if errops else "FALSE", pending)
    if depth is not None:
        s += "  Depth = %d\n" % depth
    return s


INV_ALWAYS = "TypeOK AllowIsCover UnknownSubjectDenied NoRoleDenied MixedDenied"


def mc_cfg(poldef, mode, errops, full, **kw):
    inv = INV_ALWAYS + (" NoOrphanGrant Biconditional" if full else "")
    props = "TxIsolation NextCheckReflectsAsIs" + (" NextCheckReflects" if full else "")
    return "SPECIFICATION Spec\n" + consts(poldef, mode, errops, **kw) + \
        "INVARIANTS %s\nPROPERTIES %s\nCHECK_DEADLOCK FALSE\n" % (inv, props)


def orphan_cfg(poldef, **kw):
    return "SPECIFICATION Spec\n" + consts(poldef, "orphan", False, **kw) + \
        "INVARIANTS NoOrphanGrant\nCHECK_DEADLOCK FALSE\n"


def gen_cfg(poldef, mode, errops, depth, **kw):
    return "SPECIFICATION GSpec\n" + consts(poldef, mode, errops, depth=depth, **kw) + \
        "INVARIANTS Emit\nCHECK_DEADLOCK FALSE\n"


def write_hists(res, f, tag, seen, limit=None):
    """Append the histories TLC printed to the open file f; mark a step `skip` when its whole
    call prefix was already seen in an earlier history of the same plan (the harness still
    executes the call, it does not repeat the checks).
    Returns (#histories, samples, #distinct prefixes checked, calls seen)."""
    n = 0
    samples = []
    before = len(seen)
    calls = {}
    for h in res.hists():
        key = tag
        for st in h:
            c = st["call"]
            key = hash((key, c["a"], c["r"], c["p"], c["s"], c["ok"]))
            if key in seen:
                st["skip"] = True
            else:
                seen.add(key)
            if c["a"] != "init":
                k = c["a"] + ("" if c["ok"] else "!")
                calls[k] = calls.get(k, 0) + 1
        f.write(json.dumps(h, separators=(",", ":")) + "\n")
        if n < 1:
            samples.append(" ; ".join(calls_of(h)))
        n += 1
        if limit and n >= limit:
            break
    return n, samples, len(seen) - before, calls


def go(ctx, run, env, tag, timeout=2700):
    return ctx.go_test("core", PKG, HARNESS, run, env=env, tag=tag, timeout=timeout)


def replay_file(ctx, path, tag, workers=None, idx0=0):
    out = ctx.path("out_%s.ndjson" % tag)
    env = {"VERIF_IN": path, "VERIF_OUT": out, "VERIF_IDX0": idx0}
    if workers:
        env["VERIF_WORKERS"] = workers
    rc, text, wall = go(ctx, "^TestVerifRBACReplay$", env, tag)
    rows = ctx.read_ndjson(out)
    if rc != 0 or not rows or not rows[0].get("summary"):
        raise vlib.Inconclusive("rbac replay harness failed rc=%s:\n%s" % (rc, text[-2500:]))
    return rows[0], rows[1:], wall


def detect_mode(ctx):
    out = ctx.path("mode.json")
    rc, text, wall = go(ctx, "^TestVerifRBACMode$", {"VERIF_OUT": out}, "mode")
    rows = ctx.read_ndjson(out)
    if rc != 0 or not rows or rows[0].get("error"):
        raise vlib.Inconclusive("rbac mode probe failed rc=%s: %s\n%s" % (rc, rows, text[-2500:]))
    m = rows[0]
    if not m.get("allow_before"):
        raise vlib.Inconclusive("rbac mode probe: basic grant not allowed: %s" % m)
    if m["delete_err"]:
        mode = "refuse"
    elif not m["node"]:
        mode = "cascade"
    else:
        mode = "orphan"
    return mode, m, wall


def line_of(path, i):
    with open(path) as f:
        for k, ln in enumerate(f):
            if k == i:
                h = json.loads(ln)
                for st in h:
                    st.pop("skip", None)
                return h
    return None


def calls_of(hist):
    res = []
    for st in hist[1:]:
        c = st["call"]
        args = [c[k] for k in ("r", "p", "s") if c[k]]
        res.append("%s(%s)%s" % (c["a"], ",".join(args), "" if c["ok"] else "!"))
    return res


def signature(m, known):
    if known:
        return KNOWN_SIG
    direction = "over-permit" if m["got"].startswith("allow") else "under-permit"
    return "C18 %s after %s view=%s nobj=%d" % (direction, m["call"].split("(")[0], m["view"], len(m.get("objs") or []))


def describe(m):
    return "after step %d %s, %s view: Enforce(subject=%s, action=%s, objects=%s) -> %s, property says %s" % (
        m["step"], m["call"], m["view"], m.get("subj"), m.get("action"), m.get("objs"), m["got"], m["exp"])


def run(ctx):
    thorough = ctx.tier == "thorough"
    workers = 12 if thorough else 8
    pd0 = POLDEFS[ctx.seed % len(POLDEFS)]
    pd1 = POLDEFS[(ctx.seed + 1) % len(POLDEFS)]

    # 0. which repair (if any) of role deletion does this tree implement? (not stated by C18)
    mode, probe, _ = detect_mode(ctx)
    ctx.notes.append("role deletion mode detected on the tree: %s %s" % (mode, json.dumps(probe, sort_keys=True)))

    # 1. design level: exhaustive TLC on RBAC.tla
    states = trans = 0
    design = []

    def mc(tag, cfg, pd, expect=False, timeout=1500):
        r = ctx.tlc(AREA, "RBACMC", tag + ".cfg", files={tag + ".cfg": cfg, "RBACMC.tla": mc_module("RBAC", pd)},
                    tag=tag, workers=workers, timeout=timeout, expect_violation=expect)
        design.append({"run": tag, "distinct": r.distinct, "generated": r.generated,
                       "violated": r.violated, "wall_s": round(r.wall, 1)})
        return r

    # model size: the product (view, com) is what grows; MaxPending bounds the calls per tx.
    # set A: 1 user policy + built-in policy, refused/no-op calls included; set B (thorough):
    # 2 user policies, productive calls only.
    sets = [("a", dict(sorted(pd0.items())[1:2]), True, dict(subjects=1, roles=2, pending=2, req=REQ4))]
    if thorough:
        sets.append(("b", dict(sorted(pd0.items())[:2]), False, dict(subjects=1, roles=2, pending=2, req=REQ4)))
    window = False
    for sn, pdm, err, kw in sets:
        # repaired designs: everything must hold (proves there is no window besides the named one)
        for m in (("cascade", "refuse") if thorough else ("cascade",)):
            r = mc("mc_%s_%s" % (sn, m), mc_cfg(pdm, m, err, True, **kw), pdm)
            if r.violated:
                raise vlib.Inconclusive("design spec: %s violated in mode %s (spec defect)" % (r.violated, m))
            states += r.distinct
            trans += r.generated
        # as written: everything except the named window holds ...
        r = mc("mc_%s_asis" % sn, mc_cfg(pdm, "orphan", err, False, **kw), pdm)
        if r.violated:
            raise vlib.Inconclusive("design spec: %s violated in as-written mode (spec defect)" % r.violated)
        states += r.distinct
        trans += r.generated
    # ... and the window itself is reachable (the counterexample becomes the replayed histories
    # that contain delete_role of an assigned role; the verdict comes from the real code)
    sn, pdm, err, kw = sets[0]
    r = mc("mc_window", orphan_cfg(pdm, **kw), pdm, expect=True)
    window = r.violated == "NoOrphanGrant"
    if not window:
        raise vlib.Inconclusive("design spec: Window_DeleteRoleOrphan not reachable in as-written mode")

    # 2. behaviours -> real rbac.Service
    plans = []
    if not thorough:
        plans.append(("bfs", pd0, False, 4, None, None))
        plans.append(("bfs_err", pd1, True, 3, None, None))
        plans.append(("sim", pd1, False, 9, "num=40", None))
    else:
        plans.append(("bfs", pd0, False, 5, None, None))
        plans.append(("bfs_err", pd1, True, 3, None, None))
        plans.append(("sim2", POLDEFS[(ctx.seed + 2) % len(POLDEFS)], False, 12, "num=60", REQ8))
        plans.append(("sim3", POLDEFS[(ctx.seed + 3) % len(POLDEFS)], True, 12, "num=60", REQ8))
    total = 0
    samples = []
    stats = {"enforce_calls": 0, "allowed": 0, "deviating_requests": 0}
    replays = []
    calls_seen = {}
    seen = set()
    hp = ctx.path("hist.ndjson")
    with open(hp, "w") as hf:
        for tag, pd, errops, depth, sim, req in plans:
            cfg = gen_cfg(pd, mode, errops, depth, **({"req": req} if req else {}))
            r = ctx.tlc(AREA, "RBACGenMC", tag + ".cfg",
                        files={tag + ".cfg": cfg, "RBACGenMC.tla": mc_module("RBACGen", pd)},
                        tag=tag, workers=workers if not sim else 4, simulate=sim, depth=depth + 2 if sim else None,
                        timeout=2400, heap="8g")
            if r.violated:
                raise vlib.Inconclusive("generator spec violated %s" % r.violated)
            # -simulate: num is per worker, and TLC evaluates the Emit invariant on every successor
            # of the last step, so one trace yields ~20 sibling histories sharing a prefix
            n, smp, nprefix, calls = write_hists(r, hf, tag, seen, limit=80000)
            os.remove(r.out_path)
            if n == 0:
                raise vlib.Inconclusive("no histories generated (%s)" % tag)
            for k, v in calls.items():
                calls_seen[k] = calls_seen.get(k, 0) + v
            samples += smp
            total += n
            replays.append({"plan": tag, "histories": n, "distinct_prefixes_checked": nprefix, "depth": depth,
                            "err_ops": errops, "simulated": bool(sim), "tlc_wall_s": round(r.wall, 1)})
    # one go test invocation for all plans (every history carries its own init record)
    summ, bad, wall = replay_file(ctx, hp, "rp", workers=workers)
    if summ["replayed"] != total:
        raise vlib.Inconclusive("replayed %s of %s histories" % (summ["replayed"], total))
    for k in stats:
        stats[k] += summ.get(k, 0)
    replay_wall = round(wall, 1)
    bad_rows = [(hp, b) for b in bad]

    # 3. verdicts. Each distinct signature is reproduced once from scratch.
    drift = [b for _, b in bad_rows if b.get("drift")]
    incon = [b for _, b in bad_rows if b["r"] == "inconclusive"]
    seen = set()
    # report the simplest exemplar: the contradiction right after the delete_role call, shortest history
    bad_rows.sort(key=lambda hb: (0 if (hb[1].get("dev") or {}).get("call", "").startswith("delete_role") else 1,
                                  (hb[1].get("dev") or hb[1].get("bad") or {}).get("step", 0)))
    nrepro = 0
    norepro = []
    for hp, b in bad_rows:
        if len(norepro) > 40:
            break
        for field, known in (("bad", False), ("dev", True)):
            m = b.get(field)
            if not m:
                continue
            # preliminary signature only limits the number of reproductions; the reported one is
            # taken from the from-scratch reproduction (every step checked -> earliest step)
            pre = signature(m, known)
            if pre in seen or nrepro >= 12:
                continue
            seen.add(pre)
            nrepro += 1
            hist = line_of(hp, b["i"])
            one = ctx.path("one.ndjson")
            with open(one, "w") as f:
                f.write(json.dumps(hist) + "\n")
            # same history index -> same concretisation map and shuffles
            summ, again, _ = replay_file(ctx, one, "repro", workers=1, idx0=b["i"])
            if not [a for a in again if a.get("bad") or a.get("dev")]:
                # not reproducible from scratch: typically a symptom of what an EARLIER history did
                # to the service instance its worker shares (e.g. a refused call that kept a
                # partial effect). Look at the other candidates; inconclusive only if none reproduces
                norepro.append(b)
                seen.discard(pre)
                nrepro -= 1
                if len(norepro) > 40:
                    break
                continue
            again = [a for a in again if a.get(field)]
            if not again:
                # the from-scratch run stopped earlier at the other kind of contradiction,
                # which is reported through its own row
                continue
            m2 = again[0][field]
            sig = signature(m2, known)
            hist = hist[:m2["step"] + 1]
            what = describe(m2) + "; history: " + " ; ".join(calls_of(hist))
            if known:
                what += " [role.Writer.Delete removes only the role row: the ontology node and its " \
                        "role->policy / role->subject edges stay, ResolveSubjects walks nodes]"
            ctx.report(sig, what, {"history": hist, "mismatch": m2, "mode": mode, "idx0": b["i"],
                                   "cmd": "python3 tools/verif.py replay C18 <this file>"})
    if norepro and not ctx.violations:
        raise vlib.Inconclusive("mismatch did not reproduce: %s" % json.dumps(norepro[0]))
    if norepro:
        ctx.notes.append("%d mismatches did not reproduce from scratch (symptoms of an earlier history on a shared "
                         "service instance), first: %s" % (len(norepro), json.dumps(norepro[0])[:400]))
    if incon and not ctx.violations:
        raise vlib.Inconclusive("harness inconclusive: %s" % json.dumps(incon[0]))
    if drift and not ctx.violations:
        raise vlib.Inconclusive("DRIFT (pinned beyond property, spec needs an update): %s" % json.dumps(drift[0]))
    if drift:
        ctx.notes.append("drift rows: %d, first: %s" % (len(drift), json.dumps(drift[0])))
    # vacuity guards
    need = ["create_role", "delete_role", "create_policy", "delete_policy", "assign", "unassign",
            "attach", "commit", "abort", "assign!"]
    missing = [c for c in need if not calls_seen.get(c)]
    if missing or stats["allowed"] == 0 or stats["allowed"] == stats["enforce_calls"]:
        raise vlib.Inconclusive("vacuous run: calls never exercised %s, allowed=%s of %s" % (
            missing, stats["allowed"], stats["enforce_calls"]))
    cov = {
        "states": states, "transitions": trans,
        "traces_validated_against_impl": total,
        "samples": samples[:3],
        "exhaustive": True,
        "exhaustive_plans": [r["plan"] for r in replays if not r["simulated"]],
        "design_runs": design,
        "replays": replays, "replay_wall_s": replay_wall, "histories_not_ok": len(bad_rows),
        "role_delete_mode": mode,
        "window_DeleteRoleOrphan_reachable_in_spec": window,
        "calls_replayed": calls_seen,
        "enforce_calls": stats["enforce_calls"], "enforce_allowed": stats["allowed"],
        "requests_deviating_as_written": stats["deviating_requests"],
        "rule": "bounded-exhaustive: every behaviour of RBAC.tla of the stated depth (2 subjects + root + "
                "never-registered subject, 2 roles + built-in Owner, 3 policies, tx view with commit/abort); "
                "simulated plans are seeded samples. A step whose whole call prefix was already checked in "
                "another history is executed but not re-checked. After every other step: NewEnforcer(tx).Enforce "
                "for every registered subject x action x object list (len<=2 over 6-8 objects incl. type-level "
                "and foreign-type requests), for root and the never-registered subject the lists of len<=1 "
                "(len 2 on init/commit steps); Service.Enforce (committed) for every subject x action x list of "
                "len<=1 (len 2 on init/commit steps); each compared with the property formula",
        "notes": ctx.notes,
    }
    return ctx.finish("model_checking", cov, [
        "TLC/SANY 1.8.0; harness projection (Enforce err==nil = allow; HasResource/HasRelationship/Exists for drift)",
        "one rbac.Service (memkv) per worker shared by up to 400 histories with fresh UUID identities per history",
        "keys are fresh: a deleted role/policy key is not created again while its ontology node exists",
        "the built-in Owner policy is never deleted; Engineer/Operator/Host/Viewer roles exist but are not exercised",
    ])


def selftest(ctx):
    """Binding self-test: corrupt one expected covered set in one recorded step (drop an object
    from both the property-level and the as-written expectation) and require the harness to
    reject exactly that history at that step on the real code."""
    pd = POLDEFS[ctx.seed % len(POLDEFS)]
    r = ctx.tlc(AREA, "RBACGenMC", "st.cfg",
                files={"st.cfg": gen_cfg(pd, "orphan", False, 3), "RBACGenMC.tla": mc_module("RBACGen", pd)},
                tag="st", workers=4)
    target = None
    for h in r.hists():
        for i, st in enumerate(h):
            for s, acts in st["v"]["p"].items():
                for a, objs in acts.items():
                    if s != "root" and objs and not target and "delete_role" not in [x["call"]["a"] for x in h]:
                        o = objs[0]
                        st["v"]["p"][s][a] = [x for x in objs if x != o]
                        st["v"]["x"][s][a] = [x for x in st["v"]["x"][s][a] if x != o]
                        target = (h, i, s, a, o)
        if target:
            break
    if not target:
        raise vlib.Inconclusive("selftest: no step with a grant found")
    h, i, s, a, o = target
    one = ctx.path("selftest.ndjson")
    with open(one, "w") as f:
        f.write(json.dumps(h) + "\n")
    summ, bad, _ = replay_file(ctx, one, "selftest", workers=1)
    hit = [b for b in bad if b.get("bad") and b["bad"]["step"] == i and b["bad"]["subj"] == s
           and b["bad"]["action"] == a and o in (b["bad"].get("objs") or [])]
    shutil.rmtree(ctx.build, ignore_errors=True)
    if hit:
        print("selftest: corrupted expectation (step %d, %s/%s minus %s) rejected: %s" % (i, s, a, o, describe(hit[0]["bad"])))
        return 0
    print("selftest FAILED: corrupted expectation was accepted: %s" % json.dumps(bad[:1]))
    return 2


def replay(ctx, path):
    with open(path) as f:
        obj = json.load(f)
    one = ctx.path("one.ndjson")
    with open(one, "w") as f:
        f.write(json.dumps(obj["history"]) + "\n")
    summ, bad, _ = replay_file(ctx, one, "replay", workers=1, idx0=obj.get("idx0", 0))
    bad = [b for b in bad if b.get("bad") or b.get("dev")]
    shutil.rmtree(ctx.build, ignore_errors=True)
    if bad:
        print("VIOLATION property=C18 replay=%s" % path)
        print("  " + describe(bad[0].get("bad") or bad[0].get("dev")))
        return 1
    print("replay: history passes on the current tree")
    return 0
