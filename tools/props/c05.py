"""C05 - exactly one writer controls a channel region (DESIGN.md section 3, C05)."""
import json
import os

import vlib

AREA = "control"


def gen_cfg(shared, depth, subjects=3, maxauth=2):
    subs = ", ".join('"s%d"' % (i + 1) for i in range(subjects))
    return """SPECIFICATION GSpec
CONSTANTS
  Subject = {%s}
  MaxAuth = %d
  Shared = %s
  MaxCounter = 100
  Depth = %d
INVARIANTS Emit HolderIsBest Reconstruct
CHECK_DEADLOCK FALSE
""" % (subs, maxauth, "TRUE" if shared else "FALSE", depth)


def mc_cfg(shared, subjects, maxauth, maxcounter):
    subs = ", ".join('"s%d"' % (i + 1) for i in range(subjects))
    return """SPECIFICATION Spec
CONSTANTS
  Subject = {%s}
  MaxAuth = %d
  Shared = %s
  MaxCounter = %d
INVARIANTS TypeOK HolderIsBest OneExclusive HolderAuthorized SharedEqualOnly Reconstruct
PROPERTIES ExactlyOne FailedOpenNoEffect
CHECK_DEADLOCK FALSE
""" % (subs, maxauth, "TRUE" if shared else "FALSE", maxcounter)


def write_hists(ctx, res, path, limit=None):
    n = 0
    samples = []
    with open(path, "w") as f:
        for h in res.hists():
            f.write(json.dumps(h, separators=(",", ":")) + "\n")
            if n < 2:
                samples.append(h)
            n += 1
            if limit and n >= limit:
                break
    return n, samples


def replay_file(ctx, path, shared, tag, reps=8, timeout=1200):
    out = ctx.path("out_%s.ndjson" % tag)
    rc, text, wall = ctx.go_test(
        "cesium", "./internal/control", ["zz_verif_control_test.go"],
        "^TestVerifControlReplay$",
        env={"VERIF_IN": path, "VERIF_OUT": out, "VERIF_SHARED": "1" if shared else "0",
             "VERIF_REPS": reps}, tag=tag, timeout=timeout)
    rows = ctx.read_ndjson(out)
    if rc != 0 or not rows or not rows[0].get("summary"):
        raise vlib.Inconclusive("control replay harness failed rc=%s:\n%s" % (rc, text[-2000:]))
    return rows[0], rows[1:]


def trace_cfg(shared):
    return """SPECIFICATION TSpec
CONSTANTS
  Subject = {"s1", "s2", "s3"}
  MaxAuth = 2
  Shared = %s
  MaxCounter = 1000000
INVARIANTS HolderIsBest OneExclusive HolderAuthorized SharedEqualOnly Reconstruct
CONSTRAINT HW
POSTCONDITION TraceAccepted
CHECK_DEADLOCK FALSE
""" % ("TRUE" if shared else "FALSE")


def record_trace(ctx, shared, rounds, tag, ops=6):
    out = ctx.path("trace_%s.ndjson" % tag)
    rc, text, wall = ctx.go_test(
        "cesium", "./internal/control", ["zz_verif_control_test.go"], "^TestVerifControlConcurrent$",
        env={"VERIF_OUT": out, "VERIF_SHARED": "1" if shared else "0", "VERIF_ROUNDS": rounds, "VERIF_OPS": ops},
        tag=tag, race=True)
    if "DATA RACE" in text:
        raise vlib.Inconclusive("race detector report in the control package (C09's subject):\n" + text[:2000])
    if rc != 0:
        raise vlib.Inconclusive("concurrent control driver failed rc=%s:\n%s" % (rc, text[-2000:]))
    with open(out) as f:
        return f.read()


def validate_trace(ctx, trace_text, shared, tag):
    """Returns (accepted, hwm, n_events, tlc_result)."""
    r = ctx.tlc(AREA, "ControlTrace", "tr.cfg", files={"tr.cfg": trace_cfg(shared), "trace.ndjson": trace_text},
                workers=1, deque=True, tag=tag, timeout=1200, expect_violation=True)
    n = len([x for x in trace_text.split("\n") if x.strip()])
    hwm = None
    for body in r.tagged("HWM"):
        try:
            hwm = int(body.split(",")[0].strip())
        except ValueError:
            pass
    if r.violated:
        return False, hwm, n, r
    accepted = (r.rc == 0 and not r.postcondition_failed and hwm is None)
    return accepted, hwm, n, r


def concurrent_stage(ctx, thorough):
    """Concurrent call/return traces from the real controller validated against
    ControlTrace.tla (linearization between call and return)."""
    total_events = total_rounds = tstates = 0
    for shared in (False, True):
        rounds = 150 if not thorough else 600
        tag = "conc_%s" % ("sh" if shared else "ex")
        text = record_trace(ctx, shared, rounds, tag)
        ok, hwm, n, r = validate_trace(ctx, text, shared, "tv_" + tag)
        tstates += r.distinct
        total_events += n
        total_rounds += rounds
        if not ok:
            lines = [x for x in text.split("\n") if x.strip()]
            at = (hwm or 1) - 1
            lo = at
            while lo > 0 and '"ev":"reset"' not in lines[lo]:
                lo -= 1
            hi = at + 1
            while hi < len(lines) and '"ev":"reset"' not in lines[hi]:
                hi += 1
            chunk = lines[lo:hi]
            what = ("invariant %s violated in the state the trace leads to" % r.violated) if r.violated else \
                "no linearization of the recorded calls explains event %d: %s" % (at - lo, lines[at] if at < len(lines) else "?")
            ctx.report("C05 concurrent trace rejected (%s)" % ("shared" if shared else "exclusive"),
                       "concurrent control trace (%s) rejected by ControlTrace.tla: %s" % ("shared" if shared else "exclusive", what),
                       {"trace": chunk, "shared": shared, "unexplained_event_index": at - lo, "kind": "trace"})
    return total_rounds, total_events, tstates


def selftest(ctx):
    """Binding self-test: a genuine trace is accepted; the same trace with one
    observation flipped, and with one event dropped, is rejected."""
    text = record_trace(ctx, False, 20, "st")
    ok, _, _, _ = validate_trace(ctx, text, False, "st_ok")
    lines = [x for x in text.split("\n") if x.strip()]
    flipped = list(lines)
    for i, ln in enumerate(flipped):
        if '"op":"authorize"' in ln and '"ev":"ret"' in ln:
            e = json.loads(ln)
            e["ok"] = not e["ok"]
            flipped[i] = json.dumps(e)
            break
    ok2, _, _, _ = validate_trace(ctx, "\n".join(flipped) + "\n", False, "st_flip")
    dropped = list(lines)
    for i, ln in enumerate(dropped):
        if '"op":"open"' in ln and '"ev":"ret"' in ln and '"err":"nil"' in ln:
            del dropped[i - 0]
            break
    ok3, _, _, _ = validate_trace(ctx, "\n".join(dropped) + "\n", False, "st_drop")
    print("selftest: genuine accepted=%s, flipped rejected=%s, dropped rejected=%s" % (ok, not ok2, not ok3))
    return 0 if (ok and not ok2 and not ok3) else 1


def regions_cfg(dev, depth=None, maxt=3, maxcounter=3, subjects=3):
    subs = ", ".join('"s%d"' % (i + 1) for i in range(subjects))
    base = """CONSTANTS
  Subject = {%s}
  MaxAuth = 1
  MaxT = %d
  MaxCounter = %d
  Dev_MultiRegionLeak = %s
""" % (subs, maxt, maxcounter, "TRUE" if dev else "FALSE")
    if depth is None:
        return "SPECIFICATION Spec\n" + base + "INVARIANTS TypeOK RegionsDisjoint HolderIsOpenBest NoGhosts\nPROPERTIES FailedOpenNoEffect\nCHECK_DEADLOCK FALSE\n"
    return "SPECIFICATION GSpec\n" + base + "  Depth = %d\nINVARIANTS Emit\nCHECK_DEADLOCK FALSE\n" % depth


def regions_stage(ctx, thorough):
    """Several control regions per channel (ControlRegions.tla): design check of the
    repaired behaviour, the as-written window as a vacuity witness, and replay of every
    behaviour to depth 4 (gates with their own time ranges) into the real controller."""
    r = ctx.tlc(AREA, "ControlRegions", "cr.cfg", files={"cr.cfg": regions_cfg(False)}, tag="cr_mc", timeout=1500, workers=8)
    if r.violated:
        ctx.notes.append("design: ControlRegions (repaired behaviour) violates %s" % r.violated)
    w = ctx.tlc(AREA, "ControlRegions", "crw.cfg", files={"crw.cfg": regions_cfg(True)}, tag="cr_asis", timeout=600, workers=4,
                expect_violation=True)
    if not w.violated:
        ctx.notes.append("design: the multi-region leak window no longer produces a counterexample")
    g = ctx.tlc(AREA, "ControlRegionsGen", "crg.cfg", files={"crg.cfg": regions_cfg(False, depth=4 if not thorough else 5, maxt=3, maxcounter=50)},
                tag="cr_gen", timeout=1500, workers=8)
    hp = ctx.path("gen_regions.ndjson")
    n, smp = write_hists(ctx, g, hp, limit=120000 if not thorough else 200000)
    if n == 0:
        raise vlib.Inconclusive("no region histories generated")
    summ, bad = replay_file(ctx, hp, False, "rp_regions", reps=2)
    for b in bad[:10]:
        if b.get("r") != "mismatch":
            raise vlib.Inconclusive("harness inconclusive: %s" % b)
        with open(hp) as f:
            for i, ln in enumerate(f):
                if i == b["i"]:
                    hist = json.loads(ln)
                    break
        step = hist[b["step"]] if 0 <= b["step"] < len(hist) else {}
        multi = step.get("err") == "other"
        sig = "C05 regions %s%s exp=%s" % (step.get("a"), " overlapping two regions" if multi else "", b["exp"].split("=")[0].split("[")[0])
        ctx.report(sig, "control regions: step %d (%s %s auth=%s range=[%s,%s)) expected %s, real controller gave %s" % (
            b["step"], step.get("a"), step.get("s"), step.get("auth"), step.get("lo"), step.get("hi"), b["exp"], b["act"]),
            {"history": hist, "shared": False, "mismatch": b})
    return r.distinct, r.generated, n


def user_stage(ctx, hist_path, n, thorough):
    """A seeded sample of the exclusive-mode behaviours replayed through the public cesium
    writer API (OpenWriter / SetAuthority / Write / Close on an index + data channel)."""
    import random
    with open(hist_path) as f:
        lines = f.readlines()
    rnd = random.Random(ctx.seed)
    pick = rnd.sample(lines, min(n, len(lines)))
    # every fourth history (index 3 mod 4) is replayed on a VIRTUAL channel, whose controller
    # runs in shared mode: those come from the shared-mode behaviours
    with open(hist_path.replace("gen_ex", "gen_sh")) as f:
        sh_lines = f.readlines()
    sh_pick = rnd.sample(sh_lines, min(len(pick) // 4 + 1, len(sh_lines)))
    for j in range(3, len(pick), 4):
        pick[j] = sh_pick[(j // 4) % len(sh_pick)]
    sp = ctx.path("user_sample.ndjson")
    with open(sp, "w") as f:
        f.writelines(pick)
    out = ctx.path("user_out.ndjson")
    rc, text, wall = ctx.go_test("cesium", ".", ["zz_verif_store_test.go", "zz_verif_ctl_test.go"], "^TestVerifControlUser$",
                                 env={"VERIF_IN": sp, "VERIF_OUT": out}, tag="user", timeout=1500)
    rows = ctx.read_ndjson(out)
    if rc != 0 or not rows or not rows[0].get("summary"):
        raise vlib.Inconclusive("user-level control harness failed rc=%s:\n%s" % (rc, text[-2000:]))
    for b in rows[1:6]:
        if b.get("r") != "mismatch":
            raise vlib.Inconclusive("user-level harness inconclusive: %s" % b)
        hist = json.loads(pick[b["i"]])
        step = hist[b["step"]] if 0 <= b["step"] < len(hist) else {}
        ctx.report("C05 user-level %s" % b["exp"].split("=")[0].split(" by ")[0],
                   "cesium writers: after step %d (%s %s auth=%s) expected %s, real cesium gave %s" % (
                       b["step"], step.get("a"), step.get("s"), step.get("auth"), b["exp"], b["act"]),
                   {"history": hist, "kind": "user", "mismatch": b})
    return rows[0]["replayed"]


def run(ctx):
    thorough = ctx.tier == "thorough"
    states = trans = 0
    design = []
    # 1. exhaustive design check
    for shared in (False, True):
        subj, ma, mc = (3, 2, 6) if not thorough else (4, 2, 6)
        r = ctx.tlc(AREA, "Control", "mc.cfg", files={"mc.cfg": mc_cfg(shared, subj, ma, mc)},
                    tag="mc_%s" % ("sh" if shared else "ex"), timeout=3000)
        if r.violated:
            # design-level counterexample is not a verdict about the code; the replay below
            # decides. Record and continue.
            ctx.notes.append("design: %s violated (shared=%s)" % (r.violated, shared))
        states += r.distinct
        trans += r.generated
        design.append({"shared": shared, "distinct": r.distinct, "generated": r.generated,
                       "violated": r.violated, "wall_s": round(r.wall, 1)})
    # 2. bounded-exhaustive behaviours replayed into the real controller
    depth = 4
    total = bad_total = 0
    samples = []
    all_bad = []
    exhaustive = True
    for shared in (False, True):
        tag = "gen_%s" % ("sh" if shared else "ex")
        r = ctx.tlc(AREA, "ControlGen", "gen.cfg", files={"gen.cfg": gen_cfg(shared, depth)}, tag=tag)
        hp = ctx.path(tag + ".ndjson")
        n, smp = write_hists(ctx, r, hp)
        samples += smp[:1]
        if n == 0:
            raise vlib.Inconclusive("no histories generated")
        summ, bad = replay_file(ctx, hp, shared, "rp_" + tag)
        if summ["replayed"] != n:
            raise vlib.Inconclusive("replayed %s of %s histories" % (summ["replayed"], n))
        total += n
        all_bad += [(shared, hp, b) for b in bad]
        if thorough:
            # deeper behaviours by simulation (depth 7, 4 subjects, 3 levels)
            tag2 = "sim_%s" % ("sh" if shared else "ex")
            cfg = gen_cfg(shared, 7, subjects=4, maxauth=3)
            r2 = ctx.tlc(AREA, "ControlGen", "sim.cfg", files={"sim.cfg": cfg}, tag=tag2,
                         simulate="num=4000", depth=8, workers=8, timeout=1200)
            hp2 = ctx.path(tag2 + ".ndjson")
            n2, _ = write_hists(ctx, r2, hp2)
            if n2:
                summ2, bad2 = replay_file(ctx, hp2, shared, "rp_" + tag2, reps=8, timeout=3000)
                total += n2
                all_bad += [(shared, hp2, b) for b in bad2]
    # verdicts: every mismatch is re-run once from scratch (reproduction) via a one-line file
    for shared, hp, b in all_bad[:20]:
        if b.get("r") != "mismatch":
            raise vlib.Inconclusive("harness inconclusive: %s" % b)
        with open(hp) as f:
            for i, ln in enumerate(f):
                if i == b["i"]:
                    hist = json.loads(ln)
                    break
        one = ctx.path("one.ndjson")
        with open(one, "w") as f:
            f.write(json.dumps(hist) + "\n")
        summ, bad = replay_file(ctx, one, shared, "repro", reps=64)
        if not bad:
            raise vlib.Inconclusive("mismatch did not reproduce: %s" % b)
        step = hist[b["step"]] if 0 <= b["step"] < len(hist) else {}
        sig = "C05 %s %s exp=%s" % ("shared" if shared else "exclusive", step.get("a"), b["exp"].split("=")[0])
        ctx.report(sig, "control %s: step %d (%s %s auth=%s) expected %s, real controller gave %s" % (
            "shared" if shared else "exclusive", b["step"], step.get("a"), step.get("s"),
            step.get("auth"), b["exp"], b["act"]),
            {"history": hist, "shared": shared, "mismatch": b,
             "cmd": "python3 tools/verif.py replay C05 <this file>"})
    n_user = user_stage(ctx, ctx.path("gen_ex.ndjson"), 3000 if not thorough else 15000, thorough)
    total += n_user
    rs, rt, rn = regions_stage(ctx, thorough)
    states += rs
    trans += rt
    total += rn
    rounds, events, tstates = concurrent_stage(ctx, thorough)
    cov = {
        "states": states, "transitions": trans,
        "user_level_histories_replayed": n_user,
        "multi_region_histories_replayed": rn,
        "concurrent_rounds_validated": rounds, "concurrent_events": events, "trace_validation_states": tstates,
        "traces_validated_against_impl": total + rounds,
        "samples": samples,
        "exhaustive": True,
        "design_runs": design,
        "replay_depth": depth,
        "rule": "every behaviour of Control.tla of length %d over 3 subjects x 3 authorities x {exclusive, shared} "
                "(open with/without ErrOnUnauthorizedOpen, duplicate open, set-authority, release), each replayed 8x "
                "into control.Controller comparing transfer, holder, error class and Authorize() of every open gate" % depth,
        "notes": ctx.notes,
    }
    return ctx.finish("model_checking", cov, [
        "TLC/SANY 1.8.0; Go map-iteration randomisation exercised by 8 repeats per history",
        "single control region (one time range); multi-region behaviour is covered by ControlRegions spec when present",
    ])


def replay(ctx, path):
    with open(path) as f:
        obj = json.load(f)
    if obj.get("kind") == "trace":
        ok, hwm, n, r = validate_trace(ctx, "\n".join(obj["trace"]) + "\n", obj.get("shared", False), "replay")
        if not ok:
            print("VIOLATION property=C05 replay=%s" % path)
            print("  recorded trace still rejected (high-water mark %s of %s events)" % (hwm, n))
            return 1
        print("replay: recorded trace is accepted by the current specification")
        return 0
    one = ctx.path("one.ndjson")
    with open(one, "w") as f:
        f.write(json.dumps(obj["history"]) + "\n")
    summ, bad = replay_file(ctx, one, obj.get("shared", False), "replay", reps=64)
    if bad:
        print("VIOLATION property=C05 replay=%s" % path)
        print("  " + json.dumps(bad[0]))
        return 1
    print("replay: history passes on the current tree")
    return 0
