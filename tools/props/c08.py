"""C08 - frame wire codec round-trips every frame and is safe on any bytes
(DESIGN.md section 3, C08).

Three TLA+ specifications in spec/codec, all bound to the real code by replay:
  CodecSync    sequence-numbered channel-set protocol   -> TestVerifCodecSync
  CodecLayout  flag computation / field layout / merge  -> TestVerifCodecLayout
  CodecDecode  decoder as a parse state machine         -> TestVerifCodecDecode, TestVerifCodecHuge,
                                                           TestVerifHTTPFramerCodec
Verdict-bearing observations (real code only): a round trip that differs beyond key order and
merging of alignment-contiguous series; a panic; a process death; an allocation larger than
64*len(input)+256KiB. Everything else the specifications pin (flag byte, size, which of
frame/error a malformed input yields, lazy application of updates) is drift -> exit 2.
"""
import json
import os
import random

import vlib

AREA = "codec"
MOD = "core"
PKG = "./pkg/distribution/framer/codec"
HARNESS = ["zz_verif_codec_test.go"]
HPKG = "./pkg/transport/http/framer"
HHARNESS = ["zz_verif_httpcodec_test.go"]

SIG_ALLOC = "C08 decode allocates wire-claimed length before reading"
SIG_PANIC = "C08 decode panics: dynamic codec not updated"
HUGE_VAL = 1000000
BIG_VAL = 100000


# ------------------------------------------------------------------ cfg generators
def sync_consts(max_updates=3, in_flight=2, encodes=3, split=False):
    return """CONSTANTS
  KeySets = {{1,2},{2,3},{1,2,3}}
  Presents = {{1,2,3},{2}}
  MaxUpdates = %d
  MaxInFlight = %d
  MaxEncodes = %d
  Apart = %d
  SplitUpdate = %s
""" % (max_updates, in_flight, encodes, max_updates, "TRUE" if split else "FALSE")


def sync_mc_cfg(inv=None, **kw):
    return "SPECIFICATION Spec\n" + sync_consts(**kw) + \
        "INVARIANTS %s\nCHECK_DEADLOCK FALSE\n" % (inv or "TypeOK PrefixAgreement WireTagged DecodeUsesEncodersState UnknownSeqIsError NoStrandedUpdate")


def sync_gen_cfg(depth, **kw):
    return "SPECIFICATION GSpec\n" + sync_consts(**kw) + "  Depth = %d\nINVARIANTS Emit\nCHECK_DEADLOCK FALSE\n" % depth


def layout_cfg(maxn, small_from, cfgs, perms, emit=True, small=("{0,1}", "{0,1}", "{0,5,6}"), inv=None,
               vals=("{1,2,3}", "{0,1,2}", "{0,1,2}", "{0,5,6,7}")):
    """vals = (KeyVals, LenVals, TRIds, AlignVals) of frames below small_from series."""
    return """SPECIFICATION Spec
CONSTANTS
  MaxN = %d
  KeyVals = %s
  LenVals = %s
  TRIds = %s
  AlignVals = %s
  SmallFrom = %d
  N4TRIds = %s
  N4LenVals = %s
  N4AlignVals = %s
  CfgIds = {%s}
  Perms = {%s}
INVARIANTS %s
CHECK_DEADLOCK FALSE
""" % (maxn, vals[0], vals[1], vals[2], vals[3], small_from, small[0], small[1], small[2], ",".join('"%s"' % c for c in cfgs),
       ",".join('"%s"' % p for p in perms), inv or ("AllSound Emit" if emit else "AllSound"))


def decode_cfg(as_written, emit=False, flags=None, inv=None, scens=None):
    fl = ",".join(str(i) for i in (flags if flags is not None else range(64)))
    invs = inv or ("NoPanic AllocProportional FrameWellFormed UnknownIsError TruncatedIsError" + (" Emit" if emit else ""))
    return """SPECIFICATION Spec
CONSTANTS
  Scens = {%s}
  FlagVals = {%s}
  Dyn0Flags = {0,63,21}
  MaxSer = 2
  Dens = 8
  AllocFromWire = %s
  PanicIfNotUpdated = %s
  C = 2
  K = 64
  BigVal = %d
  HugeVal = %d
INVARIANTS %s
CHECK_DEADLOCK FALSE
""" % (",".join('"%s"' % s for s in (scens or ["static", "dyn0", "dyn1q", "dyn2"])), fl,
       "TRUE" if as_written else "FALSE", "TRUE" if as_written else "FALSE", BIG_VAL, HUGE_VAL, invs)


# ------------------------------------------------------------------ helpers
def write_raw_hists(res, path, limit=None, seed=1, keep=None):
    """Copy the JSON of every HIST line into an ndjson file without re-encoding it."""
    lines = []
    for body in res.tagged("HIST"):
        try:
            lines.append(json.loads(body))
        except Exception:
            continue
    if keep:
        lines = [ln for ln in lines if keep(ln)]
    total = len(lines)
    if limit and total > limit:
        rnd = random.Random(seed)
        lines = [lines[i] for i in sorted(rnd.sample(range(total), limit))]
    with open(path, "w") as f:
        for ln in lines:
            f.write(ln + "\n")
    return len(lines), total, lines[:1]


def go(ctx, test, inp, tag, env=None, pkg=PKG, harness=HARNESS, timeout=1500, allow_crash=False):
    out = ctx.path("out_%s.ndjson" % tag)
    e = {"VERIF_IN": inp, "VERIF_OUT": out}
    e.update(env or {})
    rc, text, wall = ctx.go_test(MOD, pkg, harness, "^%s$" % test, env=e, tag=tag, timeout=timeout)
    rows = ctx.read_ndjson(out)
    summ = [r for r in rows if r.get("summary")]
    if allow_crash:
        return (summ[0] if summ else None), [r for r in rows if not r.get("summary")], text
    if rc != 0 or not summ:
        raise vlib.Inconclusive("%s harness failed rc=%s:\n%s" % (test, rc, text[-3000:]))
    return summ[0], [r for r in rows if not r.get("summary")], text


def read_marks(ctx, tag):
    """Cases that were in flight when a parallel stage died (one slot per worker, see vMarks)."""
    p = ctx.path("out_%s.ndjson.cur" % tag)
    if not os.path.exists(p):
        return []
    with open(p, errors="replace") as f:
        return sorted({ln.strip() for ln in f.read().split("\n") if ln.strip()})


def death_line(text):
    for ln in text.splitlines():
        if ln.startswith("fatal error") or ln.startswith("signal:") or ln.startswith("panic:"):
            return ln.strip()
    return "test process died"


def line_of(path, i):
    with open(path) as f:
        for k, ln in enumerate(f):
            if k == i:
                return ln
    return None


class Verdicts:
    """Collects drift (exit 2 unless a violation is reported) next to violations."""

    def __init__(self):
        self.drift = []

    def add_drift(self, what):
        self.drift.append(what)


# ------------------------------------------------------------------ 1. CodecSync
def run_sync(ctx, V, ev):
    thorough = ctx.tier == "thorough"
    r = ctx.tlc(AREA, "CodecSync", "mc.cfg", files={"mc.cfg": sync_mc_cfg(max_updates=3, in_flight=2, encodes=4 if not thorough else 5)},
                tag="sync_mc", workers=6, coverage=thorough, timeout=900)
    if r.violated:
        ctx.notes.append("design: CodecSync %s violated" % r.violated)
    never = [a for a in r.coverage_zero if a not in ("UpdateStore", "UpdatePush")]   # those two belong to SplitUpdate = TRUE
    if thorough and never:
        raise vlib.Inconclusive("CodecSync: actions never fired: %s" % never)
    ev["states"] += r.distinct
    ev["transitions"] += r.generated
    ev["design_runs"].append({"spec": "CodecSync", "distinct": r.distinct, "generated": r.generated,
                              "violated": r.violated, "wall_s": round(r.wall, 1)})
    # the named window: Codec.update as its two steps (flag first, push second) racing with
    # Encode/Decode on another goroutine strands the pushed state. Design-level only: the
    # property quantifies over inputs, not schedules, so this never decides the verdict.
    rs = ctx.tlc(AREA, "CodecSync", "w.cfg", files={"w.cfg": sync_mc_cfg(inv="NoStrandedUpdate", max_updates=2, in_flight=2, encodes=2, split=True)},
                 tag="sync_split", workers=2, timeout=300, expect_violation=True)
    ev["design_runs"].append({"spec": "CodecSync/as-written SplitUpdate", "windows": {"NoStrandedUpdate": rs.violated}})
    # vacuity: the interesting situations are reachable (each probe must be violated)
    for probe in ("ProbeDecAhead", "ProbeDecBehind", "ProbeLazy"):
        rp = ctx.tlc(AREA, "CodecSync", "p.cfg", files={"p.cfg": sync_mc_cfg(inv=probe, max_updates=2, in_flight=2, encodes=2)},
                     tag="sync_" + probe, workers=2, timeout=300, expect_violation=True)
        if rp.violated != probe:
            raise vlib.Inconclusive("CodecSync vacuity probe %s not reachable" % probe)
    depth = 7 if not thorough else 8
    g = ctx.tlc(AREA, "CodecSyncGen", "g.cfg", files={"g.cfg": sync_gen_cfg(depth)}, tag="sync_gen", workers=6, timeout=1500)
    hp = ctx.path("sync.ndjson")
    n, total, smp = write_raw_hists(g, hp)
    if n == 0:
        raise vlib.Inconclusive("CodecSyncGen produced no behaviours")
    ev["states"] += g.distinct
    ev["transitions"] += g.generated
    summ, bad, text = go(ctx, "TestVerifCodecSync", hp, "sync", allow_crash=True)
    if summ is None:
        # the replay process died: re-run the behaviours that were in flight, each alone
        ctx.notes.append("sync: test process died (%s)" % death_line(text))
        hit = 0
        for mk in read_marks(ctx, "sync")[:8]:
            if not mk.split()[0].isdigit():
                continue
            i = int(mk.split()[0])
            hist = json.loads(line_of(hp, i))
            one = ctx.path("sync_one.ndjson")
            with open(one, "w") as f:
                for _ in range(i):
                    f.write("[]\n")
                f.write(json.dumps(hist) + "\n")
            s2, bad2, t2 = go(ctx, "TestVerifCodecSync", one, "sync_repro", allow_crash=True)
            v = [x for x in bad2 if x.get("r") == "violation"]
            if s2 is None or v:
                what = ("replaying this behaviour alone kills the process again: " + death_line(t2)) if s2 is None else v[0]["what"]
                ctx.report("C08 sync %s" % ("process dies" if s2 is None else v[0]["what"].split(":")[0][:60]),
                           "two codecs a bounded number of updates apart: %s" % what[:400],
                           {"kind": "sync", "history": hist, "index": i, "mismatch": {"what": what},
                            "cmd": "python3 tools/verif.py replay C08 <this file>"})
                hit += 1
        if not hit:
            raise vlib.Inconclusive("TestVerifCodecSync died and no behaviour in flight reproduces it:\n%s" % text[-2000:])
        return
    if summ["replayed"] != n:
        raise vlib.Inconclusive("sync: replayed %s of %s behaviours" % (summ["replayed"], n))
    if not (summ["dec_frame"] and summ["dec_error"] and summ["dec_with_older_state"] and summ.get("many_series_histories")):
        raise vlib.Inconclusive("sync replay vacuous: %s" % summ)
    ev["sync"] = {"behaviours": n, "depth": depth, "harness": summ}
    ev["traces_validated_against_impl"] += n
    ev["samples"].append({"spec": "CodecSync", "behaviour": json.loads(smp[0]) if smp else None})
    seen = set()
    for b in bad:
        if b.get("r") == "inconclusive":
            raise vlib.Inconclusive("sync harness: %s" % b)
        hist = json.loads(line_of(hp, b["i"]))
        if b["r"] == "drift":
            V.add_drift("sync: behaviour %d step %d: %s" % (b["i"], b.get("step", -1), b["what"]))
            continue
        cat = b["what"].split(":")[0][:60]
        if cat in seen:
            continue
        seen.add(cat)
        # reproduce from scratch with the same line index parity (concretisation = i % 4, static = i % 3)
        one = ctx.path("sync_one.ndjson")
        with open(one, "w") as f:
            for _ in range(b["i"]):
                f.write("[]\n")
            f.write(json.dumps(hist) + "\n")
        s2, bad2, _ = go(ctx, "TestVerifCodecSync", one, "sync_repro")
        if not [x for x in bad2 if x.get("r") == "violation"]:
            raise vlib.Inconclusive("sync violation did not reproduce: %s" % b)
        step = hist[b["step"]] if 0 <= b.get("step", -1) < len(hist) else {}
        ctx.report("C08 sync %s %s" % (step.get("a"), cat),
                   "two codecs %s updates apart: behaviour step %d (%s): %s" % (
                       "a bounded number of", b["step"], step.get("a"), b["what"]),
                   {"kind": "sync", "history": hist, "index": b["i"], "mismatch": b,
                    "cmd": "python3 tools/verif.py replay C08 <this file>"})


# ------------------------------------------------------------------ 2. CodecLayout
ALL_CFGS = ["k3f", "k3v", "k13", "k3n", "k2w", "k0"]
MAIN_CFGS = ["k3f", "k3v", "k13", "k3n"]


def run_layout(ctx, V, ev):
    thorough = ctx.tier == "thorough"
    # "trx": every time-range class per series (zero, two proper ranges, an instant non-zero range
    # [t,t), a range with Start = 0 < End), equal across series and distinct, AND each frame also
    # laid end to end to 14..16 series ("rep": repeated keys with equal alignments, alternating
    # keys) - with and without alignment compression, fixed and variable types, a filtered key
    TRX_CFGS = ["k3f", "k3n", "k2w", "k13"]
    if not thorough:
        plan = [("n2", dict(maxn=2, small_from=9, cfgs=ALL_CFGS, perms=["id", "rev"]), 4),
                ("trx", dict(maxn=2, small_from=9, cfgs=TRX_CFGS, perms=["id", "rev", "rep"],
                             vals=("{1,2}", "{0,1}", "{0,1,2,3,4}", "{0,5,6}")), 2),
                ("n3s", dict(maxn=3, small_from=3, cfgs=MAIN_CFGS, perms=["id", "rev", "rot"],
                             small=("{0,1}", "{0,1,2}", "{0,5,6}")), 2)]
    else:
        plan = [("n2", dict(maxn=2, small_from=9, cfgs=ALL_CFGS, perms=["id", "rev", "rep"],
                            vals=("{1,2,3}", "{0,1,2}", "{0,1,2,3,4}", "{0,5,6,7}")), 4),
                ("trx", dict(maxn=3, small_from=9, cfgs=TRX_CFGS, perms=["id", "rev", "rot", "rep"],
                             vals=("{1,2}", "{0,1}", "{0,1,2,3,4}", "{0,5,6}")), 2),
                ("n3", dict(maxn=3, small_from=9, cfgs=MAIN_CFGS, perms=["id", "rev", "rot"]), 2),
                ("n4s", dict(maxn=4, small_from=1, cfgs=["k3f", "k3v", "k13"], perms=["id", "rev", "rot"],
                             small=("{0,1}", "{0,1,2}", "{0,5,6}")), 2)]
    # vacuity of the model: every constructible flag byte and a 3-way merge are reachable
    rp = ctx.tlc(AREA, "CodecLayout", "p.cfg", files={"p.cfg": layout_cfg(3, 9, ["k3f"], ["id"], inv="ProbeMerge3")},
                 tag="lay_probe", workers=4, timeout=600, expect_violation=True)
    if rp.violated != "ProbeMerge3":
        raise vlib.Inconclusive("CodecLayout: 3-way merge not reachable in the model")
    tot_cases = 0
    flags_seen = 0
    merged3 = 0
    lay = []
    for tag, kw, nconc in plan:
        r = ctx.tlc(AREA, "CodecLayout", "l.cfg", files={"l.cfg": layout_cfg(**kw)}, tag="lay_" + tag, workers=8,
                    timeout=2400, heap="6g")
        if r.violated:
            # a design-level counterexample is not a verdict; the implementation tests below decide
            ctx.notes.append("design: CodecLayout %s violated (%s)" % (r.violated, tag))
        hp = ctx.path("layout_%s.ndjson" % tag)
        n, total, smp = write_raw_hists(r, hp)
        if n != r.distinct:
            raise vlib.Inconclusive("layout %s: %d frames emitted for %d states" % (tag, n, r.distinct))
        ev["states"] += r.distinct
        ev["transitions"] += r.generated
        ev["design_runs"].append({"spec": "CodecLayout/" + tag, "distinct": r.distinct, "generated": r.generated,
                                  "violated": r.violated, "wall_s": round(r.wall, 1)})
        summ, bad, text = go(ctx, "TestVerifCodecLayout", hp, "lay_" + tag, env={"VERIF_NCONC": nconc}, allow_crash=True)
        crashed = summ is None
        if crashed:
            # the test process died (runaway allocation under the address-space limit, fatal
            # runtime error). That is an observation to be judged, not the end of the check:
            # rows written before the death and the cases in flight are re-run one by one.
            ctx.notes.append("layout %s: test process died (%s)" % (tag, death_line(text)))
        else:
            if summ["lines"] != n:
                raise vlib.Inconclusive("layout %s: harness read %s of %s frames" % (tag, summ["lines"], n))
            tot_cases += summ["cases"]
            flags_seen = max(flags_seen, summ["flag_bytes_seen"])
            merged3 += summ["merged3"]
            lay.append({"run": tag, "frames": n, "cases": summ["cases"], "flag_bytes_seen": summ["flag_bytes_seen"],
                        "merged2": summ["merged2"], "merged3": summ["merged3"], "wide_payload_cases": summ.get("wide_payload_cases", 0),
                        "many_series_cases": summ.get("many_series_cases", 0), "tie_cases": summ.get("tie_cases", 0),
                        "instant_range_cases": summ.get("instant_range_cases", 0),
                        "stream_reader_modes": summ.get("stream_reader_modes", {})})
            if tag == "trx" and not (summ.get("many_series_cases") and summ.get("tie_cases") and summ.get("instant_range_cases")):
                raise vlib.Inconclusive("layout trx vacuous (frames of >= 13 series / ties on (key, alignment) / instant ranges): %s" % summ)
            if summ.get("wide_payload_cases", 0) == 0:
                raise vlib.Inconclusive("layout %s: no case with payloads above 64 KB was run" % tag)
            if len(summ.get("stream_reader_modes", {})) < 7:
                raise vlib.Inconclusive("layout %s: not every fragmented-reader mode was exercised: %s" % (tag, summ.get("stream_reader_modes")))
            if tag == "n2" and smp:
                ev["samples"].append({"spec": "CodecLayout", "frame": json.loads(smp[0])})

        def isolated(i, cid):
            """One case alone in a fresh process: ("died", text) | ("violation", row) | None."""
            ln = line_of(hp, i)
            one = ctx.path("layout_one.ndjson")
            with open(one, "w") as f:
                for _ in range(i):
                    f.write("{}\n")
                f.write(ln)
            s2, bad2, t2 = go(ctx, "TestVerifCodecLayout", one, "lay_repro", env={"VERIF_NCONC": 4, "VERIF_ONLY": cid}, allow_crash=True)
            if s2 is None:
                return ("died", t2), ln
            v = [x for x in bad2 if x.get("r") == "violation"]
            return (("violation", v[0]) if v else None), ln

        seen = set()
        reported = 0
        for b in bad:
            if b.get("r") == "inconclusive":
                raise vlib.Inconclusive("layout harness: %s" % b)
            if b["r"] == "drift":
                V.add_drift("layout %s frame %s %s: %s" % (tag, b["frame"], b["id"], b["what"]))
                continue
            cat = b["what"].split(":")[0].split("(")[0].strip()[:50]
            cfgname = b["id"].split("/")[1]
            if (cat, cfgname) in seen or len(seen) >= 6:
                continue
            seen.add((cat, cfgname))
            res, ln = isolated(b["i"], b["id"])
            if res is None:
                raise vlib.Inconclusive("layout violation did not reproduce: %s" % b)
            what = b["what"][:400] if res[0] == "violation" else b["what"][:300] + "; alone in a fresh process: " + death_line(res[1])
            ctx.report("C08 roundtrip %s [%s]" % (cat, cfgname),
                       "frame %s (series = key,len,start,end,alignment) under codec %s: %s" % (json.dumps(b["frame"]), b["id"], what),
                       {"kind": "layout", "line": json.loads(ln), "index": b["i"], "id": b["id"], "mismatch": b,
                        "cmd": "python3 tools/verif.py replay C08 <this file>"})
            reported += 1
        if crashed:
            for mk in read_marks(ctx, "lay_" + tag)[:8]:
                parts = mk.split()
                if len(parts) < 2 or not parts[0].isdigit():
                    continue
                i, cid = int(parts[0]), parts[1]
                res, ln = isolated(i, cid)
                if res is None:
                    continue
                fr = json.loads(ln)[cid.split("/")[0]]["s"]
                cfgname = cid.split("/")[1]
                if res[0] == "died":
                    sig = "C08 roundtrip process dies [%s]" % cfgname
                    what = ("Decode / DecodeStream (reader %s) of the ENCODING of this valid frame kills the process, twice "
                            "(8 GiB address-space limit): %s" % (parts[2] if len(parts) > 2 else "?", death_line(res[1])))
                else:
                    sig = "C08 roundtrip %s [%s]" % (res[1]["what"].split(":")[0].split("(")[0].strip()[:50], cfgname)
                    what = res[1]["what"][:400]
                ctx.report(sig, "frame %s (series = key,len,start,end,alignment) under codec %s: %s" % (json.dumps(fr), cid, what),
                           {"kind": "layout", "line": json.loads(ln), "index": i, "id": cid, "mismatch": {"what": what},
                            "cmd": "python3 tools/verif.py replay C08 <this file>"})
                reported += 1
            if not reported:
                raise vlib.Inconclusive("TestVerifCodecLayout (%s) died and no case in flight reproduces it:\n%s" % (tag, text[-2000:]))
    if ctx.violations:
        ev["layout"] = lay
        return
    if flags_seen < 36 or tot_cases == 0 or (thorough and merged3 == 0):
        raise vlib.Inconclusive("layout replay vacuous: flag bytes seen %d (36 constructible), cases %d, 3-way merges %d" % (
            flags_seen, tot_cases, merged3))
    ev["layout"] = lay
    ev["traces_validated_against_impl"] += tot_cases


# ------------------------------------------------------------------ 3. CodecDecode
def classes(row):
    return {(t["t"], t["c"]) for t in row["toks"]}


def reaches_data_with(row, val):
    return any(t["t"] == "data" and t["v"] == val for t in row["toks"])


def decode_sig(b):
    if b["kind"] == "panic":
        return SIG_PANIC if b.get("sig") == "dynamic codec not updated" else "C08 decode panics: " + str(b.get("sig"))
    if b.get("sig") == "wire-claimed length":
        return SIG_ALLOC
    return "C08 decode allocation out of proportion: " + str(b.get("sig"))


def run_decode(ctx, V, ev):
    thorough = ctx.tier == "thorough"
    # design level: masked windows -> all invariants hold; code as written -> exactly the two windows
    m = ctx.tlc(AREA, "CodecDecode", "mc.cfg", files={"mc.cfg": decode_cfg(False)}, tag="dec_mc", workers=6,
                coverage=thorough, timeout=1200)
    if m.violated:
        ctx.notes.append("design: CodecDecode (masked) %s violated" % m.violated)
    if thorough and m.coverage_zero:
        raise vlib.Inconclusive("CodecDecode: actions never fired: %s" % m.coverage_zero)
    ev["states"] += m.distinct
    ev["transitions"] += m.generated
    ev["design_runs"].append({"spec": "CodecDecode/masked", "distinct": m.distinct, "generated": m.generated,
                              "violated": m.violated, "wall_s": round(m.wall, 1)})
    windows = {}
    for inv in ("NoPanic", "AllocProportional"):
        w = ctx.tlc(AREA, "CodecDecode", "w.cfg", files={"w.cfg": decode_cfg(True, inv=inv, flags=[0, 8, 63])},
                    tag="dec_asis_" + inv, workers=2, timeout=600, expect_violation=True)
        windows[inv] = w.violated
    ev["design_runs"].append({"spec": "CodecDecode/as-written", "windows": windows})
    for probe in ("ProbeFrame2", "ProbeOver"):
        rp = ctx.tlc(AREA, "CodecDecode", "p.cfg", files={"p.cfg": decode_cfg(False, inv=probe, flags=[0, 8])},
                     tag="dec_" + probe, workers=2, timeout=300, expect_violation=True)
        if rp.violated != probe:
            raise vlib.Inconclusive("CodecDecode vacuity probe %s not reachable" % probe)
    g = ctx.tlc(AREA, "CodecDecode", "g.cfg", files={"g.cfg": decode_cfg(False, emit=True)}, tag="dec_gen", workers=6, timeout=1500)
    hp = ctx.path("decode.ndjson")
    n, total, smp = write_raw_hists(g, hp)
    if n == 0:
        raise vlib.Inconclusive("CodecDecode emitted no inputs")
    rows = [json.loads(ln) for ln in open(hp)]
    cls = set()
    for r in rows:
        cls |= classes(r)
    need = {("len", "c0"), ("len", "c1"), ("len", "c2"), ("len", "big"), ("len", "huge"), ("hlen", "huge"),
            ("seq", "zero"), ("seq", "next"), ("seq", "huge"), ("seq", "v2"), ("key", "unknown")}
    if not need <= cls or not {"static", "dyn0", "dyn1q", "dyn2"} <= {r["scen"] for r in rows}:
        raise vlib.Inconclusive("CodecDecode inputs miss classes: %s" % sorted(need - cls))
    ev["samples"].append({"spec": "CodecDecode", "input": rows[len(rows) // 2]})
    # 3a. every abstract input, concretised, plus seeded mutants, against the real decoder
    summ, bad, _ = go(ctx, "TestVerifCodecDecode", hp, "dec",
                      env={"VERIF_NCONC": 2 if not thorough else 4, "VERIF_MUT": 2 if not thorough else 8}, timeout=2400)
    if summ["inputs"] != n or summ["frames"] == 0 or summ["errors"] == 0:
        raise vlib.Inconclusive("decode replay vacuous or incomplete: %s" % summ)
    ev["decode"] = {"abstract_inputs": n, "harness": summ}
    ev["traces_validated_against_impl"] += summ["runs"]
    by_sig = {}
    for b in sorted(bad, key=lambda x: bool(x.get("mut"))):     # model-generated inputs before mutants
        if b.get("r") == "inconclusive":
            raise vlib.Inconclusive("decode harness: %s" % b)
        if b["r"] == "drift":
            V.add_drift("decode input %d (%s, %s): %s" % (b["i"], b["scen"], b["conc"], b["what"]))
            continue
        by_sig.setdefault(decode_sig(b), b)
    for sig, b in list(by_sig.items())[:6]:
        # reproduction from the raw bytes in a fresh process
        one = ctx.path("dec_one.ndjson")
        with open(one, "w") as f:
            f.write(json.dumps({"scen": b["scen"], "hex": b["hex"], "conc": b["conc"]}) + "\n")
        s2, bad2, _ = go(ctx, "TestVerifCodecDecode", one, "dec_repro", env={"VERIF_MUT": 0, "VERIF_NCONC": 1})
        if not [x for x in bad2 if x.get("r") == "violation" and x.get("kind") == b["kind"]]:
            raise vlib.Inconclusive("decode violation did not reproduce: %s" % json.dumps(b)[:500])
        what = ("Decode panics on %d bytes in codec state %s: %s" % (b["len"], b["scen"], b["what"]) if b["kind"] == "panic"
                else "Decode in codec state %s: %s" % (b["scen"], b["what"]))
        ctx.report(sig, what, {"kind": "decode", "scen": b["scen"], "hex": b["hex"], "conc": b["conc"], "mutant": b.get("mut"),
                               "abstract_input": rows[b["i"]] if not b.get("mut") else None, "mismatch": b,
                               "cmd": "python3 tools/verif.py replay C08 <this file>"})
    # 3b. the 2^32-1 class under a 3 GiB address-space limit, in its own process
    huge = [r for r in rows if reaches_data_with(r, HUGE_VAL) and r["scen"] != "dyn0"]
    if not huge:
        raise vlib.Inconclusive("no abstract input carries the 2^32-1 class into the data phase")
    if summ.get("wire_alloc_seen"):
        huge = huge[:1]      # the finding is established; one demonstration of the crash is enough
    elif not thorough:
        huge = vlib.sample(huge, 600, ctx.seed)
    hh = ctx.path("huge.ndjson")
    with open(hh, "w") as f:
        for r in huge:
            f.write(json.dumps(r) + "\n")
    s3, rows3, text3 = go(ctx, "TestVerifCodecHuge", hh, "huge", allow_crash=True)
    starts = [r for r in rows3 if "start" in r]
    dones = {r["done"] for r in rows3 if "done" in r}
    crashed = [r for r in starts if r["start"] not in dones]
    for r in rows3:
        if r.get("r") == "inconclusive":
            raise vlib.Inconclusive("huge harness: %s" % r)
        if r.get("r") == "violation":
            st = [x for x in starts if x["start"] == r["done"]][0]
            b = dict(r, scen=st["scen"], hex=st["hex"], conc="u8", len=st["len"], what=r.get("what", "alloc %s" % r.get("alloc")))
            ctx.report(decode_sig(b), "Decode of %d bytes (length field 2^32-1) in state %s: %s" % (st["len"], st["scen"], b["what"]),
                       {"kind": "decode", "scen": st["scen"], "hex": st["hex"], "conc": "u8", "mismatch": b})
    if crashed:
        c = crashed[0]
        fatal = "fatal error" in text3
        # reproduce: same input again, alone
        with open(hh, "w") as f:
            f.write(json.dumps({"scen": c["scen"], "hex": c["hex"], "conc": "u8"}) + "\n")
        s4, rows4, text4 = go(ctx, "TestVerifCodecHuge", hh, "huge_repro", allow_crash=True)
        if s4 is not None or "fatal error" not in text4:
            raise vlib.Inconclusive("process death on the 2^32-1 class did not reproduce: %s" % text3[-800:])
        msg = [ln for ln in text4.splitlines() if ln.startswith("fatal error")][:1]
        ctx.report(SIG_ALLOC, "Decode of %d bytes (%s) in state %s kills the process under a 3 GiB address-space limit: %s "
                   "(makeslice of the wire-supplied length %d)" % (c["len"], c["hex"], c["scen"], msg[0] if msg else "?", c["claim"]),
                   {"kind": "huge", "scen": c["scen"], "hex": c["hex"], "conc": "u8", "fatal": fatal,
                    "cmd": "python3 tools/verif.py replay C08 <this file>"})
    elif s3 is None:
        raise vlib.Inconclusive("huge harness died without a pending input:\n" + text3[-1500:])
    ev["huge"] = {"inputs": len(huge), "answered": len(dones), "process_died": bool(crashed)}
    ev["traces_validated_against_impl"] += len(dones)
    # 3c. the WebSocket framer codec in front of it
    nohuge = [r for r in rows if not ({("len", "huge"), ("hlen", "huge")} & classes(r))]
    big = [r for r in nohuge if reaches_data_with(r, BIG_VAL)]
    rest = [r for r in nohuge if not ({("len", "big"), ("hlen", "big")} & classes(r))]
    sel = vlib.sample(big, 8, ctx.seed) + vlib.sample(rest, 2500 if not thorough else 12000, ctx.seed)
    random.Random(ctx.seed).shuffle(sel)
    hf = ctx.path("http.ndjson")
    with open(hf, "w") as f:
        for r in sel:
            f.write(json.dumps(r) + "\n")
    s5, bad5, _ = go(ctx, "TestVerifHTTPFramerCodec", hf, "http", pkg=HPKG, harness=HHARNESS, timeout=2400)
    if s5["runs"] != len(sel) or s5["frames"] == 0:
        raise vlib.Inconclusive("http framer replay vacuous or incomplete: %s" % s5)
    ev["http_framer"] = s5
    ev["traces_validated_against_impl"] += s5["runs"] + s5["garbage_runs"]
    seen = set()
    for b in bad5:
        if b.get("r") == "inconclusive":
            raise vlib.Inconclusive("http harness: %s" % b)
        if b["r"] == "drift":
            V.add_drift("http framer input %d (%s, %s): %s" % (b["i"], b["scen"], b["type"], b["what"]))
            continue
        sig = decode_sig(b)
        if sig in seen:
            continue
        seen.add(sig)
        ctx.report(sig, "http framer Codec.Decode(%s) in state %s, %d bytes: %s" % (b["type"], b["scen"], b["len"], b["what"]),
                   {"kind": "http", "scen": b["scen"], "hex": b["hex"], "type": b["type"], "mismatch": b})


# ------------------------------------------------------------------ entry points
def run(ctx):
    ev = {"states": 0, "transitions": 0, "traces_validated_against_impl": 0, "samples": [], "design_runs": []}
    V = Verdicts()
    # an unexpected failure in one stage must not hide what the other stages observe
    problems = []
    for stage in (run_sync, run_layout, run_decode):
        try:
            stage(ctx, V, ev)
        except vlib.Inconclusive as e:
            problems.append("%s: %s" % (stage.__name__, e))
    if problems and not ctx.violations:
        raise vlib.Inconclusive(" || ".join(problems))
    ctx.notes += ["stage did not complete: " + p[:300] for p in problems]
    if V.drift and not ctx.violations:
        raise vlib.Inconclusive("%d observations differ from what the specifications pin beyond the property (model drift): %s" % (
            len(V.drift), " | ".join(V.drift[:4])))
    cov = dict(ev)
    cov["exhaustive"] = True
    cov["drift"] = V.drift[:10]
    cov["rule"] = ("every behaviour of CodecSync.tla to the stated depth replayed into two real codecs; every abstract frame "
                   "CodecLayout.tla enumerates (<= MaxN series over 3 keys, lengths 0..2, time ranges zero / proper / nested / instant [t,t) / "
                   "Start=0<End, 4 alignments, fixed/variable types, subsets, repeated keys, 2-4 raw orders incl. each frame laid end to "
                   "end to 14..16 series with ties on (key, alignment), up to 6 codec configurations) encoded and decoded "
                   "by the real codec under 2-4 concretisations, compared up to key order and merging, plus flag byte and size, and every "
                   "encoding ALSO decoded through DecodeStream with a fragmenting reader (cross product, rotating over: one byte at a "
                   "time, 7-byte and 4 KiB chunks, fragments ending exactly at every field boundary, every field split in the middle, "
                   "a cut inside the seq number, cuts right after the 5-byte header) and compared with Decode of the whole buffer; "
                   "every abstract input of CodecDecode.tla (64 flag bytes x 4 codec states x boundary classes x every truncation) "
                   "concretised and decoded under recover() with allocation accounting, plus seeded byte mutants, the 2^32-1 class "
                   "under an address-space limit, and a sample through the WebSocket framer codec with real channels")
    cov["notes"] = ctx.notes[:20]
    return ctx.finish("model_checking", cov, [
        "allocation bound checked: TotalAlloc delta <= 64*len(input) + 256 KiB (screened with runtime/metrics, confirmed with MemStats)",
        "alignment sample index does not wrap around 2^32 in the concretisations",
        "Update is called from the goroutine that encodes/decodes (Update racing with processUpdates is not modelled)",
        "http framer pass uses a seeded sample of the abstract inputs and no mutants; frames of 4 series use restricted value sets",
    ])


def selftest(ctx):
    """Binding self-test: corrupt one expected value per specification and require the harness
    to notice (on the tree under test, which must otherwise pass those lines)."""
    ok = True
    # layout: flip the expected flag byte, drop a source index, change an alignment
    r = ctx.tlc(AREA, "CodecLayout", "l.cfg", files={"l.cfg": layout_cfg(1, 9, ["k3f"], ["id"])}, tag="st_lay", workers=2, timeout=300)
    hp = ctx.path("st_layout.ndjson")
    n, _, _ = write_raw_hists(r, hp)
    lines = [json.loads(ln) for ln in open(hp)]
    tgt = [ln for ln in lines if ln["id"]["e"]["k3f"]["d"] and ln["id"]["s"][0][1] == 2][0]
    for name, fn in (("flag byte", lambda e: e.__setitem__("f", e["f"] ^ 8)),
                     ("meta size", lambda e: e.__setitem__("m", e["m"] + 4)),
                     ("alignment", lambda e: e["d"][0].__setitem__(1, 6 if e["d"][0][1] != 6 else 5)),
                     ("samples", lambda e: e["d"][0].__setitem__(4, []))):
        c = json.loads(json.dumps(tgt))
        fn(c["id"]["e"]["k3f"])
        one = ctx.path("st_one.ndjson")
        with open(one, "w") as f:
            f.write(json.dumps(c) + "\n")
        s1, bad, _ = go(ctx, "TestVerifCodecLayout", one, "st_lay_go", env={"VERIF_NCONC": 1})
        hit = bool(bad)
        print("selftest layout corrupt %-10s -> %s" % (name, "rejected" if hit else "ACCEPTED"))
        ok = ok and hit
    # sync: claim a refused frame decodes / a wrong seq
    g = ctx.tlc(AREA, "CodecSyncGen", "g.cfg", files={"g.cfg": sync_gen_cfg(5)}, tag="st_sync", workers=2, timeout=300)
    hs = ctx.path("st_sync.ndjson")
    write_raw_hists(g, hs)
    hists = [json.loads(ln) for ln in open(hs)]
    h = [x for x in hists if any(st["a"] == "dec" and st["kind"] == "error" for st in x)][0]
    h2 = [x for x in hists if any(st["a"] == "enc" for st in x)][0]
    for name, hist, fn in (("dec kind", h, lambda hh: [st.__setitem__("kind", "frame") for st in hh if st["a"] == "dec"]),
                           ("enc seq", h2, lambda hh: [st.__setitem__("seq", st["seq"] + 1) for st in hh if st["a"] == "enc"]),
                           ("queue len", h2, lambda hh: hh[0]["post"].__setitem__("eq", 7))):
        c = json.loads(json.dumps(hist))
        fn(c)
        one = ctx.path("st_one.ndjson")
        with open(one, "w") as f:
            f.write(json.dumps(c) + "\n")
        s1, bad, _ = go(ctx, "TestVerifCodecSync", one, "st_sync_go")
        hit = bool(bad)
        print("selftest sync corrupt %-10s -> %s" % (name, "rejected" if hit else "ACCEPTED"))
        ok = ok and hit
    # decode: flip the expected outcome
    d = ctx.tlc(AREA, "CodecDecode", "g.cfg", files={"g.cfg": decode_cfg(False, emit=True, flags=[0, 63], scens=["static"])},
                tag="st_dec", workers=2, timeout=300)
    hd = ctx.path("st_dec.ndjson")
    write_raw_hists(d, hd)
    ins = [json.loads(ln) for ln in open(hd)]
    fr = [x for x in ins if x["out"] == "frame" and x["ns"] == 2][0]
    er = [x for x in ins if x["out"] == "error" and not x["over"]][0]
    for name, inp, fn in (("frame->error", fr, lambda x: x.__setitem__("out", "error")),
                          ("error->frame", er, lambda x: x.__setitem__("out", "frame")),
                          ("series count", fr, lambda x: x.__setitem__("ns", 1))):
        c = json.loads(json.dumps(inp))
        fn(c)
        one = ctx.path("st_one.ndjson")
        with open(one, "w") as f:
            f.write(json.dumps(c) + "\n")
        s1, bad, _ = go(ctx, "TestVerifCodecDecode", one, "st_dec_go", env={"VERIF_MUT": 0, "VERIF_NCONC": 1})
        hit = bool([b for b in bad if b.get("r") == "drift"])
        print("selftest decode corrupt %-12s -> %s" % (name, "rejected" if hit else "ACCEPTED"))
        ok = ok and hit
    return 0 if ok else 1


def replay(ctx, path):
    with open(path) as f:
        obj = json.load(f)
    kind = obj.get("kind")
    one = ctx.path("one.ndjson")
    if kind == "sync":
        with open(one, "w") as f:
            for _ in range(obj["index"]):
                f.write("[]\n")
            f.write(json.dumps(obj["history"]) + "\n")
        s, bad, text = go(ctx, "TestVerifCodecSync", one, "replay", allow_crash=True)
        bad = [b for b in bad if b.get("r") == "violation"] or ([{"what": "process dies: " + death_line(text)}] if s is None else [])
    elif kind == "layout":
        with open(one, "w") as f:
            for _ in range(obj["index"]):
                f.write("{}\n")
            f.write(json.dumps(obj["line"]) + "\n")
        s, bad, text = go(ctx, "TestVerifCodecLayout", one, "replay", env={"VERIF_NCONC": 4, "VERIF_ONLY": obj["id"]}, allow_crash=True)
        bad = [b for b in bad if b.get("r") == "violation"] or ([{"what": "process dies: " + death_line(text)}] if s is None else [])
    elif kind == "huge":
        with open(one, "w") as f:
            f.write(json.dumps({"scen": obj["scen"], "hex": obj["hex"], "conc": "u8"}) + "\n")
        s, rows, text = go(ctx, "TestVerifCodecHuge", one, "replay", allow_crash=True)
        bad = [{"what": [ln for ln in text.splitlines() if ln.startswith("fatal error")][:1]}] if s is None else \
            [r for r in rows if r.get("r") == "violation"]
    elif kind == "http":
        print("replay: http framer findings are replayed through the codec itself (same bytes without the prefix)")
        with open(one, "w") as f:
            f.write(json.dumps({"scen": obj["scen"], "hex": obj["hex"][2:], "conc": "u8"}) + "\n")
        s, bad, _ = go(ctx, "TestVerifCodecDecode", one, "replay", env={"VERIF_MUT": 0, "VERIF_NCONC": 1})
        bad = [b for b in bad if b.get("r") == "violation"]
    else:
        with open(one, "w") as f:
            f.write(json.dumps({"scen": obj["scen"], "hex": obj["hex"], "conc": obj.get("conc", "f64")}) + "\n")
        s, bad, _ = go(ctx, "TestVerifCodecDecode", one, "replay", env={"VERIF_MUT": 0, "VERIF_NCONC": 1})
        bad = [b for b in bad if b.get("r") == "violation"]
    if bad:
        print("VIOLATION property=C08 replay=%s" % path)
        print("  " + json.dumps(bad[0])[:700])
        return 1
    print("replay: input passes on the current tree")
    return 0
