"""C04 - time-range deletes remove exactly the range; GC is invisible (DESIGN.md C04)."""
import c01


def run(ctx):
    return c01.run_store(ctx, "C04", deletes=True)


replay = c01.replay
