"""X01 - extension check (specification growth beyond the listed properties): the cesium
file controller and index persistence of one domain database.

 1. FileController.tla (cesium/internal/domain file_controller.go + its use by writer.go,
    delete.go, db.go, index_persist.go; code as written) is model checked: S1 OneHolder /
    HeldStay, S2 HandOver / Rollover, S3 KeysDense / KeysFresh, S4 Limit, S5 GcExclusive /
    GcNotAcquired, S6 AfterClose on the code as written; S7 NoBlockWhenAllIdle /
    NoStuckWaiter on the repaired model (FixStarve) and, as written, shown to fail (the
    named deviation Dev_ReaderStarvedByIdleSmallWriter must stay visible).
    FileControllerConc.tla (tools/props/_fcconc.py, shared with C09) is the concurrent model of
    garbage collection vs a writer opening the same file: default design holds exhaustively, each of
    Dev_PrepareNoRecheck / Dev_ReopenOutsideLock alone violates PointersAddressOwnBytes.
 2. FileControllerGen.tla emits bounded-exhaustive behaviours (from the empty pool and after
    pool-building prefixes) and simulated deeper ones; TestVerifFCReplay steps a real
    domain.DB / fileController on a handle-counting MemFS through each of them and judges
    the invariants on the real pool after every step; calls the behaviour says block must
    be found parked in the goroutine dump, calls it says return must return.
"""
import json
import os

import vlib
import _fcconc

AREA = "domain"
MOD = "cesium"
PKG = "./internal/domain"
HARNESS = ["zz_verif_fc_test.go"]

NOMINAL, CAP, THR = 2, 3, 1

SIG_ALLIDLE = "X01 acquireReader-blocks-although-every-open-descriptor-is-idle"
SIG_STUCK = "X01 blocked-acquire-left-asleep-although-it-could-proceed"
FINDING_SIG = {"all-idle-block": SIG_ALLIDLE, "stuck-waiter": SIG_STUCK}
FINDING_WHAT = {
    "all-idle-block": "fileController.acquireReader at the descriptor limit parks on fc.release although every open "
                      "descriptor is idle: gcWriters only closes idle handles of OVERSIZE files, an idle writer handle of a "
                      "file below the nominal size is never evicted for a reader (MaxDescriptors idle writer handles starve "
                      "every new reader until a writer fills a file)",
    "stuck-waiter": "a blocked acquire stays parked although the same call issued afresh would return: the token of a "
                    "released small-file writer handle is taken by a blocked acquireReader that cannot use the handle "
                    "and re-queues, the blocked OpenWriter behind it is never woken (and, once it is, by another "
                    "release, a reader can be left asleep next to an idle handle of its file)",
}

INVS_SAFE = "TypeOK OneHolder HandOver KeysDense Limit GcExclusive AfterClose UnopenedSmall"
PROPS = "HeldStay Rollover KeysFresh GcNotAcquired"


def b(x):
    return "TRUE" if x else "FALSE"


def consts(mx, w, files, size, readers, pend, fix=False):
    return """  Max = %d
  Nominal = %d
  Cap = %d
  Thr = %d
  W = %d
  MaxFiles = %d
  MaxSize = %d
  MaxWrite = 2
  MaxReaders = %d
  MaxPend = %d
  FixStarve = %s
""" % (mx, NOMINAL, CAP, THR, w, files, size, readers, pend, b(fix))


def mc_cfg(c, invs, props=PROPS):
    return ("SPECIFICATION Spec\nCONSTANTS\n" + c + "VIEW View\nINVARIANTS " + invs +
            ("\nPROPERTIES " + props if props else "") + "\nCHECK_DEADLOCK FALSE\n")


def gen_cfg(c, depth, prefix, noise):
    return ("SPECIFICATION GSpec\nCONSTANTS\n" + c + "  Depth = %d\n  PrefixId = %d\n  Noise = %d\n" % (depth, prefix, noise) +
            "INVARIANTS TypeOK OneHolder HandOver KeysDense Limit GcExclusive AfterClose\nCHECK_DEADLOCK FALSE\n")


def write_hists(res, path):
    n = 0
    first = None
    with open(path, "w") as f:
        for h in res.hists():
            f.write(json.dumps(h, separators=(",", ":")) + "\n")
            if first is None:
                first = h
            n += 1
    return n, first


def compact(hist):
    out = []
    for s in hist:
        a = s["a"]
        if a == "open":
            t = "OpenWriter(w%d)" % s["s"]
        elif a == "write":
            t = "Write(w%d,%d)" % (s["s"], s["n"])
        elif a == "commit":
            t = "Commit(w%d)" % s["s"]
        elif a == "closew":
            t = "Close(w%d)" % s["s"]
        elif a == "acqr":
            t = "acquireReader(%d)" % s["k"]
        elif a == "relr":
            t = "releaseReader(%d)" % s["k"]
        elif a in ("gcnoop", "gcbegin"):
            t = "garbageCollectFile(%d)" % s["k"]
        elif a == "gcfinish":
            t = "compaction of %d returns" % s["k"]
        elif a == "gcr":
            t = "gcReaders"
        elif a == "gcw":
            t = "gcWriters"
        elif a == "close":
            t = "DB.Close"
        else:
            t = "Open(same FS)"
        extra = ""
        if s["f"]:
            extra += " file=%d" % s["f"]
        if s["x"][0]:
            extra += " rollover"
        if s["x"][1] or s["x"][2]:
            extra += " evicted(w=%d,r=%d)" % (s["x"][1], s["x"][2])
        if s["d"]:
            extra += " woke=%s" % s["d"]
        st = "".join("-uHicg"[c] for c in s["fs"])
        out.append("%s->%s%s files=%s sizes=%s parked=%s" % (t, s["r"], extra, st, s["fz"], s["pd"]))
    return out


def replay_file(ctx, path, mx, tag, unit=4, persist=False, vary=False, workers=None):
    out = ctx.path("out_%s.ndjson" % tag)
    env = {"VERIF_IN": path, "VERIF_OUT": out, "VERIF_MAX": mx, "VERIF_UNIT": unit,
           "VERIF_PERSIST": "1" if persist else "0", "VERIF_VARY": "1" if vary else "0",
           "VERIF_NOMINAL": NOMINAL, "VERIF_CAP": CAP, "VERIF_THR": THR}
    if workers:
        env["VERIF_WORKERS"] = workers
    rc, text, wall = ctx.go_test(MOD, PKG, HARNESS, "^TestVerifFCReplay$", env=env, tag=tag, timeout=2400)
    rows = ctx.read_ndjson(out)
    if rc != 0 or not rows or not rows[0].get("summary"):
        raise vlib.Inconclusive("file controller replay harness failed rc=%s:\n%s" % (rc, text[-2500:]))
    return rows[0], rows[1:], wall


def line_of(path, i):
    with open(path) as f:
        for k, ln in enumerate(f):
            if k == i:
                return json.loads(ln)
    return None


def note_of(row):
    cfg = {"unit": 4, "persist": False}
    for kv in (row.get("note") or "").split():
        k, _, v = kv.partition("=")
        if k == "unit":
            cfg[k] = int(v)
        elif k == "persist":
            cfg[k] = v == "true"
    return cfg


class Judge:
    def __init__(self, ctx):
        self.ctx = ctx
        self.drift = []
        self.counters = {}
        self.replayed = 0
        self.repro = 0
        self.findings_seen = {}

    def add_counters(self, c):
        for k, v in c.items():
            if k == "MaxPend":
                self.counters[k] = max(self.counters.get(k, 0), v)
            else:
                self.counters[k] = self.counters.get(k, 0) + v

    def reproduce(self, hist, mx, cfg, tag):
        one = self.ctx.path("one_%d.ndjson" % self.repro)
        self.repro += 1
        with open(one, "w") as f:
            f.write(json.dumps(hist) + "\n")
        _, rows, _ = replay_file(self.ctx, one, mx, "repro_%s_%d" % (tag, self.repro), unit=cfg["unit"],
                                 persist=cfg["persist"], workers=1)
        return rows

    def handle(self, path, mx, summ, rows, tag):
        ctx = self.ctx
        self.replayed += summ["replayed"]
        self.add_counters(summ.get("counters", {}))
        n_verdicts = 0
        for row in rows:
            if row["r"] == "inconclusive":
                raise vlib.Inconclusive("harness inconclusive: %s" % row)
            if row["r"] == "finding":
                cl = row["clause"]
                self.findings_seen[cl] = self.findings_seen.get(cl, 0) + 1
                if self.findings_seen[cl] > 1:
                    continue
                hist = line_of(path, row["i"])[:row["step"] + 1]
                cfg = note_of(row)
                again = [r for r in self.reproduce(hist, mx, cfg, tag) if r["r"] == "finding" and r["clause"] == cl]
                if not again:
                    raise vlib.Inconclusive("finding did not reproduce: %s" % row)
                rep = {"history": hist, "max": mx, "cfg": cfg, "finding": row, "steps": compact(hist),
                       "cmd": "python3 tools/verif.py replay X01 <this file>"}
                ctx.save_replay(dict(rep, signature=FINDING_SIG[cl]), name="finding-%s.json" % cl)
                ctx.report(FINDING_SIG[cl], FINDING_WHAT[cl] + "; observed: " + row["act"], rep)
                continue
            if row["r"] != "mismatch":
                continue
            if row.get("kind") != "verdict":
                if len(self.drift) < 5:
                    self.drift.append((tag, row))
                continue
            if n_verdicts >= 6:
                continue
            n_verdicts += 1
            hist = line_of(path, row["i"])
            cfg = note_of(row)
            again = [r for r in self.reproduce(hist, mx, cfg, tag) if r["r"] == "mismatch" and r.get("kind") == "verdict"]
            if not again:
                raise vlib.Inconclusive("verdict mismatch did not reproduce: %s" % row)
            step = hist[row["step"]] if 0 <= row["step"] < len(hist) else {}
            sig = "X01 %s at %s" % (row["clause"], step.get("a"))
            ctx.report(sig, "invariant '%s' at step %d (%s): expected %s; real file controller: %s" % (
                row["clause"], row["step"], compact([step])[0] if step else "?", row["exp"], row["act"]),
                {"history": hist[:row["step"] + 1], "max": mx, "cfg": cfg, "mismatch": row,
                 "steps": compact(hist[:row["step"] + 1]), "cmd": "python3 tools/verif.py replay X01 <this file>"})


def probe_repaired(ctx):
    """OpenWriter; Writer.Close; acquireReader(1) with MaxDescriptors = 1: as written the reader parks."""
    r = ctx.tlc(AREA, "FileControllerGen", "probe.cfg", files={"probe.cfg": gen_cfg(consts(1, 1, 2, 2, 1, 1), 3, 0, 0)},
                tag="probe", workers=1, timeout=600)
    want = None
    for h in r.hists():
        if [s["a"] for s in h] == ["open", "closew", "acqr"] and [s["r"] for s in h] == ["ok", "ok", "block"]:
            want = h
            break
    if want is None:
        raise vlib.Inconclusive("probe behaviour not generated")
    hp = ctx.path("probe.ndjson")
    with open(hp, "w") as f:
        f.write(json.dumps(want) + "\n")
    _, rows, _ = replay_file(ctx, hp, 1, "probe", workers=1)
    for row in rows:
        if row["r"] == "mismatch" and row.get("clause") == "blocking" and row["step"] == 2 and "returned a handle" in row.get("act", ""):
            return True
    return False


def run(ctx):
    thorough = ctx.tier == "thorough"
    W6 = 6
    judge = Judge(ctx)
    design = []
    states = trans = 0

    def mc(name, cfgtext, **kw):
        nonlocal states, trans
        r = ctx.tlc(AREA, "FileController", name + ".cfg", files={name + ".cfg": cfgtext}, tag=name, workers=W6,
                    timeout=3000, **kw)
        design.append({"run": name, "distinct": r.distinct, "generated": r.generated, "violated": r.violated,
                       "depth": r.depth, "wall_s": round(r.wall, 1)})
        states += r.distinct
        trans += r.generated
        return r

    # 1. design level
    S7 = " NoBlockWhenAllIdle NoStuckWaiter NoIdleReaderWhilePending"
    if thorough:
        runs = [("mc_asis_m1", consts(1, 2, 3, 4, 1, 1), INVS_SAFE + " AllIdleBlockOnlyStarved"),
                ("mc_asis_m2", consts(2, 2, 3, 3, 2, 2), INVS_SAFE + " AllIdleBlockOnlyStarved"),
                ("mc_fixed_m2", consts(2, 2, 3, 3, 2, 2, fix=True), INVS_SAFE + S7)]
    else:
        runs = [("mc_asis_m1", consts(1, 2, 2, 3, 1, 1), INVS_SAFE + " AllIdleBlockOnlyStarved"),
                ("mc_asis_m2", consts(2, 2, 2, 3, 2, 2), INVS_SAFE + " AllIdleBlockOnlyStarved"),
                ("mc_fixed_m2", consts(2, 2, 2, 3, 2, 2, fix=True), INVS_SAFE + S7)]
    for name, c, invs in runs:
        r = mc(name, mc_cfg(c, invs))
        if r.violated:
            # a design-level counterexample is not a verdict about the code (the replay is)
            ctx.notes.append("design: %s violated in %s" % (r.violated, name))
    # the named deviation must be visible as written (else the spec no longer models the code)
    for name, inv in (("mc_dev_allidle", "NoBlockWhenAllIdle"), ("mc_dev_stuck", "NoStuckWaiter")):
        r = mc(name, mc_cfg(consts(2, 2, 2, 3, 2, 2), inv, props=""), expect_violation=True)
        if r.violated != inv:
            ctx.notes.append("design: Dev_ReaderStarvedByIdleSmallWriter not reachable as written (%s: violated=%s)" % (inv, r.violated))

    # FileControllerConc.tla: the interleaving argument for the window the pool model treats as atomic
    # (garbage collection of a file vs a writer opening it); default holds, each deviation reproduces
    cst, ctr, cruns = _fcconc.design_runs(ctx)
    states += cst
    trans += ctr
    design.extend(cruns)

    # 2. behaviours -> real code
    samples = []
    gens = []
    # Is Dev_ReaderStarvedByIdleSmallWriter repaired in this tree?  One directed behaviour decides which
    # of the two models (as written / FixStarve) the behaviours are generated from.
    repaired = probe_repaired(ctx)
    if repaired:
        ctx.notes.append("tree under test evicts idle writer handles of small files for a blocked reader: "
                         "behaviours generated from the repaired model (FixStarve = TRUE)")

    def gc(*a):  # generator constants follow the probe
        return consts(*a, fix=repaired)

    def gen_and_replay(name, mx, c, depth, prefix, noise=2, simulate=None, simdepth=None):
        kw = {}
        if simulate:
            kw = dict(simulate=simulate, depth=simdepth)
        r = ctx.tlc(AREA, "FileControllerGen", name + ".cfg", files={name + ".cfg": gen_cfg(c, depth, prefix, noise)},
                    tag=name, workers=(2 if simulate else W6), timeout=3000, **kw)
        if r.violated:
            ctx.notes.append("gen %s: design invariant %s violated" % (name, r.violated))
        hp = ctx.path(name + ".ndjson")
        n, first = write_hists(r, hp)
        if n == 0:
            raise vlib.Inconclusive("no histories generated by %s" % name)
        if first and len(samples) < 3 and (prefix or simulate or not samples):
            samples.append(compact(first))
        summ, rows, wall = replay_file(ctx, hp, mx, "rp_" + name, vary=True, workers=W6)
        if summ["replayed"] != n:
            raise vlib.Inconclusive("replayed %s of %s histories" % (summ["replayed"], n))
        gens.append({"gen": name, "max_descriptors": mx, "histories": n, "depth": depth, "prefix": prefix,
                     "simulate": simulate, "tlc_wall_s": round(r.wall, 1), "replay_wall_s": round(wall, 1),
                     "bad": summ["bad"], "goroutines_left": summ.get("goroutines_left")})
        judge.handle(hp, mx, summ, rows, name)
        try:
            os.remove(hp)
        except OSError:
            pass

    if not thorough:
        gen_and_replay("g_m1", 1, gc(1, 2, 3, 4, 1, 1), 5, 0)
        gen_and_replay("g_m2", 2, gc(2, 2, 3, 4, 2, 2), 5, 0)
        gen_and_replay("g_p1", 2, gc(2, 2, 3, 4, 2, 2), 7, 1)
        gen_and_replay("g_p2", 1, gc(1, 2, 3, 4, 1, 1), 7, 2)
        gen_and_replay("g_p3", 2, gc(2, 2, 3, 4, 2, 1), 9, 3)
        gen_and_replay("g_p4", 2, gc(2, 2, 3, 4, 2, 1), 9, 4)
        gen_and_replay("g_p5", 1, gc(1, 2, 3, 4, 1, 1), 8, 5)
        gen_and_replay("g_p6", 2, gc(2, 2, 3, 4, 2, 1), 9, 6)
        exhaustive_n = sum(g["histories"] for g in gens)
        gen_and_replay("s_m3", 3, gc(3, 3, 4, 5, 3, 2), 16, 0, noise=3, simulate="num=250", simdepth=18)
    else:
        gen_and_replay("g_m1", 1, gc(1, 2, 3, 4, 1, 1), 6, 0)
        gen_and_replay("g_m2", 2, gc(2, 2, 3, 4, 2, 2), 6, 0)
        gen_and_replay("g_m3", 3, gc(3, 3, 3, 4, 3, 2), 5, 0)
        gen_and_replay("g_p1", 2, gc(2, 2, 3, 4, 2, 2), 8, 1)
        gen_and_replay("g_p1m1", 1, gc(1, 2, 3, 4, 1, 1), 8, 1)
        gen_and_replay("g_p2", 1, gc(1, 2, 3, 4, 1, 1), 8, 2)
        gen_and_replay("g_p2m2", 2, gc(2, 2, 3, 4, 2, 2), 7, 2)
        gen_and_replay("g_p3", 2, gc(2, 2, 3, 4, 2, 1), 10, 3)
        gen_and_replay("g_p4", 2, gc(2, 2, 3, 4, 2, 1), 10, 4)
        gen_and_replay("g_p5", 1, gc(1, 2, 3, 4, 1, 1), 9, 5)
        gen_and_replay("g_p5m2", 2, gc(2, 2, 3, 4, 2, 1), 8, 5)
        gen_and_replay("g_p6", 2, gc(2, 2, 3, 4, 2, 1), 10, 6)
        exhaustive_n = sum(g["histories"] for g in gens)
        gen_and_replay("s_m3", 3, gc(3, 3, 4, 5, 3, 2), 18, 0, noise=3, simulate="num=1500", simdepth=20)
        gen_and_replay("s_m2", 2, gc(2, 3, 4, 5, 2, 2), 14, 0, noise=2, simulate="num=1500", simdepth=16)
        gen_and_replay("s_m4", 4, gc(4, 3, 4, 5, 3, 2), 20, 0, noise=3, simulate="num=1000", simdepth=22)
    ctx.notes.append("bounded-exhaustive histories: %d; simulated (seeded): %d" % (
        exhaustive_n, sum(g["histories"] for g in gens) - exhaustive_n))

    cnt = judge.counters
    need = ["OpenBlocked", "Woken", "Requeued", "Rollovers", "ReusedIdle", "FromUnopened", "NewFiles", "EvictW", "EvictR",
            "AcqRReuse", "AcqRBlocked", "AcqRLocked", "GcNoopWriter", "GcNoopReaders", "GcNoopThreshold", "GcBegin",
            "GcFinish", "GcStaysOversize", "OpensDuringGc", "Close", "CloseBusy", "Reopen", "AtLimit", "IndexChecks",
            "HandOvers"]
    if repaired:
        need.remove("Requeued")  # with the repair every release lets the head waiter return
    vac = [k for k in need if not cnt.get(k)]
    cov = {
        "states": states, "transitions": trans,
        "traces_validated_against_impl": judge.replayed,
        "samples": samples,
        "exhaustive": True,
        "design_runs": design,
        "generators": gens,
        "mechanisms_exercised": cnt,
        "rule": "every behaviour of FileController.tla (code as written) of the listed depth from the empty pool and after "
                "the listed pool-building prefixes (OpenWriter, Write of 1-2 units, Commit with rollover at 3 units, "
                "Writer.Close, acquireReader / release, gcReaders, gcWriters, garbageCollectFile split at the copy, "
                "DB.Close, reopen; MaxDescriptors 1-2%s; at most 2 blocked calls) replayed into a real domain.DB on a "
                "handle-counting MemFS under 4 unit sizes x {lazy, immediate} index persistence; judged after every "
                "step on the real pool: one holder per file / held handles stay open, hand-over below the nominal size, "
                "rollover exactly at the real cap, keys fresh and counter file current, descriptors within the limit "
                "and equal to the pool's entries, file under compaction held by nobody, nothing open after Close, "
                "index file = in-memory pointers, blocked calls parked / woken exactly as specified" % (
                    ", 3-4 in simulation" if True else ""),
        "notes": ctx.notes,
    }
    if judge.drift:
        d = judge.drift[0]
        if not ctx.violations:
            raise vlib.Inconclusive("DRIFT (spec and code disagree on something the X01 invariants do not state) in %s: %s" % d)
        ctx.notes.append("drift: %s %s" % d)
    if vac and not ctx.violations:
        raise vlib.Inconclusive("vacuity guard: mechanisms never exercised: %s" % vac)
    return ctx.finish("model_checking", cov, [
        "TLC/SANY, Go toolchain, x/io/fs MemFS, Go's FIFO service of channel receivers",
        "calls are issued one at a time; the only concurrency is blocked calls parked on fc.release / fc.readers and "
        "the goroutine a release wakes (steps in which two goroutines would run at once are cut from the enumeration; "
        "the check-then-open overshoot of the descriptor limit documented in RFC 0019 is therefore not exercised)",
        "harness restricts acquireWriter's / newWriter's map-order choice among equally eligible files to the file "
        "the behaviour chose (marks other idle handles busy / takes other keys out of the unopened set for one call)",
        "readers are taken with fc.acquireReader directly (what DB.newReader calls); garbageCollectFile is called per "
        "file with the index persist of DB.GarbageCollect's tail issued by the harness; FS errors are not injected",
    ])


def replay(ctx, path):
    with open(path) as f:
        obj = json.load(f)
    one = ctx.path("one.ndjson")
    with open(one, "w") as f:
        f.write(json.dumps(obj["history"]) + "\n")
    cfg = obj.get("cfg") or {"unit": 4, "persist": False}
    summ, rows, _ = replay_file(ctx, one, obj.get("max", 2), "replay", unit=cfg["unit"], persist=cfg["persist"], workers=1)
    bad = [r for r in rows if r["r"] == "finding" or (r["r"] == "mismatch" and r.get("kind") == "verdict")]
    if bad:
        print("VIOLATION property=X01 replay=%s" % path)
        print("  " + json.dumps(bad[0]))
        return 1
    if rows:
        print("INCONCLUSIVE property=X01: %s" % json.dumps(rows[0]))
        return 2
    print("replay: history passes on the current tree")
    return 0
