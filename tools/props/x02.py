"""X02 (extension check, specification growth) - freighter unary transports + middleware chain.

1. spec/freighter/Unary.tla is model-checked: one Send through K client middlewares, the wire, M
   server middlewares and the handler and back, for mock / http / grpc as written (result,
   nesting order, short-circuit, error flow, param flow, response-with-error only in the named
   as-written cases).
2. spec/freighter/UnaryGen.tla emits every completed call of every configuration (chains,
   behaviours, handler outcomes, transports) as a JSON case with the expected marks and result.
3. harness/freighter/go/zz_verif_unary_test.go builds the real client / server of the case's
   transport with recording middlewares in the real collector and performs the call; the driver
   compares marks (order, error seen, params seen, context fields) and result with the case.
   A mismatch is re-executed; only a reproduced mismatch is reported.
4. Concurrency stage: N callers through ONE client per transport, responses / errors / params
   correlated with the request by payload.
"""
import json
import os
import random
import shutil

import vlib

AREA = "freighter"
HARNESS = ["zz_verif_unary_test.go"]
SVC = "freighter.grpc.v1.TestUnaryService"

INVS = ("TypeOK WellNested Balanced ShortCircuit ErrFlow ParamFlow OutParamFlow ResultSound "
        "ResultExact TransportErr NoRespAndErr")
WITNESSES = ["WitBothNet", "WitShort", "WitCarry", "WitPanic"]
ALL_BEHS = ["pass", "failpre", "failpost", "setp", "setn", "seto"]
CORE_BEHS = ["pass", "failpre", "failpost", "setp"]
OUTCOMES = ["ok", "err", "both", "panic", "nohandler", "unreachable"]
TRANSPORTS = ["mock", "http", "grpc"]

# error kind (harness xuMkErr) -> class the receiver must observe (harness xuClass)
KIND_CLASS = {
    "custom": "custom", "custom_wrapped": "custom", "notfound": "notfound", "notfound_sep": "notfound",
    "unique": "unique", "invalid": "invalid", "query": "query", "validation": "validation",
    "unauthorized": "unauthorized", "unknown": "unknown", "unknown_sep": "unknown_sep",
    "unknown_empty": "unknown_empty", "eof": "eof", "closed": "closed",
    "canceled": "canceled", "deadline": "deadline",
}
# kinds whose class must survive the wire (typed errors registered with x/errors, unregistered
# errors by exact message incl. separators and the empty message)
WIRE_KINDS = ["custom", "custom_wrapped", "notfound", "notfound_sep", "unique", "invalid", "query",
              "validation", "unauthorized", "unknown", "unknown_sep", "unknown_empty", "eof", "closed"]
# context errors have no registered type: on the wire they degrade to their text (not stated by
# X02); they are used for client-side middlewares only, where the error VALUE must come back
LOCAL_KINDS = WIRE_KINDS + ["canceled", "deadline"]


def tla_set(xs):
    return "{" + ", ".join('"%s"' % x for x in xs) + "}"


def cfg_text(maxk, maxm, behs, invs, outcomes=OUTCOMES, transports=TRANSPORTS):
    return """SPECIFICATION Spec
CONSTANTS
  MaxK = %d
  MaxM = %d
  Transports = %s
  Behs = %s
  Outcomes = %s
INVARIANTS %s
CHECK_DEADLOCK FALSE
""" % (maxk, maxm, tla_set(transports), tla_set(behs), tla_set(outcomes), invs)


# ------------------------------------------------------------------ cases -> jobs
def labels_of(case):
    c = case["cfg"]
    ls = []
    if c["h"] in ("err", "both"):
        ls.append("h")
    for side, key in (("c", "cb"), ("s", "sb")):
        for i, b in enumerate(c[key]):
            if b in ("failpre", "failpost"):
                ls.append("%s%d" % (side, i + 1))
    return ls


def make_job(i, case, n, rnd, thorough):
    c = case["cfg"]
    kinds = {}
    used = set()
    for k, lbl in enumerate(labels_of(case)):
        pool = LOCAL_KINDS if lbl.startswith("c") else WIRE_KINDS
        start = (n + 5 * k + rnd.randrange(len(pool))) % len(pool)
        for d in range(len(pool)):
            kind = pool[(start + d) % len(pool)]
            if KIND_CLASS[kind] not in used:
                break
        used.add(KIND_CLASS[kind])
        kinds[lbl] = kind
    sizes = [0, 3, 100, 4096]
    if n % 97 == 0:
        sizes = [65536, (1 << 20) if thorough else 200000]
    return {
        "i": i, "tr": c["tr"], "codec": ["json", "msgpack", "mixed", ""][n % 4], "internal": n % 2 == 0,
        "K": c["K"], "M": c["M"], "cb": c["cb"], "sb": c["sb"], "h": c["h"], "rec": c["rec"],
        "kinds": kinds, "id": 1 + (n % 90000), "size": sizes[rnd.randrange(len(sizes))],
    }


def run_jobs(ctx, jobs, tag, workers=6):
    jp = ctx.path("jobs_%s.ndjson" % tag)
    op = ctx.path("out_%s.ndjson" % tag)
    with open(jp, "w") as f:
        for j in jobs:
            f.write(json.dumps(j, separators=(",", ":")) + "\n")
    env = {"VERIF_IN": jp, "VERIF_OUT": op, "VERIF_WORKERS": workers}
    rc, text, wall = ctx.go_test("freighter/go", "./", HARNESS, "^TestVerifUnaryCases$",
                                 env=env, tag="go_" + tag, timeout=1500)
    rows = ctx.read_ndjson(op)
    if os.environ.get("VERIF_KEEP"):      # debugging aid: keep the harness input / output
        os.makedirs("/tmp/x02keep", exist_ok=True)
        shutil.copy(jp, "/tmp/x02keep/"), shutil.copy(op, "/tmp/x02keep/")
    if rc != 0 or len(rows) != len(jobs):
        raise vlib.Inconclusive("unary harness failed rc=%s rows=%d/%d:\n%s" % (rc, len(rows), len(jobs), text[-2500:]))
    return {r["i"]: r for r in rows}, wall


# ------------------------------------------------------------------ comparison
def origin_words(lbl):
    if lbl == "none":
        return "no error"
    if lbl == "h":
        return "the handler's error"
    if lbl == "transport":
        return "a transport error"
    if lbl == "panic":
        return "the recovered panic (recovery.ErrPanic)"
    if lbl == "panicked":
        return "a panic unwinding into the caller"
    return "the error of a %s middleware" % ("client" if lbl.startswith("c") else "server")


def exp_class(lbl, job):
    if lbl == "none":
        return "nil"
    if lbl == "transport":
        return "other"
    if lbl in ("panic", "panicked"):
        return lbl
    return KIND_CLASS[job["kinds"][lbl]]


def got_words(cls, txt=""):
    if cls == "nil":
        return "nil"
    if cls == "panic":
        return "the recovered panic"
    if cls == "panicked":
        return "a panic"
    if cls == "other" and "decode" in (txt or ""):
        return "a decode failure"
    return "a different error"


def kinded(sig, kind):
    """Signature with the error kind appended (used when a disagreement is specific to few kinds)."""
    return sig + ((" (kind %s)" % kind) if kind else "")


def target_kind(t, row):
    addr = row.get("addr", "")
    if t == "":
        return "empty"
    if t == addr:
        return "addr"
    if t == addr + "." + SVC:
        return "addr.svc"
    if t == SVC:
        return "svc"
    if row.get("path") and t == row["path"]:
        return "path"
    return "other:" + t


def param_words(pid):
    if pid.startswith("o"):
        return "returned-context param set by a %s middleware" % ("client" if pid[1] == "c" else "server")
    return "%s param set by a %s middleware" % ("string" if pid.endswith("s") else "non-string",
                                                "client" if pid[0] == "c" else "server")


def _compare(case, job, row):
    tr = job["tr"]
    exp = case["trace"]
    got = row["marks"]
    ctxs = case["ctxs"]
    for n in range(max(len(exp), len(got))):
        if n >= len(got):
            e = exp[n]
            return ("X02 %s missing mark: %s %s" % (tr, e["m"], e["side"]),
                    "expected mark %d %s(%s%d) was never recorded" % (n, e["m"], e["side"], e["i"]))
        g = got[n]
        if n >= len(exp):
            return ("X02 %s unexpected mark: %s %s" % (tr, g["m"], g["side"]),
                    "mark %d %s(%s%d) recorded after the expected sequence ended" % (n, g["m"], g["side"], g["i"]))
        e = exp[n]
        if (e["m"], e["side"]) != (g["m"], g["side"]) or e["i"] != g["i"]:
            same = (e["m"], e["side"]) == (g["m"], g["side"])
            return ("X02 %s mark order: expected %s %s got %s %s%s" % (
                tr, e["m"], e["side"], g["m"], g["side"], " at another position" if same else ""),
                "mark %d: expected %s(%s%d), recorded %s(%s%d)" % (n, e["m"], e["side"], e["i"], g["m"], g["side"], g["i"]))
        if e["m"] == "handler" and g.get("req") != "ok":
            return ("X02 %s handler received a corrupt request" % tr, "request id/message/fields differ from what was sent")
        if e["m"] == "exit":
            ec = exp_class(e["err"], job)
            if g["err"] != ec:
                kind = job["kinds"].get(e["err"], "")
                first_after_wire = e["side"] == "c" and e["i"] == job["K"] and not e["err"].startswith("c")
                if first_after_wire:
                    sig = "X02 %s error received from the server: expected %s, got %s" % (
                        tr, origin_words(e["err"]), got_words(g["err"], g.get("txt")))
                else:
                    sig = "X02 %s %s middleware saw %s where next returned %s" % (
                        tr, "client" if e["side"] == "c" else "server", got_words(g["err"], g.get("txt")), origin_words(e["err"]))
                return (sig, kind,
                        "exit(%s%d): expected class %s, got class %s [%s]" % (e["side"], e["i"], ec, g["err"], g.get("txt", "")))
            if e["err"].startswith("c") and g.get("ident") != e["err"]:
                return ("X02 %s client-side error value replaced on the way back" % tr,
                        "exit(%s%d): the error of %s came back as another value [%s]" % (e["side"], e["i"], e["err"], g.get("txt", "")))
        ep, gp = set(e["p"]), set(g["p"])
        if ep != gp:
            miss, extra = sorted(ep - gp), sorted(gp - ep)
            pid = (miss or extra)[0]
            bad = pid.endswith("!bad")
            word = "wrong value of" if bad else ("missing" if miss else "unexpected")
            return ("X02 %s params at %s %s: %s %s" % (tr, e["m"], e["side"], word, param_words(pid.replace("!bad", ""))),
                    "%s(%s%d): expected params %s, visible %s" % (e["m"], e["side"], e["i"], sorted(ep), sorted(gp)))
        if e["ctx"] in ctxs:
            want = ctxs[e["ctx"]]
            have = {"role": g["role"], "variant": g["variant"], "proto": g["proto"], "target": target_kind(g["target"], row)}
            for fld in ("role", "variant", "proto", "target"):
                if want[fld] != have[fld]:
                    return ("X02 %s context %s at %s: expected %r got %r" % (tr, fld, e["ctx"], want[fld], str(have[fld]).split(":")[0]),
                            "%s(%s%d): context %s = %r (target %r), the code sets %r" % (
                                e["m"], e["side"], e["i"], fld, have[fld], g["target"], want[fld]))
    er = case["result"]
    ec = exp_class(er["err"], job)
    if row["resp"] != er["resp"] or row["err"] != ec:
        kind = job["kinds"].get(er["err"], "")
        detail = "Send returned resp=%s err class=%s [%s]; expected resp=%s err class=%s" % (
            row["resp"], row["err"], row.get("txt", ""), er["resp"], ec)
        if row["resp"] == er["resp"] and job["K"] == 0 and not er["err"].startswith("c"):
            return ("X02 %s error received from the server: expected %s, got %s" % (
                tr, origin_words(er["err"]), got_words(row["err"], row.get("txt"))), kind, detail)
        return ("X02 %s result: expected response=%s with %s, got response=%s with %s" % (
            tr, er["resp"], origin_words(er["err"]), row["resp"],
            got_words(row["err"], row.get("txt")) if row["err"] != ec else "that error"), kind, detail)
    if er["err"].startswith("c") and row.get("ident") != er["err"]:
        return ("X02 %s client-side error value replaced on the way back" % tr,
                "Send: the error of %s came back as another value [%s]" % (er["err"], row.get("txt", "")))
    return None


def compare(case, job, row):
    """First disagreement between the real run and the case: (signature, error kind or "", detail) or None."""
    d = _compare(case, job, row)
    if d is None:
        return None
    return d if len(d) == 3 else (d[0], "", d[1])


def variant_of(job):
    if job["tr"] == "http":
        return "client codec %s" % (job["codec"] or "default")
    if job["tr"] == "grpc":
        return "server Internal=%s" % job["internal"]
    return ""


def describe_case(case, job):
    c = case["cfg"]
    return "%s K=%d %s M=%d %s handler=%s%s kinds=%s%s" % (
        c["tr"], c["K"], c["cb"], c["M"], c["sb"], c["h"], "" if c["rec"] else " (no recovery middleware)",
        job["kinds"], (" codec=%s" % job["codec"]) if c["tr"] == "http" else
        (" internal=%s" % job["internal"]) if c["tr"] == "grpc" else "")


def check_rows(cases, jobs, by):
    bad, mism = [], []
    for case, job in zip(cases, jobs):
        row = by[job["i"]]
        if row["status"] != "ok":
            bad.append((case, job, row))
            continue
        d = compare(case, job, row)
        if d:
            mism.append((case, job, row, d))
    return bad, mism


def confirm_and_report(ctx, mism, tag):
    """Re-execute (3 copies) one case per signature; report when the disagreement reproduces."""
    base = {}
    for case, job, row, d in mism:
        base.setdefault(d[0], []).append((case, job, row, d))
    seen = {}
    for sig0, items0 in base.items():
        # a disagreement confined to one client codec configuration (http) / one Internal setting
        # (grpc) says so in its signature
        tr = items0[0][1]["tr"]
        var = sorted(set(variant_of(it[1]) for it in items0))
        sig = sig0 + ((" [%s]" % var[0]) if len(var) == 1 and tr != "mock" and len(items0) >= 4 else "")
        kinds = sorted(set(it[3][1] for it in items0))
        if len(kinds) <= 2 and kinds != [""]:
            # specific to one or two error kinds: the kind is part of the signature
            for it in items0:
                seen.setdefault(kinded(sig, it[3][1]), []).append(it)
        else:
            seen[sig] = items0
    n = 0
    flaky = []
    for sig, items in seen.items():
        n += 1
        if n > 10:
            break
        # minimal reproduction: the shortest chain among the hits
        case, job, row, d = min(items, key=lambda x: (x[0]["cfg"]["K"] + x[0]["cfg"]["M"], len(x[1]["kinds"])))
        copies = [dict(job, i=k) for k in range(3)]
        by, _ = run_jobs(ctx, copies, "%s_re%d" % (tag, n), workers=2)
        again = 0
        for cj in copies:
            r2 = by[cj["i"]]
            if r2["status"] == "ok":
                d2 = compare(case, cj, r2)
                if d2 and d2[0] == d[0]:
                    again += 1
        if again == 0:
            flaky.append("%s | %s" % (sig, describe_case(case, job)))
            continue
        ctx.report(sig, "%s: %s (%d cases of this run, reproduced %d/3)" % (describe_case(case, job), d[2], len(items), again),
                   {"case": case, "job": job, "row": row, "detail": d[2], "hits": len(items),
                    "cmd": "python3 tools/verif.py replay X02 <this file>"})
    if flaky:
        ctx.notes.append("disagreements that did not reproduce: %s" % flaky[:3])
        if not ctx.violations and not ctx.known_hits:
            raise vlib.Inconclusive("disagreement did not reproduce: %s" % flaky[0])


# ------------------------------------------------------------------ concurrency stage
def run_conc(ctx, thorough, tag="conc"):
    n, rounds = (48, 40) if thorough else (32, 12)
    jobs = []
    for tr, codec in (("mock", ""), ("http", "json"), ("http", "msgpack"), ("grpc", "internal"), ("grpc", "")):
        # in-memory calls are cheap: many more of them
        jobs.append({"tr": tr, "codec": codec, "n": n, "rounds": rounds * (50 if tr == "mock" else 1), "seed": ctx.seed})
    jp, op = ctx.path("%s_jobs.ndjson" % tag), ctx.path("%s_out.ndjson" % tag)
    with open(jp, "w") as f:
        for j in jobs:
            f.write(json.dumps(j) + "\n")
    rc, text, wall = ctx.go_test("freighter/go", "./", HARNESS, "^TestVerifUnaryConcurrent$",
                                 env={"VERIF_IN": jp, "VERIF_OUT": op}, tag="go_" + tag, timeout=900)
    rows = ctx.read_ndjson(op)
    if len(rows) < len(jobs) and "fatal error: concurrent map" in text:
        # the Go runtime killed the process while the callers of jobs[len(rows)] were running: rows
        # are written as each transport finishes
        j = jobs[len(rows)]
        rows.append({"tr": j["tr"], "codec": j["codec"], "status": "died", "calls": 0, "ok": 0, "errs": 0, "max_in_flight": 0,
                     "mismatches": ["process died: fatal error: concurrent map access while %d callers used one client" % j["n"]]})
        while len(rows) < len(jobs):
            j = jobs[len(rows)]
            rows.append({"tr": j["tr"], "codec": j["codec"], "status": "not run", "calls": 0, "ok": 0, "errs": 0,
                         "max_in_flight": 9, "mismatches": []})
        return jobs, rows, wall
    if rc != 0 or len(rows) != len(jobs):
        raise vlib.Inconclusive("concurrency harness failed rc=%s rows=%d/%d:\n%s" % (rc, len(rows), len(jobs), text[-2000:]))
    return jobs, rows, wall


def conc_sig(tr, text):
    if "process died" in text:
        what = "the process dies (concurrent map access)"
    elif "param" in text:
        what = "a call saw the params of another call"
    elif "response of another call" in text:
        what = "a call received the response of another call"
    elif "expected its own" in text:
        what = "a call received the error of another call (or none)"
    elif "unexpected error" in text:
        what = "a call failed unexpectedly"
    else:
        what = "caller failure"
    return "X02 %s concurrent calls through one client: %s" % (tr, what)


# ------------------------------------------------------------------ main
def run(ctx):
    thorough = ctx.tier == "thorough"
    rnd = random.Random(ctx.seed)
    states = trans = 0
    design = []
    # 1. design check
    mcs = [(2, 2, ALL_BEHS)]
    if thorough:
        mcs += [(3, 3, CORE_BEHS), (3, 2, ALL_BEHS)]
    for n, (mk, mm, behs) in enumerate(mcs):
        name = "mc%d.cfg" % n
        r = ctx.tlc(AREA, "Unary", name, files={name: cfg_text(mk, mm, behs, INVS)}, tag="mc%d" % n,
                    workers=6, timeout=900, coverage=(n == 0))
        if r.violated:
            raise vlib.Inconclusive("design spec violates %s (MaxK=%d MaxM=%d): specification error, not a verdict" % (r.violated, mk, mm))
        if n == 0 and r.coverage_zero:
            ctx.notes.append("coverage: never-enabled %s" % sorted(set(r.coverage_zero))[:6])
        states += r.distinct
        trans += r.generated
        design.append({"MaxK": mk, "MaxM": mm, "behaviours": behs, "distinct": r.distinct, "generated": r.generated,
                       "wall_s": round(r.wall, 1)})
    for wit in WITNESSES:
        r = ctx.tlc(AREA, "Unary", "wit.cfg", files={"wit.cfg": cfg_text(2, 1, ALL_BEHS, wit)}, tag="wit_" + wit,
                    workers=4, timeout=600, expect_violation=True)
        if r.violated != wit:
            raise vlib.Inconclusive("vacuity witness %s not reachable (violated=%s)" % (wit, r.violated))

    # 2. cases
    plan = [(2, 2, ALL_BEHS, None)] if not thorough else [(2, 2, ALL_BEHS, None), (3, 3, CORE_BEHS, None), (3, 2, ALL_BEHS, None),
                                                          (2, 3, ALL_BEHS, None)]
    cases, gen_info, seen = [], [], set()
    for n, (mk, mm, behs, limit) in enumerate(plan):
        name = "gen%d.cfg" % n
        r = ctx.tlc(AREA, "UnaryGen", name, files={name: cfg_text(mk, mm, behs, "Emit")}, tag="gen%d" % n,
                    workers=6, timeout=1200)
        got = []
        for h in r.hists():
            key = json.dumps(h["cfg"], sort_keys=True)
            if key in seen:
                continue
            seen.add(key)
            got.append(h)
        # TLC's workers print in a nondeterministic order: canonical order, so that a seed
        # determines the kinds / codecs / payloads of every case
        got.sort(key=lambda h: json.dumps(h["cfg"], sort_keys=True))
        total = len(got)
        if total == 0:
            raise vlib.Inconclusive("no cases generated (gen%d)" % n)
        if limit and total > limit:
            got = vlib.sample(got, limit, ctx.seed + n)
        states += r.distinct
        trans += r.generated
        gen_info.append({"MaxK": mk, "MaxM": mm, "behaviours": behs, "new_cases": total, "used": len(got),
                         "exhaustive": len(got) == total, "tlc_wall_s": round(r.wall, 1)})
        cases += got
    off = rnd.randrange(1000)
    jobs = [make_job(i, c, i + off, rnd, thorough) for i, c in enumerate(cases)]

    # 3. execute on the real transports and compare
    by, wall = run_jobs(ctx, jobs, "main")
    bad, mism = check_rows(cases, jobs, by)
    if mism:
        hist = {}
        for _, _, _, d in mism:
            hist[d[0]] = hist.get(d[0], 0) + 1
        ctx.notes.append("disagreements: %s" % sorted(hist.items(), key=lambda kv: -kv[1])[:12])
        confirm_and_report(ctx, mism, "main")
    if bad and not ctx.violations and not ctx.known_hits:
        c, j, row = bad[0]
        raise vlib.Inconclusive("%d of %d cases did not complete (first: %s: %s %s)" % (
            len(bad), len(jobs), describe_case(c, j), row["status"], row.get("note")))

    # 4. concurrency stage
    cjobs, crows, cwall = run_conc(ctx, thorough)
    conc_ev = []
    for j, row in zip(cjobs, crows):
        conc_ev.append({k: row.get(k) for k in ("tr", "codec", "status", "calls", "ok", "errs", "max_in_flight")})
        if row["status"] == "not run":
            continue
        if row["status"] != "ok" and not row["mismatches"]:
            raise vlib.Inconclusive("concurrency stage %s: %s %s" % (row["tr"], row["status"], row.get("note")))
        if row["mismatches"]:
            # reproduce once more before reporting
            _, rows2, _ = run_conc(ctx, thorough, tag="conc_re")
            again = [r for r in rows2 if r["tr"] == row["tr"] and r["codec"] == row["codec"] and r["mismatches"]]
            if not again:
                raise vlib.Inconclusive("concurrency mismatch did not reproduce: %s %s" % (row["tr"], row["mismatches"][0]))
            ctx.report(conc_sig(row["tr"], row["mismatches"][0]),
                       "%s (%s): %d callers x %d calls through one client: %s" % (
                           row["tr"], row["codec"], j["n"], j["rounds"], "; ".join(row["mismatches"][:3])),
                       {"conc": j, "row": row, "kind": "concurrency"})
        elif row["max_in_flight"] < 2:
            ctx.notes.append("concurrency stage %s: handler never overlapped" % row["tr"])

    # vacuity of the binding: the mechanisms the invariants talk about were exercised on every transport
    mech = {}

    def bump(tr, key):
        mech["%s:%s" % (tr, key)] = mech.get("%s:%s" % (tr, key), 0) + 1

    pnil = {}
    for case, job in zip(cases, jobs):
        c, tr = case["cfg"], case["cfg"]["tr"]
        bump(tr, "outcome=" + c["h"])
        le = case["result"]["err"]
        bump(tr, "result=%s+%s" % (case["result"]["resp"], le if le in ("none", "h", "transport", "panic", "panicked") else le[0] + "mw"))
        if any(b == "failpre" for b in c["cb"]):
            bump(tr, "client short-circuit")
        if any(b == "failpre" for b in c["sb"]) and any(m["m"] == "enter" and m["side"] == "s" for m in case["trace"]):
            bump(tr, "server short-circuit")
        for m in case["trace"]:
            if m["side"] == "s" and any(p.startswith("c") for p in m["p"]) and m["m"] != "exit":
                bump(tr, "client param visible on server")
                break
        for m in case["trace"]:
            if m["side"] == "c" and m["m"] == "exit" and any(p.startswith("os") for p in m["p"]):
                bump(tr, "server returned-param visible on client")
                break
        if case["result"]["resp"] == "r" and case["result"]["err"] != "none":
            bump(tr, "response together with error (as written)")
        for lbl, k in job["kinds"].items():
            if not lbl.startswith("c"):
                bump(tr, "wire kind " + k)
        row = by[job["i"]]
        if row["status"] == "ok" and row["marks"] and row["marks"][0]["m"] == "enter" and row["marks"][0]["side"] == "c":
            pnil.setdefault(tr, set()).add(row["marks"][0]["pnil"])
    need = []
    for tr in TRANSPORTS:
        for key in ["outcome=" + o for o in OUTCOMES] + ["client short-circuit", "server short-circuit",
                                                         "client param visible on server"] + ["wire kind " + k for k in WIRE_KINDS]:
            if mech.get("%s:%s" % (tr, key), 0) == 0 and not (tr != "mock" and False):
                need.append("%s:%s" % (tr, key))
    if need and not ctx.violations:
        raise vlib.Inconclusive("mechanisms never exercised: %s" % need[:8])

    per_tr = {tr: sum(1 for j in jobs if j["tr"] == tr) for tr in TRANSPORTS}
    samples = []
    for case in vlib.sample(cases, 2, ctx.seed):
        samples.append({"cfg": case["cfg"], "marks": ["%s(%s%d)%s" % (m["m"], m["side"], m["i"],
                                                                       ("<-" + m["err"]) if m["m"] == "exit" else "") for m in case["trace"]],
                        "result": case["result"]})
    cov = {
        "states": states, "transitions": trans,
        "traces_validated_against_impl": len(jobs) - len(bad) - len(mism),
        "cases_executed": len(jobs), "cases_per_transport": per_tr,
        "cases_disagreeing": len(mism), "cases_not_completed": len(bad),
        "samples": samples,
        "exhaustive": all(g["exhaustive"] for g in gen_info),
        "design_runs": design, "generators": gen_info,
        "transports": ["mock (network)", "http (fiber, loopback; json / msgpack / mixed / default negotiation)",
                       "grpc (loopback; Internal true / false)"],
        "error_kinds_on_the_wire": WIRE_KINDS,
        "mechanisms": {k: v for k, v in sorted(mech.items())},
        "client_request_params_nil_at_first_middleware": {tr: sorted(v) for tr, v in pnil.items()},
        "concurrency": conc_ev,
        "harness_wall_s": round(wall, 1), "concurrency_wall_s": round(cwall, 1),
        "rule": "every generated case is executed on its transport with recording middlewares in the real collector; "
                "the recorded marks (order, error class seen, verif params seen, context fields) and the result of Send "
                "must equal the case's trace and result",
        "notes": ctx.notes,
    }
    return ctx.finish("model_checking", cov, [
        "TLC/SANY 1.8.0; loopback TCP; fiber and grpc-go as vendored by freighter/go",
        "errors are compared by class (errors.Is per registered kind; exact text for unregistered kinds), client-side "
        "errors by value; params by key (case-insensitive) and value",
        "a panic without the recovery middleware is executed on mock only (on http / grpc it kills the server process)",
        "a middleware that fails before calling next returns the context it was given (as core/pkg/api/auth does)",
    ])


def replay(ctx, path):
    with open(path) as f:
        obj = json.load(f)
    if obj.get("kind") == "concurrency":
        _, rows, _ = run_conc(ctx, ctx.tier == "thorough", tag="replay")
        badrows = [r for r in rows if r["mismatches"]]
        shutil.rmtree(ctx.build, ignore_errors=True)
        if badrows:
            print("VIOLATION property=X02 replay=%s" % path)
            print("  %s: %s" % (badrows[0]["tr"], badrows[0]["mismatches"][0]))
            return 1
        print("replay: concurrency stage passes on the current tree")
        return 0
    case, job = obj["case"], obj["job"]
    copies = [dict(job, i=k) for k in range(3)]
    by, _ = run_jobs(ctx, copies, "replay", workers=2)
    res = None
    for cj in copies:
        row = by[cj["i"]]
        if row["status"] != "ok":
            raise vlib.Inconclusive("case did not complete: %s" % row.get("note"))
        res = res or compare(case, cj, row)
    shutil.rmtree(ctx.build, ignore_errors=True)
    if res:
        print("VIOLATION property=X02 replay=%s" % path)
        print("  %s: %s" % (describe_case(case, job), res[2]))
        return 1
    print("replay: case passes on the current tree (3 executions)")
    return 0
