"""C01 - cesium reads return exactly the committed samples (DESIGN.md section 3, C01)."""
import json
import os

import vlib
import _cesium as C


def run(ctx):
    return run_store(ctx, "C01", deletes=False)


def run_store(ctx, pid, deletes):
    thorough = ctx.tier == "thorough"
    what = "C01 read" if not deletes else "C04 delete/GC"
    states = trans = 0
    design = []
    # 1. exhaustive design check of the abstract store
    if deletes:
        cfgs = [("SpecD", 2, 1, 2, 2)] if not thorough else [("SpecD", 3, 1, 2, 2)]
    else:
        cfgs = [("SpecW", 2, 2, 2, 3)] if not thorough else [("SpecW", 3, 2, 2, 3)]
    for spec, T, nw, ml, mi in cfgs:
        r = ctx.tlc(C.AREA, "CesiumStoreMC", "mc.cfg", files={"mc.cfg": C.mc_cfg(spec, T, nw, ml, mi, props=deletes)},
                    tag="mc_" + spec, timeout=3000, workers=8)
        if r.violated:
            ctx.notes.append("design: %s violated in %s" % (r.violated, spec))
        states += r.distinct
        trans += r.generated
        design.append({"spec": spec, "T": T, "distinct": r.distinct, "generated": r.generated,
                       "violated": r.violated, "wall_s": round(r.wall, 1)})
    total = 0
    samples = []
    stats = {}
    diverged = 0
    runs = []
    # 2. bounded-exhaustive behaviours (small constants)
    bfs_depth = (5 if deletes else 4) if not thorough else (6 if deletes else 5)
    runs.append(("bfs", dict(spec="GSpecBFS", T=2, depth=bfs_depth, maxlen=2, maxid=3, writers=1, inv="Emit",
                             chansets='{{"I"}, {"I","D","V"}, {"D"}}', deletes=deletes), None, 1, False))
    if deletes:
        # 2b. session-granular bounded-exhaustive behaviours: every script of 4 (thorough: 5) macro
        # steps, a macro step being a writer session (open on the first sample; write; close), a
        # delete, a GC pass or a reopen
        runs.append(("sess", dict(spec="GSpecSess", T=2, depth=(5 if thorough else 4), maxlen=3, maxid=4, writers=1, inv="EmitSess",
                                  chansets='{{"I","D","V"}}', deletes=True), None, 1, False))
    # 3. long random behaviours (simulation), several concretisations each
    scale = int(os.environ.get("VERIF_SCALE", "1"))   # experiments only: multiplies the simulated histories
    n_sim = (14 if not thorough else 150) * scale
    runs.append(("sim", dict(spec="GSpecSim", T=4, depth=16, deletes=deletes), "num=%d" % n_sim, 2 if not thorough else 3, False))
    # scenario plans (kinds of steps prescribed, arguments random): rewrite-after-delete, two sessions,
    # data-only writers, explicit commits
    for plan in (1, 2, 3, 4, 5, 8):
        runs.append(("plan%d" % plan, dict(spec="GSpecSim", T=4, depth=16, deletes=deletes, plan=plan),
                     "num=%d" % ((5 if not thorough else 60) * scale), 2 if not thorough else 3, False))
    # one session of many one-sample commits, replayed with a 1-byte data type and a tiny file cap:
    # the index channel rolls over at every commit, ONE data domain spans 4-5 contiguous index domains
    runs.append(("dense", dict(spec="GSpecSim", T=4, depth=12, deletes=deletes, plan=6, maxlen=1, chansets='{{"I","D","V"}}'),
                 "num=%d" % ((2 if not thorough else 10) * scale), 1, False))
    if not deletes:
        runs.append(("early", dict(spec="GSpecSim", T=4, depth=12, deletes=False, early=True), "num=%d" % max(10, n_sim // 3), 2, True))
    for tag, kw, sim, nconc, early in runs:
        T = kw["T"]
        cfg = C.gen_cfg(**kw)
        if sim:
            r = ctx.tlc(C.AREA, "CesiumStoreGen", "g.cfg", files={"g.cfg": cfg}, simulate=sim, depth=kw["depth"] + 2,
                        workers=6, tag="gen_" + tag, timeout=1500)
        else:
            r = ctx.tlc(C.AREA, "CesiumStoreGen", "g.cfg", files={"g.cfg": cfg}, tag="gen_" + tag, timeout=1500, workers=8)
            states += r.distinct
            trans += r.generated
        hp = ctx.path("h_%s.ndjson" % tag)
        lim = None
        if not sim:
            lim = (60000 if thorough else 12000) if tag == "bfs" else None
        n, smp = C.write_hists(r, hp, limit=lim, seed=ctx.seed)
        if n == 0:
            raise vlib.Inconclusive("no histories generated (%s)" % tag)
        samples += smp[:1]
        forced = None
        if tag == "dense":
            forced = {"tsmap": ctx.seed % 3, "dtype": 2, "vtype": ctx.seed % 3, "filecap": 5, "persist": ctx.seed % 2, "gcthresh": 0,
                      "iter": 0, "noempty": False}
        summ, bad = C.replay_store(ctx, hp, T, "rp_" + tag, nconc=nconc, conc=forced, full=("tail" if tag == "sess" else True))
        total += summ["replays"]
        for k, v in summ.items():
            if isinstance(v, int) and k not in ("summary",):
                stats[k] = stats.get(k, 0) + v
        if summ.get("drift_sample"):
            ctx.notes.append("domain drift (informational): " + summ["drift_sample"])
        diverged += C.judge(ctx, pid, hp, bad, T, what)
    if diverged and not ctx.violations:
        raise vlib.Inconclusive("%d replayed scripts diverged from the model's outcome classes (model drift): %s" % (
            diverged, "; ".join(ctx.notes[-3:])))
    # vacuity guards
    if stats.get("reads", 0) == 0 or (deletes and (stats.get("deletes", 0) == 0 or stats.get("gc_shrunk", 0) == 0)):
        raise vlib.Inconclusive("vacuous run: %s" % stats)
    cov = {
        "states": states, "transitions": trans,
        "traces_validated_against_impl": total,
        "samples": samples,
        "exhaustive": False,
        "bfs_histories_sampled_to": (60000 if thorough else 12000),
        "design_runs": design,
        "harness_stats": stats,
        "rule": "TLC behaviours of CesiumStore.tla (bounded-exhaustive to depth %d over T=2; for C04 also every script of writer "
                "sessions (open; write; close), deletes, GC passes and reopens of 4 macro steps (thorough: 5) over T=2; plus simulated scripts of 16 steps "
                "over T=4, 2 writers) replayed into a real cesium.DB on MemFS under several concretisations (3 timestamp maps, "
                "4 fixed + 3 variable data types, 5 file-size caps forcing rollover, lazy/immediate index persistence, GC "
                "thresholds); after EVERY step every channel is read over EVERY half-open range of abstract times and "
                "compared with the spec's committed samples" % bfs_depth,
        "notes": ctx.notes[:20],
    }
    return ctx.finish("model_checking", cov, [
        "reads go through DB.Read (SeekFirst + Next(max span)); chunked traversal is C10's subject",
        "writers start exactly on their first sample except in the EarlyStart runs",
        "at most one open writer per channel (control hand-over is C05's subject)",
    ])


def replay(ctx, path):
    with open(path) as f:
        obj = json.load(f)
    one = ctx.path("one.ndjson")
    with open(one, "w") as f:
        f.write(json.dumps(obj["history"]) + "\n")
    summ, bad = C.replay_store(ctx, one, obj.get("T", 4), "replay", conc=obj.get("conc"))
    if bad:
        print("VIOLATION property=%s replay=%s" % (ctx.pid, path))
        print("  " + json.dumps(bad[0])[:600])
        return 1
    print("replay: history passes on the current tree")
    return 0
