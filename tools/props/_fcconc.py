"""FileControllerConc.tla (spec/domain): design-level concurrent model of garbage collection vs a
writer opening the same data file.  Shared by X01 (design stage) and C09 (design_stage).

design_runs(ctx): the repaired / default design must hold (exhaustive) else Inconclusive; each named
deviation alone must reproduce a violation of the pointer invariant else Inconclusive ('vacuous
model'); two reachability witnesses (the pass compacts; a writer writes the compacted file) must be
reachable else Inconclusive.  Returns (distinct, generated, runs) for the evidence's design_runs."""
import vlib

AREA = "domain"
MODULE = "FileControllerConc"
INVS = "TypeOK PointersAddressOwnBytes NoStaleWriterHandle NotInBoth"
POINTER_INV = "PointersAddressOwnBytes"

CFG = """SPECIFICATION Spec
CONSTANTS
  Writers = {%s}
  MaxWrites = %d
  FileSize = 8
  Thr = 1
  MaxReopen = %d
  Dev_PrepareNoRecheck = %s
  Dev_ReopenOutsideLock = %s
INVARIANTS %s
CHECK_DEADLOCK FALSE
"""

DEVIATIONS = (("prepare-no-recheck", (True, False)), ("reopen-outside-lock", (False, True)))


def _b(x):
    return "TRUE" if x else "FALSE"


def design_runs(ctx, workers=2):
    thorough = ctx.tier == "thorough"
    writers = '"w1", "w2", "w3"' if thorough else '"w1", "w2"'
    reopen = 2 if thorough else 1
    runs = []
    st = tr = 0

    def tlc(tag, w, devs, invs, **kw):
        cfg = CFG % (w, 2, reopen, _b(devs[0]), _b(devs[1]), invs)
        return ctx.tlc(AREA, MODULE, "fcc_%s.cfg" % tag, files={"fcc_%s.cfg" % tag: cfg}, tag="fcc_" + tag,
                       workers=kw.pop("workers", 1), timeout=600, **kw)

    m = tlc("default", writers, (False, False), INVS, workers=workers)
    if m.violated or m.error:
        raise vlib.Inconclusive("%s.tla (default design) violates %s" % (MODULE, m.violated or m.error))
    st += m.distinct
    tr += m.generated
    runs.append({"run": "fcconc_default", "distinct": m.distinct, "generated": m.generated, "violated": None,
                 "depth": m.depth, "wall_s": round(m.wall, 1)})
    for name, devs in DEVIATIONS:
        r = tlc(name.replace("-", "_"), '"w1"', devs, POINTER_INV, expect_violation=True)
        if r.violated != POINTER_INV:
            raise vlib.Inconclusive("%s.tla: deviation %s no longer reproduces a violation of %s (vacuous model): %s" % (
                MODULE, name, POINTER_INV, r.violated or r.error))
        runs.append({"run": "fcconc_dev_" + name, "violated": r.violated, "expected": POINTER_INV,
                     "distinct": r.distinct, "generated": r.generated, "wall_s": round(r.wall, 1)})
    for wit in ("CompactionReachable", "WriteAfterCompactionReachable"):
        r = tlc(wit.lower(), writers, (False, False), wit, expect_violation=True)
        if r.violated != wit:
            raise vlib.Inconclusive("%s.tla: witness %s not reachable in the default design (vacuous model)" % (MODULE, wit))
        runs.append({"run": "fcconc_witness_" + wit, "reached": True, "wall_s": round(r.wall, 1)})
    return st, tr, runs
