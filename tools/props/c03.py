"""C03 - cesium never stores overlapping data; conflicting writes fail cleanly
(DESIGN.md section 3, C03).

 1. TimeRange.tla (transcription of x/go/telem/time_range.go) is checked by TLC against
    the set-theoretic definition for every pair of ranges over 0..N; the same pairs are
    replayed into the real telem.TimeRange methods.
 2. DomainIndex.tla (cesium/internal/domain, code as written) is model checked:
    invariants Sorted / NonOverlapping / WithinFile, the conflict rules and
    FailedOpsChangeNothing; IndexSearchMC proves that the binary search and the insert
    fast paths compute the overlap relation on every sorted, disjoint index.
 3. DomainIndexGen.tla emits bounded-exhaustive (and, thorough, simulated) histories;
    TestVerifDomainReplay steps a real domain.DB (MemFS, file size cap forcing rollover)
    through each and judges the clauses of the property on the real pointer list.
"""
import json
import os

import vlib

AREA = "domain"
MOD = "cesium"
PKG = "./internal/domain"
HARNESS = ["zz_verif_domain_test.go"]

SIG_BACKWARDS = "C03 backwards-commit-accepted-at-rollover"
SIG_INVERTED = "C03 inverted-preset-end-opens-inside-data"
# directed probe of preset End < Start (outside the model's input space, see DomainIndex.tla)
CHECK_INVERTED_PRESET = True

NOMINAL, CAP = 2, 3


def consts(T, W, maxwrite=2, spans="{0, 1, 2}", anyfile=False, deletes=False, fix=False,
           maxptrs=3, maxfiles=3, maxfilesize=4, maxdeloff=1):
    return """  T = %d
  W = %d
  Nominal = %d
  Cap = %d
  MaxWrite = %d
  PresetSpans = %s
  AnyFile = %s
  Deletes = %s
  MaxDelOff = %d
  FixBackwards = %s
  MaxPtrs = %d
  MaxFiles = %d
  MaxFileSize = %d
""" % (T, W, NOMINAL, CAP, maxwrite, spans, b(anyfile), b(deletes), maxdeloff, b(fix), maxptrs, maxfiles, maxfilesize)


def b(x):
    return "TRUE" if x else "FALSE"


INVS = "TypeOK Sorted NonOverlapping WithinFile BytesDisjoint WritersConsistent"
PROPS = "OpenConflictRule CommitConflictRule EmptyCommitFails FailedOpsChangeNothing FilesAppendOnly OthersUnchanged"


def mc_cfg(c, backwards="BackwardsFailsOutsideWindow"):
    return ("SPECIFICATION Spec\nCONSTANTS\n" + c + "CONSTRAINT Bound\nVIEW View\nINVARIANTS " + INVS +
            "\nPROPERTIES " + PROPS + " " + backwards + "\nCHECK_DEADLOCK FALSE\n")


def gen_cfg(c, depth, prefix, pairwc=True, freewd=True, maxdel=1):
    return ("SPECIFICATION GSpec\nCONSTANTS\n" + c +
            "  Depth = %d\n  PrefixId = %d\n  PairWC = %s\n  FreeWD = %s\n  MaxDel = %d\n" % (
                depth, prefix, b(pairwc), b(freewd), maxdel) +
            "INVARIANTS Emit Sorted NonOverlapping WithinFile\nCHECK_DEADLOCK FALSE\n")


def write_hists(res, path, limit=None, keep=1.0, seed=1):
    """keep < 1: seeded subsample (simulation prints every sibling of the last step)."""
    import random
    rnd = random.Random(seed)
    n = 0
    samples = []
    with open(path, "w") as f:
        for h in res.hists():
            if keep < 1.0 and rnd.random() >= keep:
                continue
            f.write(json.dumps(h, separators=(",", ":")) + "\n")
            if n < 1:
                samples.append(h)
            n += 1
            if limit and n >= limit:
                break
    return n, samples


def compact(hist):
    """Short rendering of a history for evidence samples."""
    out = []
    for s in hist:
        a = s["a"]
        if a == "open":
            t = "open(w%d,start=%d,end=%s)" % (s["w"], s["s"], s["e"] or "-")
        elif a == "write":
            t = "write(w%d,%d)" % (s["w"], s["n"])
        elif a == "commit":
            t = "commit(w%d,%d)" % (s["w"], s["e"])
        elif a == "close":
            t = "close(w%d)" % s["w"]
        elif a == "wd":
            t = "domain.Write([%d,%d),%d)" % (s["s"], s["e"], s["n"])
        else:
            t = "delete([%d,%d),%d,%d)" % (s["s"], s["e"], s["so"], s["eo"])
        out.append("%s->%s%s ptrs=%s" % (t, s["r"], " rollover" if s["x"][0] else "",
                                        ["[%d,%d)" % (p[0], p[1]) for p in s["p"]]))
    return out


def replay_file(ctx, path, T, tag, unit=4, tsmap=0, persist=False, vary=False, workers=None):
    out = ctx.path("out_%s.ndjson" % tag)
    env = {"VERIF_IN": path, "VERIF_OUT": out, "VERIF_T": T, "VERIF_UNIT": unit,
           "VERIF_TSMAP": tsmap, "VERIF_PERSIST": "1" if persist else "0",
           "VERIF_VARY": "1" if vary else "0", "VERIF_NOMINAL": NOMINAL, "VERIF_CAP": CAP}
    if workers:
        env["VERIF_WORKERS"] = workers
    rc, text, wall = ctx.go_test(MOD, PKG, HARNESS, "^TestVerifDomainReplay$", env=env, tag=tag,
                                 timeout=2400)
    rows = ctx.read_ndjson(out)
    if rc != 0 or not rows or not rows[0].get("summary"):
        raise vlib.Inconclusive("domain replay harness failed rc=%s:\n%s" % (rc, text[-2500:]))
    return rows[0], rows[1:], wall


def line_of(path, i):
    with open(path) as f:
        for k, ln in enumerate(f):
            if k == i:
                return json.loads(ln)
    return None


def note_of(row):
    """unit/tsmap/persist used by the harness for a mismatching history."""
    cfg = {"unit": 4, "tsmap": 0, "persist": False}
    for kv in (row.get("note") or "").split():
        k, _, v = kv.partition("=")
        if k in ("unit", "tsmap"):
            cfg[k] = int(v)
        elif k == "persist":
            cfg[k] = v == "true"
    return cfg


class Judge:
    """Turns harness rows into verdicts (reproduced), findings and drift."""

    def __init__(self, ctx):
        self.ctx = ctx
        self.drift = []
        self.counters = {}
        self.replayed = 0
        self.repro = 0

    def add_counters(self, c):
        for k, v in c.items():
            if k == "MaxPtrs":
                self.counters[k] = max(self.counters.get(k, 0), v)
            else:
                self.counters[k] = self.counters.get(k, 0) + v

    def reproduce(self, hist, T, cfg, tag):
        one = self.ctx.path("one_%d.ndjson" % self.repro)
        self.repro += 1
        with open(one, "w") as f:
            f.write(json.dumps(hist) + "\n")
        summ, rows, _ = replay_file(self.ctx, one, T, "repro_%s_%d" % (tag, self.repro), unit=cfg["unit"],
                                    tsmap=cfg["tsmap"], persist=cfg["persist"], workers=1)
        return rows

    def handle(self, path, T, summ, rows, tag):
        ctx = self.ctx
        self.replayed += summ["replayed"]
        self.add_counters(summ.get("counters", {}))
        seen_find = False
        n_verdicts = 0
        for row in rows:
            if row["r"] == "inconclusive":
                raise vlib.Inconclusive("harness inconclusive: %s" % row)
            if row["r"] == "finding":
                if seen_find:
                    continue
                seen_find = True
                hist = line_of(path, row["i"])
                hist = hist[:row["step"] + 1]
                again = [r for r in self.reproduce(hist, T, note_of(row), tag) if r["r"] == "finding"]
                if not again:
                    raise vlib.Inconclusive("finding did not reproduce: %s" % row)
                st = hist[row["step"]]
                # kept also when the finding is a registered known one (report() saves nothing then)
                ctx.save_replay({"history": hist, "T": T, "signature": SIG_BACKWARDS, "steps": compact(hist)},
                                name="finding-backwards-at-rollover.json")
                ctx.report(SIG_BACKWARDS,
                           "non-preset writer: Commit(end=%d) after a commit at a later end is accepted when the commit "
                           "switches files (validateCommitRange skips the previous-commit test); the committed range "
                           "shrinks instead of the call failing with a validation error" % st["e"],
                           {"history": hist, "T": T, "finding": row, "steps": compact(hist),
                            "cmd": "python3 tools/verif.py replay C03 <this file>"})
                continue
            if row["r"] != "mismatch":
                continue
            if row.get("kind") == "drift":
                if len(self.drift) < 5:
                    self.drift.append((tag, row))
                continue
            if n_verdicts >= 6:
                continue
            n_verdicts += 1
            hist = line_of(path, row["i"])
            cfg = note_of(row)
            again = [r for r in self.reproduce(hist, T, cfg, tag) if r["r"] == "mismatch" and r.get("kind") == "verdict"]
            if not again:
                raise vlib.Inconclusive("verdict mismatch did not reproduce: %s" % row)
            step = hist[row["step"]] if 0 <= row["step"] < len(hist) else {}
            sig = "C03 %s %s exp=%s" % (row["clause"], step.get("a"), step.get("r"))
            ctx.report(sig, "clause '%s' at step %d (%s): expected %s; real domain.DB: %s" % (
                row["clause"], row["step"], compact([step])[0] if step else "?", row["exp"], row["act"]),
                {"history": hist, "T": T, "cfg": cfg, "mismatch": row, "steps": compact(hist[:row["step"] + 1]),
                 "cmd": "python3 tools/verif.py replay C03 <this file>"})


def timerange(ctx, thorough):
    n = 7 if thorough else 6
    r = ctx.tlc(AREA, "TimeRangeMC", "trmc.cfg", files={"trmc.cfg": "SPECIFICATION Spec\nCONSTANTS N = %d\n" % n},
                tag="trmc", workers=2, timeout=900)
    if r.error:
        raise vlib.Inconclusive("TimeRange.tla theorem failed in TLC: %s" % r.error)
    vec = ctx.path("trvec.ndjson")
    k = 0
    with open(vec, "w") as f:
        for body in r.tagged("TRV"):
            try:
                f.write(json.loads(body) + "\n")
                k += 1
            except Exception:
                pass
    if k != (n + 1) ** 4:
        raise vlib.Inconclusive("TimeRangeMC emitted %d vectors, expected %d" % (k, (n + 1) ** 4))
    out = ctx.path("trout.ndjson")
    rc, text, wall = ctx.go_test(MOD, PKG, HARNESS, "^TestVerifTimeRange$",
                                 env={"VERIF_IN": vec, "VERIF_OUT": out}, tag="go_tr")
    rows = ctx.read_ndjson(out)
    if rc != 0 or not rows or not rows[0].get("summary"):
        raise vlib.Inconclusive("TimeRange harness failed rc=%s:\n%s" % (rc, text[-2000:]))
    drift = []
    for row in rows[1:]:
        if row.get("valid") and row["fn"] in ("OverlapsWith", "ContainsStamp", "ContainsRange"):
            ctx.report("C03 timerange %s" % row["fn"],
                       "telem.TimeRange.%s(%s, %s) = %s on valid half-open ranges; the set-theoretic definition gives %s" % (
                           row["fn"], row["a"], row["b"], row["act"], row["exp"]),
                       {"vector": row, "cmd": "python3 tools/verif.py check C03"})
        else:
            drift.append(row)
    return {"vectors": rows[0]["vectors"], "checks": rows[0]["checks"], "N": n}, drift


def directed_inverted(ctx, judge):
    """preset End < Start: a writer whose start is the first stamp of existing data."""
    T = 6
    p = [2, 4, 1, 0, 1]
    free = [0, 0, 0, 0, 0, 0, 0, 0]
    base = {"w": 0, "s": 0, "e": 0, "n": 0, "so": 0, "eo": 0, "f": 0, "f2": 0, "ce": 0, "x": [0, 0, 0, 0]}
    hist = [dict(base, a="wd", s=2, e=4, n=1, f=1, ce=4, r="ok", p=[p], ws=[free], fz=[1]),
            dict(base, a="open", w=1, s=2, e=1, r="conflict", p=[p], ws=[free], fz=[1])]
    path = ctx.path("inverted.ndjson")
    with open(path, "w") as f:
        f.write(json.dumps(hist) + "\n")
    rows = []
    for _ in range(2):  # second run = reproduction
        summ, rows, _ = replay_file(ctx, path, T, "inverted", workers=1)
    for row in rows:
        if row["r"] == "mismatch" and row["step"] == 1 and row["clause"] == "class":
            if not row["act"].startswith("res=ok"):
                continue  # rejected (any error class): the writer failed to open, as the property asks
            ctx.save_replay({"history": hist, "T": T, "signature": SIG_INVERTED, "steps": compact(hist)},
                            name="finding-inverted-preset-end.json")
            ctx.report(SIG_INVERTED,
                       "OpenWriter{Start: 2, End: 1} on a DB holding [2,4) succeeds: domain.WriterConfig.Validate builds "
                       "its validator but returns nil, and OverlapsWith of the inverted range [2,1) misses [2,4)",
                       {"history": hist, "T": T, "mismatch": row, "steps": compact(hist),
                        "cmd": "python3 tools/verif.py replay C03 <this file>"})
        elif row["r"] == "mismatch":
            judge.drift.append(("inverted", row))
    return len(rows) == 0


def run(ctx):
    thorough = ctx.tier == "thorough"
    W6 = 6
    judge = Judge(ctx)
    design = []
    states = trans = 0

    # 1. interval algebra
    tr_cov, tr_drift = timerange(ctx, thorough)

    # 2. design level
    def mc(name, module, cfgtext, **kw):
        nonlocal states, trans
        r = ctx.tlc(AREA, module, name + ".cfg", files={name + ".cfg": cfgtext}, tag=name, workers=W6,
                    timeout=3000, **kw)
        design.append({"run": name, "distinct": r.distinct, "generated": r.generated, "violated": r.violated,
                       "depth": r.depth, "wall_s": round(r.wall, 1)})
        states += r.distinct
        trans += r.generated
        return r

    r = mc("idxsearch", "IndexSearchMC", "SPECIFICATION ISpec\nCONSTANTS\n" + consts(6 if thorough else 5, 1) +
           "  MaxIdx = %d\n" % (4 if thorough else 3))
    if r.error:
        raise vlib.Inconclusive("IndexSearchMC: %s" % r.error)
    design[-1]["indexes_checked"] = next(iter(r.tagged("INDEXES")), None)
    AS_IS = "BackwardsFailsOutsideWindow"
    runs = [("mc_w1", consts(3, 1, maxwrite=1, spans="{0, 1}", anyfile=True, maxfiles=2, maxfilesize=3), AS_IS),
            ("mc_w1del", consts(3, 1, maxwrite=1, spans="{1}", deletes=True, maxfiles=2, maxfilesize=3), AS_IS),
            ("mc_w2", consts(2, 2, maxwrite=1, spans="{1}", maxptrs=2, maxfilesize=3), AS_IS),
            ("mc_fixed", consts(3, 1, spans="{0, 1}", fix=True, maxptrs=2, maxfiles=2), "BackwardsFails")]
    if thorough:
        runs += [("mc_w1big", consts(3, 1, spans="{0, 1}", anyfile=True), AS_IS),
                 ("mc_w1delbig", consts(3, 1, spans="{1}", deletes=True), AS_IS)]
    for name, c, back in runs:
        r = mc(name, "DomainIndex", mc_cfg(c, back))
        if r.violated:
            # a design-level counterexample is not a verdict about the code (the replay
            # below is); but the design run is then not evidence either.
            ctx.notes.append("design: %s violated in %s" % (r.violated, name))
    # the named deviation must be visible as is (else the spec no longer models the code)
    r = mc("mc_window", "DomainIndex", mc_cfg(consts(3, 1, spans="{1}", maxptrs=2, maxfiles=2), "BackwardsFails"), expect_violation=True)
    if r.violated != "BackwardsFails":
        ctx.notes.append("design: Window_BackwardsAtRollover not reachable as is (violated=%s)" % r.violated)

    # 3. behaviours -> real code
    samples = []
    gens = []
    exhaustive = True

    def gen_and_replay(name, T, c, depth, prefix, pairwc=True, freewd=True, maxdel=1, simulate=None, simdepth=None,
                       keep=1.0, **rp):
        nonlocal exhaustive
        kw = {}
        if simulate:
            kw = dict(simulate=simulate, depth=simdepth)
        r = ctx.tlc(AREA, "DomainIndexGen", name + ".cfg", files={name + ".cfg": gen_cfg(c, depth, prefix, pairwc, freewd, maxdel)},
                    tag=name, workers=W6, timeout=3000, **kw)
        if r.violated:
            ctx.notes.append("gen %s: design invariant %s violated" % (name, r.violated))
        hp = ctx.path(name + ".ndjson")
        n, smp = write_hists(r, hp, keep=keep, seed=ctx.seed)
        if n == 0:
            raise vlib.Inconclusive("no histories generated by %s" % name)
        if smp and len(samples) < 3:
            samples.append(compact(smp[0]))
        summ, rows, wall = replay_file(ctx, hp, T, "rp_" + name, **rp)
        if summ["replayed"] != n:
            raise vlib.Inconclusive("replayed %s of %s histories" % (summ["replayed"], n))
        gens.append({"gen": name, "histories": n, "depth": depth, "prefix": prefix, "simulate": simulate,
                     "tlc_wall_s": round(r.wall, 1), "replay_wall_s": round(wall, 1), "bad": summ["bad"]})
        judge.handle(hp, T, summ, rows, name)
        try:
            os.remove(hp)
        except OSError:
            pass

    if not thorough:
        gen_and_replay("g_free", 3, consts(3, 2, maxwrite=1, spans="{1, 2}"), 4, 0, vary=True)
        gen_and_replay("g_free2", 3, consts(3, 2, spans="{1}"), 4, 0, vary=True)
        gen_and_replay("g_flow3", 6, consts(6, 2, spans="{1}"), 7, 2, freewd=False, vary=True)
        gen_and_replay("g_roll", 4, consts(4, 1, spans="{2}"), 7, 3, freewd=False, vary=True)
        gen_and_replay("g_del", 5, consts(5, 1, spans="{1}", deletes=True), 5, 4, freewd=False, vary=True)
        gen_and_replay("g_del6", 5, consts(5, 1, spans="{2}", deletes=True), 4, 6, freewd=False, vary=True)
        gen_and_replay("g_del7", 5, consts(5, 1, maxwrite=3, spans="{3}", deletes=True, maxdeloff=2), 3, 7, freewd=False,
                       maxdel=2, vary=True)
        exhaustive_n = sum(g["histories"] for g in gens)
        gen_and_replay("s_any", 5, consts(5, 3, spans="{0, 1, 2, 3}", anyfile=True), 9, 0, simulate="num=250",
                       simdepth=10, keep=0.2, vary=True)
    else:
        gen_and_replay("g_free", 3, consts(3, 2, spans="{0, 1}"), 4, 0, vary=True)
        gen_and_replay("g_free4", 4, consts(4, 2, maxwrite=1, spans="{2, 3}"), 4, 0, vary=True)
        gen_and_replay("g_free5", 5, consts(5, 2, spans="{1}"), 6, 1, vary=True)
        gen_and_replay("g_flow2", 5, consts(5, 2, spans="{1}"), 7, 1, freewd=False, vary=True)
        gen_and_replay("g_flow3", 6, consts(6, 2, spans="{0, 1}"), 7, 2, freewd=False, vary=True)
        gen_and_replay("g_flow4", 5, consts(5, 2, spans="{1}"), 7, 4, freewd=False, vary=True)
        gen_and_replay("g_roll", 5, consts(5, 1, spans="{2}"), 7, 3, freewd=False, vary=True)
        gen_and_replay("g_del", 5, consts(5, 1, spans="{1}", deletes=True), 6, 1, freewd=False, vary=True)
        gen_and_replay("g_del4", 5, consts(5, 2, spans="{1}", deletes=True), 6, 4, freewd=False, vary=True)
        gen_and_replay("g_del6", 5, consts(5, 1, spans="{1, 2}", deletes=True, maxdeloff=2), 5, 6, freewd=False, maxdel=1,
                       vary=True)
        gen_and_replay("g_del7", 5, consts(5, 1, maxwrite=3, spans="{3}", deletes=True, maxdeloff=2), 4, 7, freewd=False, maxdel=2,
                       vary=True)
        exhaustive_n = sum(g["histories"] for g in gens)
        gen_and_replay("s_big", 7, consts(7, 3, spans="{0, 1, 2, 3}", anyfile=True, deletes=True, maxdeloff=2), 12, 5,
                       pairwc=False, maxdel=3, simulate="num=300", simdepth=13, keep=0.2, vary=True)
        gen_and_replay("s_any", 6, consts(6, 3, spans="{0, 1, 2, 3}", anyfile=True), 10, 0, pairwc=True,
                       simulate="num=400", simdepth=11, keep=0.2, vary=True)
    ctx.notes.append("bounded-exhaustive histories: %d; simulated (seeded, sampled): %d" % (
        exhaustive_n, sum(g["histories"] for g in gens) - exhaustive_n))

    if CHECK_INVERTED_PRESET:
        directed_inverted(ctx, judge)

    cnt = judge.counters
    vac = [k for k in ("OpenConflict", "CommitConflict", "CommitValidation", "CommitError", "CommitNoop", "Rollovers",
                       "Adjacent", "Updates", "FailedOpsChecked", "BytesCompared", "Dev") if not cnt.get(k)]
    if thorough and not cnt.get("DeleteChanged"):
        vac.append("DeleteChanged")
    cov = {
        "states": states, "transitions": trans,
        "traces_validated_against_impl": judge.replayed,
        "samples": samples,
        "exhaustive": True,
        "design_runs": design,
        "generators": gens,
        "timerange": tr_cov,
        "mechanisms_exercised": cnt,
        "rule": "every behaviour of DomainIndex.tla of the listed depth after the listed index-building prefix "
                "(OpenWriter with/without preset End, Write, Commit(end), Close, domain.Write%s; all start/end ticks, "
                "1-2 units per write, rollover at 3 units) replayed into a real domain.DB on MemFS under 4 unit sizes x 3 "
                "timestamp maps x {lazy, immediate} index persistence; judged after every step: pointers sorted / "
                "non-overlapping / within file, class of OpenWriter and Commit, committed bytes unchanged after a "
                "failed call, every domain readable through the iterator" % (", Delete" if thorough else ""),
        "notes": ctx.notes,
    }
    if judge.drift or tr_drift:
        d = judge.drift[0] if judge.drift else ("timerange", tr_drift[0])
        if not ctx.violations:
            raise vlib.Inconclusive("DRIFT (spec and code disagree on something C03 does not state) in %s: %s" % d)
        ctx.notes.append("drift: %s %s" % d)
    if vac and not ctx.violations:
        raise vlib.Inconclusive("vacuity guard: mechanisms never exercised: %s" % vac)
    return ctx.finish("model_checking", cov, [
        "TLC/SANY 1.8.0, Go toolchain, x/io/fs MemFS",
        "sequential use of one domain.DB (several writers open at once, calls not concurrent; concurrency is C09)",
        "harness restricts fileController.acquireWriter's map-order choice among released files to the file the "
        "specification chose (marks the others busy for one call)",
        "preset End >= Start (unary.WriterConfig.Validate rejects the rest); Delete only outside open writers' "
        "control regions (the guard unary.DB.delete takes) with consistent offset resolvers",
    ])


def replay(ctx, path):
    with open(path) as f:
        obj = json.load(f)
    one = ctx.path("one.ndjson")
    with open(one, "w") as f:
        f.write(json.dumps(obj["history"]) + "\n")
    cfg = obj.get("cfg") or {"unit": 4, "tsmap": 0, "persist": False}
    summ, rows, _ = replay_file(ctx, one, obj.get("T", 6), "replay", unit=cfg["unit"], tsmap=cfg["tsmap"],
                                persist=cfg["persist"], workers=1)
    bad = [r for r in rows if r["r"] == "finding" or (r["r"] == "mismatch" and r.get("kind") == "verdict")]
    if bad:
        print("VIOLATION property=C03 replay=%s" % path)
        print("  " + json.dumps(bad[0]))
        return 1
    if rows:
        print("INCONCLUSIVE property=C03: %s" % json.dumps(rows[0]))
        return 2
    print("replay: history passes on the current tree")
    return 0
