"""C06 - aspen replicas converge: same operations, any order, same state (DESIGN.md C06)."""
import vlib
import _aspenkv as A


def run(ctx):
    return A.guarded(ctx, _run)


def _run(ctx):
    states, trans, design = A.run_design(ctx, "C06")
    # (a) ingress determinism on one real node
    total, gs, gt, samples, stats, fams = A.run_ingress(ctx, "C06")
    # (b) real 2-3 node clusters, harness-scheduled
    nscen, accepted, cstats, tv_rows, nbad = A.run_cluster_layer(ctx, "C06")
    windows = A.run_windows(ctx)
    live = A.run_live(ctx) if ctx.tier == "thorough" else []
    if any(n.startswith("design: ") and "masked config" in n for n in ctx.notes) and not ctx.violations:
        raise vlib.Inconclusive("; ".join(ctx.notes[:3]))
    # vacuity guards
    need = {"accepted": stats.get("accepted", 0), "rejected": stats.get("rejected", 0), "locals": stats.get("locals", 0),
            "cluster_accepted": cstats.get("accepted", 0), "cluster_rejected": cstats.get("rejected", 0),
            "cluster_recovered": cstats.get("recovered", 0), "cluster_quiet": cstats.get("quiet", 0),
            "cluster_crashes": cstats.get("crashes", 0), "cluster_forwards": cstats.get("forwards", 0),
            # feedback deliveries whose mark reached the threshold while a newer operation was stored
            "cluster_stalefb_hits": cstats.get("stalefb_hits", 0),
            # start-up recoveries in which a peer held an operation the node had to refuse, or the peers disagreed
            "cluster_recovery_contested": cstats.get("recovery_contested", 0),
            # operations accepted by the gossip ingress of a node held inside its start-up recovery
            "cluster_ingress_during_recovery": cstats.get("ingress_during_recovery", 0)}
    if any(v == 0 for v in need.values()):
        raise vlib.Inconclusive("vacuous run: %s" % need)
    cov = {
        "states": states + gs, "transitions": trans + gt,
        "traces_validated_against_impl": total + accepted,
        "samples": samples[:2],
        "exhaustive": False,
        "design_runs": design,
        "ingress_families": fams,
        "ingress_histories_replayed": total,
        "ingress_stats": stats,
        "cluster_scenarios": nscen, "cluster_traces_accepted_by_AspenKVTrace": accepted,
        "cluster_stats": cstats, "trace_validation_runs": tv_rows[:8],
        "windows_on_real_code": windows,
        "live_runs": live,
        "rule": "(a) every delivery order / batching / re-delivery (and interleaved local writes) of TLC-chosen operation pools "
                "(all pools of <=3 ops over 2 keys x 3 versions x 2 remote leaseholders x set/delete; seeded samples of 4-5 ops) "
                "handed to a real node's operationServer.handle; accepted/rejected partition, digest+value of every key after "
                "every request, and the final engine per operation set compared with AspenKV's filterPersist rule. "
                "(b) 2-3 real kv.DB nodes driven step by step (writes, forwarded writes, gossip exchanges, feedback, loss, "
                "duplication, restart with real recovery); no-regress / value=digest / quiescent convergence judged on the real "
                "engines and every trace validated against AspenKVTrace.tla",
        "notes": ctx.notes[:20],
    }
    return ctx.finish("model_checking", cov, [
        "membership is a static real cluster store (cluster.Cluster{Store}), transports are freighter/mock networks; the "
        "periodic emitter (1000 h interval) is replaced by the harness scheduler calling the same handlers",
        "masked schedules do not step into the named windows (VolatileStore, MultiLease, PrematureRemoval; "
        "StaleFeedback and RecoveryUnchecked were repaired in store.go / recovery.go and are stepped into freely); each window except PrematureRemoval (inherent to SIR removal with random peers) is replayed as a "
        "directed script and reported under a stable signature",
        "start-up recovery: peers in turn in any order, high-water mark loaded once at start, supersedes rule (as repaired); gossip is "
        "delivered to a node inside its Open only by the directed script d-recovery-vs-ingress (gate on the recovery stream)",
        "TLC/SANY, Go toolchain, memkv (pebble in-memory) trusted",
    ])


def replay(ctx, path):
    return A.replay(ctx, path, "C06")
