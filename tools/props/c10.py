"""C10 - iterator steps return exactly the samples inside the reported view (DESIGN.md C10).

Pipeline
  1. TLC checks CesiumIter.tla exhaustively (the per-step clauses imply the full-traversal claim).
  2. CesiumStoreGen.tla (TLC) generates store scripts -> stored layouts (multi-domain, rollover by
     small file caps, holes from deletes, writers starting before their first sample).
  3. CesiumIterGen.tla (TLC) generates iterator command sequences (bounded-exhaustive "mixed" and
     "sweep" families, plus simulation).
  4. zz_verif_iter_test.go builds every layout in a real cesium.DB and drives unary.Iterator and
     cesium.Iterator with the sequences, recording View()/Value()/Valid()/Error() after every command.
  5. CesiumIterTrace.tla (TLC) evaluates every clause of CesiumIter.tla on every recorded transition.
  6. Failing verdict-bearing clauses are re-run once from scratch, given a structural signature and
     reported (known_findings.json turns matching ones into KNOWN-FINDING lines).
"""
import json
import os
import random
import threading

import vlib
import _cesium as C

AREA = "cesium"
HARNESS = ["zz_verif_store_test.go", "zz_verif_iter_test.go"]
VERDICT = ["FrameIsView", "ViewOrdered", "InBounds", "AdjFwd", "AdjBwd", "AutoProgressFwd", "AutoProgressBwd",
           "SeekFirstNoSkip", "SeekLastNoSkip", "SeekFinds", "TraversalOnce", "UnexpectedError"]
KINDS = ["ns1", "sub", "one", "x25", "whole", "over", "hop1", "hop2", "hop3"]


# ------------------------------------------------------------------ TLC configs
def mc_cfg(n, chunks):
    return """SPECIFICATION Spec
CONSTANTS
  N = %d
  Chunks = {%s}
INVARIANTS TypeOK TraversalOnce FullTraversalOnce
PROPERTIES StepClauses Adjacent AutoClauses SeekClauses GrowClauses
CHECK_DEADLOCK FALSE
""" % (n, ", ".join(str(c) for c in chunks))


def gen_cfg(mode, depth, seekt, kinds, boundst, maxseeks=2):
    return """SPECIFICATION GSpec
CONSTANTS
  Depth = %d
  Mode = "%s"
  SeekT = {%s}
  Kinds = {%s}
  BoundsT = {%s}
  MaxSeeks = %d
INVARIANTS Emit
CHECK_DEADLOCK FALSE
""" % (depth, mode, ", ".join(str(x + 2) for x in seekt), ", ".join('"%s"' % k for k in kinds),
       ", ".join(str(x + 2) for x in boundst), maxseeks)


TRACE_CFG = """SPECIFICATION TSpec
CONSTANTS
  N = 1
  Chunks = {1}
INVARIANTS Report
CONSTRAINT Mark
POSTCONDITION Accepted
CHECK_DEADLOCK FALSE
"""


# ------------------------------------------------------------------ layouts
def layout_key(h):
    st = h[-1]["st"]
    return json.dumps([st["cm"], st["dm"]], sort_keys=True)


def layout_score(h):
    """Prefer layouts with several domains, holes and enough samples."""
    st = h[-1]["st"]
    score = 0
    for ch in ("I", "D", "V"):
        n = sum(1 for v in st["cm"][ch].values() if v)
        score += min(n, 4) + 2 * min(len(st["dm"][ch]), 3)
        times = sorted(int(t) for t, v in st["cm"][ch].items() if v)
        if times and any(b - a > 2 for a, b in zip(times, times[1:])):
            score += 2   # a hole
    if any(x["a"] == "delete" and x["res"] == "ok" for x in h):
        score += 2
    return score


def layout_traits(h):
    """odd: a stored domain starts between samples (writer opened before its first sample);
    multi: one writer wrote several times (file rollover with a small file cap => a
    continuation domain that starts one nanosecond after the previous sample)."""
    st = h[-1]["st"]
    odd = any(d[0] % 2 == 1 for ch in ("I", "D", "V") for d in st["dm"][ch])
    commits = {}   # writer -> number of commits that carried data since it was opened
    auto = {}
    pending = {}
    multi = False
    for x in h:
        if x["res"] != "ok":
            continue
        w = x["args"].get("w") if isinstance(x.get("args"), dict) else None
        if x["a"] == "open":
            commits[w], auto[w], pending[w] = 0, x["args"]["auto"], False
        elif x["a"] == "write":
            if auto.get(w):
                commits[w] = commits.get(w, 0) + 1
            else:
                pending[w] = True
        elif x["a"] == "commit" and pending.get(w):
            commits[w] = commits.get(w, 0) + 1
            pending[w] = False
        if w is not None and commits.get(w, 0) > 1:
            multi = True
    return odd, multi


def gen_layouts(ctx, thorough):
    """Store scripts from CesiumStoreGen (simulation): with deletes, with early writer starts, both.
    Every prefix of a generated script is a script too, so each walk yields several layouts."""
    T = 4
    n_sim = 100 if thorough else 12
    fam = (("del", dict(spec="GSpecSim", T=T, depth=14, deletes=True)),
           ("early", dict(spec="GSpecSim", T=T, depth=12, deletes=False, early=True)),
           ("earlydel", dict(spec="GSpecSim", T=T, depth=14, deletes=True, early=True)),
           # one session of many one-sample commits (scenario plan 6): replayed with a 1-byte data type and a
           # tiny file cap, the index channel rolls over at every commit while the data channel does not,
           # so ONE data domain spans four or five contiguous index domains
           ("dense", dict(spec="GSpecSim", T=T, depth=8, deletes=False, plan=6, maxlen=1, chansets='{{"I","D","V"}}')))
    res = {}
    errs = []

    def one(tag, kw):
        try:
            res[tag] = ctx.tlc(AREA, "CesiumStoreGen", "gl_%s.cfg" % tag, files={"gl_%s.cfg" % tag: C.gen_cfg(**kw)},
                               simulate="num=%d" % n_sim, depth=kw["depth"] + 2, workers=1, tag="lay_" + tag, timeout=1500)
        except vlib.Inconclusive as e:
            errs.append(str(e))

    ctx.spec_copy(AREA)   # before the threads: the copy itself is not thread safe
    ths = [threading.Thread(target=one, args=f) for f in fam]
    for t in ths:
        t.start()
    for t in ths:
        t.join()
    if errs:
        raise vlib.Inconclusive(errs[0])
    best = {}
    ctx.c10_hists = {}   # full scripts per family: gen_grow_jobs splits them into base + growth
    for tag, _ in fam:
        got = 0
        ctx.c10_hists[tag] = list(res[tag].hists())
        for h in ctx.c10_hists[tag]:
            for n in range(2, len(h) + 1):
                p = h[:n]
                if not any(v for ch in ("D", "V") for v in p[-1]["st"]["cm"][ch].values()):
                    continue
                k = layout_key(p) + json.dumps(layout_traits(p))
                if k not in best or len(best[k][2]) > n:
                    best[k] = (layout_score(p), tag, p)
                got += 1
        if got == 0:
            raise vlib.Inconclusive("no layouts generated (%s)" % tag)
    uniq = [best[k] for k in sorted(best)]
    rnd = random.Random(ctx.seed)
    rnd.shuffle(uniq)
    uniq.sort(key=lambda x: -x[0])
    # interleave three strata so that the first n always hold inexact domain starts and rollover candidates
    strata = [[], [], [], []]
    for u in uniq:
        odd, multi = layout_traits(u[2])
        if u[1] == "dense":
            # keep the dense layouts whose data channel holds at least 4 samples
            if sum(1 for v in u[2][-1]["st"]["cm"]["D"].values() if v) >= 4:
                strata[3].append(u)
            continue
        strata[0 if odd else 1 if multi else 2].append(u)
    out = []
    while any(strata):
        for st in strata:
            if st:
                out.append(st.pop(0))
    return T, out


# ------------------------------------------------------------------ command sequences
def gen_seqs(ctx, thorough, maxt):
    fams = {}
    allt = list(range(-1, maxt + 2))
    # bounded-exhaustive mixed: one seek + steps (+ a second seek)
    d = 4
    r = ctx.tlc(AREA, "CesiumIterGen", "gc.cfg", tag="gen_mixed", timeout=900, workers=4,
                files={"gc.cfg": gen_cfg("mixed", d, [1, 4], ["sub", "one", "x25", "hop1", "over"], [], maxseeks=1)})
    fams["mixed"] = list(r.hists())
    st = (r.distinct, r.generated)
    # sweeps: one step repeated, one turn
    r = ctx.tlc(AREA, "CesiumIterGen", "gc.cfg", tag="gen_sweep", timeout=900, workers=4,
                files={"gc.cfg": gen_cfg("sweep", 9 if not thorough else 12, [3, 6], KINDS, [])})
    fams["sweep"] = list(r.hists())
    st = (st[0] + r.distinct, st[1] + r.generated)
    # random long mixed sequences with setbounds and several seeks
    r = ctx.tlc(AREA, "CesiumIterGen", "gc.cfg", tag="gen_sim", timeout=900, workers=4,
                simulate="num=%d" % (3000 if thorough else 600), depth=10,
                files={"gc.cfg": gen_cfg("mixed", 8, allt, KINDS, [-1, 1, 2, 5, maxt + 1], maxseeks=3)})
    fams["sim"] = list(r.hists())
    for k, v in fams.items():
        if not v:
            raise vlib.Inconclusive("no command sequences generated (%s)" % k)
    return fams, st


def sweep_seqs(seqs):
    """Sweeps whose first command is seekfirst / seeklast: the full traversals."""
    return [s for s in seqs if s[0]["c"] in ("seekfirst", "seeklast")]


# ------------------------------------------------------------------ jobs
def conc_for(seed, i):
    rnd = random.Random(seed * 1000003 + i)
    return {"tsmap": rnd.randrange(3), "dtype": rnd.randrange(4), "vtype": rnd.randrange(3),
            "filecap": rnd.choice([0, 5, 9, 17, 5, 40]), "persist": rnd.randrange(3), "gcthresh": rnd.randrange(2), "iter": 0,
            "noempty": True}   # sample identities are decoded from the bytes: no zero-length variable samples


def bounds_choices(maxt):
    full = [(-1, maxt + 1), (-2, maxt + 2), (-1, maxt + 2)]
    inner = [(a, b) for a in range(0, maxt) for b in range(a + 2, maxt + 2)]
    return full, inner


def make_jobs(ctx, layouts, fams, maxt, n_layouts, concs_per, runs_per, thorough):
    rnd = random.Random(ctx.seed * 7919 + 17)
    full, inner = bounds_choices(maxt)
    jobs = []
    rid = 0
    for li, (score, tag, h) in enumerate(layouts[:n_layouts]):
        for ci in range(concs_per):
            conc = conc_for(ctx.seed, li * 31 + ci)
            if tag == "dense" and ci % 2 == 0:
                conc["dtype"], conc["filecap"] = 2, 5
            runs = []
            for fam, share in (("sweep", 0.45), ("mixed", 0.3), ("sim", 0.25)):
                pool = fams[fam]
                for _ in range(max(1, int(runs_per * share))):
                    seq = rnd.choice(pool)
                    a, b = rnd.choice(full) if rnd.random() < 0.4 else rnd.choice(inner)
                    modes = ["unary", "stream"] if rnd.random() < 0.4 else ["unary"]
                    runs.append({"rid": rid, "chans": ["D", "V", "I"], "modes": modes, "a": a, "b": b,
                                 "chunk": rnd.choice([1, 2, 3, 100000]), "cmds": seq, "fam": fam})
                    rid += 1
            jobs.append({"id": len(jobs), "hist": h, "conc": conc, "maxt": maxt, "runs": runs, "tag": tag})
    return jobs


# ------------------------------------------------------------------ layouts that grow under an open iterator
GROW_ACTIONS = ("open", "write", "commit", "close")


def grow_kind(base, fin):
    """(extends, appends): a stored domain (adjacent ones merged) keeps its start and gets a later end /
    a domain with a new start appears - per channel, any channel."""
    ext = app = False
    for ch in ("I", "D", "V"):
        b = {d[0]: d[1] for d in base["st"]["dm"][ch]}
        for d in fin["st"]["dm"][ch]:
            if d[0] in b and d[1] > b[d[0]]:
                ext = True
            elif d[0] not in b and not any(s <= d[0] < e for s, e in b.items()):
                app = True
    return ext, app


def grow_splits(h, maxlen=6):
    """All (n0, n1): h[:n0] is a layout with data, h[n0:n1] a run of open/write/commit/close steps that
    commits something new."""
    out = []
    for n0 in range(1, len(h)):
        base = h[n0 - 1]
        if not any(v for ch in ("I", "D", "V") for v in base["st"]["cm"][ch].values()):
            continue
        n1 = n0
        while n1 < len(h) and n1 - n0 < maxlen and h[n1]["a"] in GROW_ACTIONS:
            n1 += 1
        while n1 > n0 and h[n1 - 1]["st"]["cm"] == h[n1 - 2]["st"]["cm"]:
            n1 -= 1      # end on a step that commits
        if n1 > n0 and h[n1 - 1]["st"]["cm"] != base["st"]["cm"]:
            out.append((n0, n1) + grow_kind(base, h[n1 - 1]))
    return out


def grow_cmds(rnd, seq, nsteps):
    """Insert one or two `script` commands (together nsteps script steps) into a command sequence."""
    seq = list(seq)
    points = 1 if nsteps == 1 or rnd.random() < 0.5 else 2
    first = rnd.randint(1, nsteps) if points == 2 else nsteps
    lo = 0 if rnd.random() < 0.15 else 1           # mostly after the first seek
    pos = sorted(rnd.randint(lo, max(lo, len(seq) - 1)) for _ in range(points))
    parts = [first, nsteps - first][:points]
    for p, n in reversed(list(zip(pos, parts))):
        if n > 0:
            seq.insert(p, {"c": "script", "n": n})
    return seq


def make_grow_jobs(ctx, fams, maxt, n_jobs, runs_per, first_id):
    """Jobs whose store script continues while the iterators are open: base = a script prefix (writers
    stay open), more = the following open/write/commit/close steps, executed by `script` commands."""
    rnd = random.Random(ctx.seed * 104729 + 5)
    cands = {True: [], False: []}      # keyed by "extends a domain"
    seen = set()
    for tag in sorted(ctx.c10_hists):
        for h in ctx.c10_hists[tag]:
            for n0, n1, ext, app in grow_splits(h):
                key = json.dumps([[(x["a"], x["args"]) for x in h[:n1]], n0], sort_keys=True, default=str)
                if key in seen:
                    continue
                seen.add(key)
                cands[ext].append((tag, h[:n0], h[n0:n1], ext, app))
    for v in cands.values():
        rnd.shuffle(v)
    picks = []
    while len(picks) < n_jobs and (cands[True] or cands[False]):
        for k in (True, True, False):        # two thirds extend a domain the iterator can sit on
            if cands[k] and len(picks) < n_jobs:
                picks.append(cands[k].pop())
    full, inner = bounds_choices(maxt)
    jobs = []
    rid = 10 ** 6
    for gi, (tag, base, more, ext, app) in enumerate(picks):
        conc = conc_for(ctx.seed, 7000 + gi)
        runs = []
        for _ in range(runs_per):
            fam = rnd.choice(["sweep", "sweep", "mixed", "sim"])
            seq = grow_cmds(rnd, rnd.choice(fams[fam]), len(more))
            a, b = rnd.choice(full) if rnd.random() < 0.7 else rnd.choice(inner)
            modes = ["unary", "stream"] if rnd.random() < 0.4 else ["unary"]
            runs.append({"rid": rid, "chans": ["D", "V", "I"], "modes": modes, "a": a, "b": b,
                         "chunk": rnd.choice([1, 2, 3, 100000]), "cmds": seq, "fam": fam})
            rid += 1
        jobs.append({"id": first_id + gi, "hist": base, "more": more, "conc": conc, "maxt": maxt, "runs": runs,
                     "tag": "grow:" + tag, "extends": ext, "appends": app})
    return jobs


# ------------------------------------------------------------------ harness
def run_harness(ctx, jobs, tag, workers=6, timeout=1500):
    inp = ctx.path("jobs_%s.ndjson" % tag)
    out = ctx.path("rec_%s.ndjson" % tag)
    with open(inp, "w") as f:
        for j in jobs:
            f.write(json.dumps(j, separators=(",", ":")) + "\n")
    rc, text, wall = ctx.go_test("cesium", ".", HARNESS, "^TestVerifIterRecord$",
                                 env={"VERIF_IN": inp, "VERIF_OUT": out, "VERIF_WORKERS": workers}, tag=tag, timeout=timeout)
    rows = ctx.read_ndjson(out)
    summ = [r for r in rows if r.get("kind") == "summary"]
    if rc != 0 or not summ:
        raise vlib.Inconclusive("iterator harness failed rc=%s:\n%s" % (rc, text[-3000:]))
    lays = {r["v"]["layout"]: r["v"] for r in rows if r.get("kind") == "layout"}
    for l in lays.values():   # Go encodes empty slices as null
        for fld in ("samples", "pointers"):
            l[fld] = {ch: ((l.get(fld) or {}).get(ch) or []) for ch in ("I", "D", "V")}
        l["points"] = l.get("points") or []
    traces = [r["v"] for r in rows if r.get("kind") == "trace"]
    return summ[0], lays, traces, wall


# ------------------------------------------------------------------ traces -> TLC events
def to_events(trace, lay, tid):
    """Rank-compress every timestamp of one recorded trace; cut at a panic / hang event."""
    samples = lay["samples"][trace["chan"]] or []
    evs = []
    for e in trace["events"]:
        if e.get("panic") or e.get("hang") or e.get("guard") or (e["c"] == "open" and e.get("err", "").startswith("open:")):
            break
        evs.append(e)
    pts = set(s[0] for s in samples)
    cut = None
    for i, e in enumerate(evs):
        if e["c"] == "script":
            if e.get("err"):        # the store script diverged from the model: the trace ends before it
                cut = i
                break
            pts.update(p[0] for p in e.get("stored") or [])
            continue
        pts.update(e["b"])
        pts.update(e["view"])
        pts.add(e["t"])
        pts.add(e["target"])
        pts.update(p[0] for p in e["frame"] if p[0] >= 0)
    if cut is not None:
        evs = evs[:cut]
    rank = {v: i for i, v in enumerate(sorted(pts))}
    out = [{"ev": "layout", "tid": tid, "stored": [[rank[s[0]], s[2]] for s in samples]}]
    for e in evs:
        if e["c"] == "script":
            out.append({"ev": "grow", "stored": [[rank[p[0]], p[1]] for p in e.get("stored") or []]})
            continue
        out.append({"ev": "cmd", "c": e["c"], "t": rank[e["t"]], "target": rank[e["target"]],
                    "b": [rank[e["b"][0]], rank[e["b"][1]]], "chunk": min(e["chunk"], 1000),
                    "view": [rank[e["view"][0]], rank[e["view"][1]]],
                    "frame": [[rank[p[0]] if p[0] >= 0 else -1, p[1]] for p in e["frame"]],
                    "valid": bool(e["valid"]), "ok": bool(e["ok"]), "err": e.get("err", "")})
    return out


def tlc_validate(ctx, batches):
    """Run CesiumIterTrace over each batch (list of event lists); return {tid: {k: (viol, drift)}}."""
    d = ctx.spec_copy(AREA)
    with open(os.path.join(d, "CesiumIterTrace.tla")) as f:
        mod = f.read()
    results = {}
    stats = {"distinct": 0, "generated": 0, "events": 0}
    errors = []
    lock = threading.Lock()
    sem = threading.Semaphore(5)

    def one(i, lines):
        with sem:
            name = "trace_%d.ndjson" % i
            modname = "CesiumIterTrace_%d" % i
            try:
                r = ctx.tlc(AREA, modname, "tv_%d.cfg" % i, workers=1, tag="tv_%d" % i, timeout=1500, heap="3g",
                            files={name: "\n".join(lines) + "\n", "tv_%d.cfg" % i: TRACE_CFG,
                                   modname + ".tla": mod.replace("MODULE CesiumIterTrace", "MODULE " + modname)
                                   .replace('"trace.ndjson"', '"%s"' % name)})
            except vlib.Inconclusive as e:
                with lock:
                    errors.append(str(e))
                return
            hw = [b for b in r.tagged("HW")]
            if r.violated or r.postcondition_failed or hw or r.error or r.rc != 0:
                with lock:
                    errors.append("trace validation batch %d did not reach the end of the trace (hw=%s, violated=%s, err=%s)" % (
                        i, hw, r.violated, r.error))
                return
            with lock:
                stats["distinct"] += r.distinct
                stats["generated"] += r.generated
                stats["events"] += len(lines)
                for body in r.tagged("VIOL"):
                    try:
                        v = json.loads(json.loads(body))
                    except Exception:
                        errors.append("cannot parse VIOL line: " + body[:200])
                        continue
                    results.setdefault(v["tid"], {})[v["k"]] = (v["viol"], v["drift"])

    threads = []
    for i, lines in enumerate(batches):
        t = threading.Thread(target=one, args=(i, lines))
        t.start()
        threads.append(t)
    for t in threads:
        t.join()
    if errors:
        raise vlib.Inconclusive("; ".join(errors[:3]))
    return results, stats


def validate(ctx, lays, traces, batch_events=40000):
    batches = []
    cur = []
    for tid, tr in enumerate(traces):
        lay = lays[tr["layout"]]
        evs = to_events(tr, lay, tid)
        if len(cur) + len(evs) > batch_events and cur:
            batches.append(cur)
            cur = []
        cur.extend(json.dumps(e, separators=(",", ":")) for e in evs)
    if cur:
        batches.append(cur)
    return tlc_validate(ctx, batches)


# ------------------------------------------------------------------ judging
FWD = ("next", "nextauto")
BWD = ("prev", "prevauto")
SEEKS = ("seekfirst", "seeklast", "seekle", "seekge")


def abs_fn(lay):
    """Render a timestamp relative to the layout's abstract times: '4', '4+1' (ns after), '5-2'."""
    pts = lay["points"]

    def f(ts):
        if ts in pts:
            return str(pts.index(ts))
        if ts < pts[0]:
            return "0-%d" % (pts[0] - ts)
        for i in range(1, len(pts)):
            if ts < pts[i]:
                return "%d-%d" % (i, pts[i] - ts) if pts[i] - ts < ts - pts[i - 1] else "%d+%d" % (i - 1, ts - pts[i - 1])
        return "%d+%d" % (len(pts) - 1, ts - pts[-1])
    return f


def render(trace, lay, upto=None, marks=None):
    f = abs_fn(lay)
    ch = trace["chan"]
    out = ["channel %s mode %s; stored (abstract time, write id) %s; domains %s; index domains %s; conc %s" % (
        ch, trace["mode"], [(s[1], s[2]) for s in lay["samples"][ch]],
        [[f(p[0]), f(p[1])] for p in lay["pointers"][ch]], [[f(p[0]), f(p[1])] for p in lay["pointers"]["I"]],
        json.dumps(lay["conc"]))]
    for i, e in enumerate(trace["events"][:upto], 1):
        if e.get("panic") or e.get("hang") or e.get("guard"):
            out.append("%d %s %s -> %s" % (i, e["c"], e.get("k", ""), "PANIC " + e["panic"] if e.get("panic") else
                                            ("HANG (did not return within the watchdog)" if e.get("hang") else "NOT EXECUTED: " + e["guard"])))
            continue
        if e["c"] == "script":
            out.append("%d store script continues under the open iterator: %s -> %s" % (
                i, e.get("steps"), e.get("err") or "committed samples now at %s" % [f(p[0]) for p in e.get("stored") or []]))
            continue
        arg = ""
        if e["c"] in ("seekle", "seekge"):
            arg = "(%s)" % f(e["t"])
        elif e["c"] in ("next", "prev"):
            arg = "(%s=%dns)" % (e.get("k", ""), e.get("span", 0))
        out.append("%d %s%s bounds=[%s,%s) chunk=%d -> ok=%s view=[%s,%s) frame=%s valid=%s err=%s%s" % (
            i, e["c"], arg, f(e["b"][0]), f(e["b"][1]), e["chunk"], e["ok"], f(e["view"][0]), f(e["view"][1]),
            [f(p[0]) if p[0] >= 0 else "?" for p in e["frame"]], e["valid"], (e.get("err") or "-")[:100],
            ("   <== " + ",".join(marks[i])) if marks and i in marks else ""))
    return out


def err_class(msg):
    m = msg.lower()
    if "is not continuous" in m:
        return "not-continuous"
    if "eof" in m:
        return "EOF"
    if "failed to resolve position" in m:
        return "resolve-position"
    if "discontinuous" in m or "does not exist in the index" in m:
        return "discontinuous"
    return "other"


def classify(trace, lay, k, viol):
    """Structural signature of the first verdict-bearing violation (event index k, 1-based) of a
    trace. The D-numbers name the defect families described in known_findings.json."""
    evs = trace["events"]
    e = evs[k - 1]
    ch = trace["chan"]
    base = sorted((s[0], s[2]) for s in lay["samples"][ch])
    stored = base
    for x in evs[:k - 1]:
        if x["c"] == "script" and not x.get("err"):
            stored = sorted(tuple(p) for p in x.get("stored") or [])
    grown = [p for p in stored if p not in base]
    idx_ts = set(s[0] for s in lay["samples"]["I"])
    c = e["c"]

    def read(a, b):
        return [p for p in stored if a <= p[0] < b]
    j = k - 1
    while j > 0 and evs[j - 1]["c"] not in SEEKS + ("open", "setbounds"):
        j -= 1
    seek = evs[j - 1] if j > 0 else None
    since = [x for x in evs[j:k - 1] if x["c"] != "script"]
    same = FWD if c in FWD else BWD
    other = BWD if c in FWD else FWD
    turn = any(x["c"] in other for x in since)
    auto_before = any(x["c"] in ("nextauto", "prevauto") for x in since)
    empty_before = any(x["c"] in same and not read(x["view"][0], x["view"][1]) for x in since)
    seek_out = bool(seek and seek["c"] in ("seekle", "seekge") and
                    not (seek["b"][0] <= seek["view"][0] <= seek["b"][1]))
    exp = read(e["view"][0], e["view"][1])
    got = [tuple(p) for p in e["frame"]]
    missing = [p for p in exp if p not in got]
    extra = [p for p in got if p not in exp]
    if c in SEEKS + ("open", "setbounds"):
        return "C10 %s %s" % (c, "+".join(sorted(viol)))
    if grown and missing and all(p in grown for p in missing) and not extra:
        return "C10 G1 %s misses samples committed while the iterator was open" % c
    if grown and any(p in grown for p in missing + extra):
        return "C10 G2 %s %s involving samples committed while the iterator was open" % (c, "+".join(sorted(viol)))
    if seek_out:
        return "C10 D6 %s after %s positioned outside the bounds" % (c, seek["c"])
    if "UnexpectedError" in viol and err_class(e.get("err", "")) == "not-continuous":
        return "C10 D8 %s fails: index distance reports 'not continuous' across adjacent index domains" % c
    if c in ("next", "prev"):
        diff = ("misses samples" if missing and not extra else "returns samples outside the view" if extra and not missing
                else "misses and adds samples" if missing else "+".join(sorted(viol)))
        if turn or auto_before:
            return "C10 D4 %s after a direction change or automatic step %s" % (c, diff)
        if empty_before:
            return "C10 D3 %s after an earlier sample-free view of the same run %s" % (c, diff)
        if missing and not extra and any(x["c"] in same for x in since):
            return "C10 D3 %s after earlier steps of the same run misses samples (domain iterator ran ahead)" % c
        return "C10 %s %s %s" % (c, "+".join(sorted(viol)), diff)
    # automatic steps
    if "UnexpectedError" in viol:
        cls = err_class(e.get("err", ""))
        if c == "prevauto" and cls in ("EOF", "resolve-position"):
            return "C10 D7 prevauto fails with an index error (%s) although samples remain" % cls
        return "C10 D2 %s fails with an error (%s) although samples remain" % (c, cls)
    if c == "nextauto" and not missing and len(extra) == 1 and extra[0][0] == e["view"][1] and e["view"][0] not in idx_ts:
        return "C10 D1 nextauto returns the sample at view.end; the view starts between samples"
    if turn:
        ctxs = " after a direction change"
    else:
        ctxs = ""
    if missing and extra:
        diff = "misses and adds samples"
    elif missing:
        diff = "misses samples"
    elif extra:
        diff = "returns samples outside the view"
    else:
        diff = "+".join(sorted(viol))
    return "C10 D2 %s %s%s" % (c, diff, ctxs)


def first_violations(traces, res):
    """(tid, k, viol) of the first verdict-bearing event per trace; plus panic / hang / guard events."""
    out = []
    for tid, tr in enumerate(traces):
        ks = res.get(tid, {})
        bad = sorted(k for k, (v, d) in ks.items() if set(v) & set(VERDICT))
        if bad:
            k = bad[0]
            out.append((tid, k, sorted(set(ks[k][0]) & set(VERDICT))))
            continue
        for i, e in enumerate(tr["events"], 1):
            if e.get("panic"):
                out.append((tid, i, ["Panic"]))
            elif e.get("hang"):
                out.append((tid, i, ["Hang"]))
            elif e.get("guard"):
                out.append((tid, i, ["Guard"]))
    return out


def nonevent_signature(trace, k, kind):
    e = trace["events"][k - 1]
    if kind == "Panic":
        msg = e["panic"]
        if "index out of range [-1]" in msg:
            msg = "index out of range [-1]"
        return "C10 D2 panic in %s.Iterator %s: %s" % ("unary" if trace["mode"] == "unary" else "cesium", e["c"], msg[:80])
    if kind == "Hang":
        return "C10 D2 cesium.Iterator %s never returns (stream goroutine died)" % e["c"]
    return "C10 D5 %s recurses without end: view one nanosecond outside the bounds" % e["c"]


def single_job(jobs_by_id, trace):
    job = jobs_by_id[trace["layout"]]
    run = [r for r in job["runs"] if r["rid"] == trace["rid"]][0]
    return dict(job, runs=[dict(run, chans=[trace["chan"]], modes=[trace["mode"]] if trace["mode"] == "unary" else ["unary", "stream"])])


def judge(ctx, jobs, lays, traces, res, stats):
    """Group first violations by signature, re-run one instance of each from scratch, report."""
    jobs_by_id = {j["id"]: j for j in jobs}
    groups = {}
    for tid, k, viol in first_violations(traces, res):
        tr = traces[tid]
        lay = lays[tr["layout"]]
        sig = nonevent_signature(tr, k, viol[0]) if viol[0] in ("Panic", "Hang", "Guard") else classify(tr, lay, k, viol)
        g = groups.setdefault(sig, [])
        g.append((len(tr["events"]), tid, k, viol))
    stats["violating_traces"] = sum(len(g) for g in groups.values())
    stats["signatures"] = {s: len(g) for s, g in sorted(groups.items())}
    if not groups:
        return
    # reproduce: the shortest instance of every signature, all in one harness run
    picks = {}
    rjobs = []
    for sig, g in sorted(groups.items()):
        n, tid, k, viol = min(g)
        job = dict(single_job(jobs_by_id, traces[tid]), id=len(rjobs))
        picks[sig] = (tid, k, viol, job)
        rjobs.append(job)
    guard_sigs = [s for s in picks if s.startswith("C10 D5 ")]
    _, rlays, rtraces, _ = run_harness(ctx, rjobs, "repro", workers=4)
    rres, _ = validate(ctx, rlays, rtraces)
    rfirst = {}
    for rtid, rk, rviol in first_violations(rtraces, rres):
        rtr = rtraces[rtid]
        rfirst[(rtr["layout"], rtr["chan"], rtr["mode"])] = (rtid, rk, rviol)
    for sig, (tid, k, viol, job) in sorted(picks.items()):
        tr = traces[tid]
        lay = lays[tr["layout"]]
        got = rfirst.get((job["id"], tr["chan"], tr["mode"]))
        if not got or got[1] != k or got[2] != viol:
            ctx.notes.append("not reproduced on re-run: %s (first %s, re-run %s)" % (sig, (k, viol), got and got[1:]))
            stats["not_reproduced"] = stats.get("not_reproduced", 0) + 1
            continue
        marks = {kk: vv[0] for kk, vv in res.get(tid, {}).items() if vv[0]}
        if viol[0] in ("Panic", "Hang", "Guard"):
            marks = {k: viol}
        rep = {"job": job, "chan": tr["chan"], "mode": tr["mode"], "event": k, "clauses": viol,
               "trace": render(tr, lay, upto=k, marks=marks), "instances_this_run": len(groups[sig]),
               "cmd": "python3 tools/verif.py replay C10 <this file>"}
        if sig in guard_sigs:
            crashed, tail = confirm_crash(ctx, job)
            if not crashed:
                ctx.notes.append("recursion guard fired but the unguarded run did not crash: " + tail[-300:])
                continue
            rep["crash_output"] = tail[-1500:]
        what = "%s [%s iterator, channel %s] clauses %s at command %d:\n    %s" % (
            sig, tr["mode"], tr["chan"], ",".join(viol), k, "\n    ".join(rep["trace"][-min(6, len(rep["trace"])):]))
        ctx.report(sig, what, rep)


def confirm_crash(ctx, job):
    """Run the guarded command for real in a process of its own: the recursion kills it."""
    inp = ctx.path("crash_job.ndjson")
    out = ctx.path("crash_out.ndjson")
    with open(inp, "w") as f:
        f.write(json.dumps(job) + "\n")
    rc, text, wall = ctx.go_test("cesium", ".", HARNESS, "^TestVerifIterRecord$", tag="crash", timeout=300,
                                 env={"VERIF_IN": inp, "VERIF_OUT": out, "VERIF_WORKERS": 1, "VERIF_NOGUARD": "1"})
    return (rc != 0 and "stack overflow" in text), text[:4000]


# ------------------------------------------------------------------ informational checks (python side)
def judged_counts(traces):
    """How many commands of each kind were judged (iterator positioned and not failed)."""
    cnt = {}
    for tr in traces:
        failed = False
        pos = False
        for e in tr["events"]:
            if e.get("panic") or e.get("hang") or e.get("guard"):
                break
            c = e["c"]
            if c == "script":
                if e.get("err"):
                    break
                cnt["script_events"] = cnt.get("script_events", 0) + 1
                continue
            if c in ("open", "setbounds"):
                failed, pos = False, False
            elif c in SEEKS:
                failed, pos = bool(e.get("err")), bool(e["ok"])
                cnt[c] = cnt.get(c, 0) + 1
            else:
                if pos and not failed:
                    cnt[c] = cnt.get(c, 0) + 1
                    cnt["steps_with_data"] = cnt.get("steps_with_data", 0) + (1 if e["frame"] else 0)
                    cnt["multi_series_frames"] = cnt.get("multi_series_frames", 0) + (1 if len(e["series"]) > 1 else 0)
                else:
                    cnt["unjudged_steps"] = cnt.get("unjudged_steps", 0) + 1
                if e.get("err"):
                    failed = True
    return cnt


def series_anomalies(traces):
    """Series TimeRange must contain its samples and series must be in time order (drift level)."""
    n = 0
    sample = None
    for tr in traces:
        for i, e in enumerate(tr["events"], 1):
            if e.get("panic") or e.get("hang") or e.get("guard") or e.get("err"):
                break
            off = 0
            prev_end = None
            for s in e.get("series") or []:
                part = e["frame"][off:off + s[2]]
                off += s[2]
                bad = any(p[0] >= 0 and not (s[0] <= p[0] < s[1]) for p in part) or (prev_end is not None and s[0] < prev_end)
                prev_end = s[1]
                if bad:
                    n += 1
                    if sample is None:
                        sample = "layout %d rid %d chan %s mode %s event %d" % (tr["layout"], tr["rid"], tr["chan"], tr["mode"], i)
    return n, sample


# ------------------------------------------------------------------ entry points
def run(ctx):
    import time
    thorough = ctx.tier == "thorough"
    t0 = time.time()
    walls = {}
    # 1. design check
    n, chunks = (5, [1, 2, 3]) if thorough else (4, [1, 2, 3])
    r = ctx.tlc(AREA, "CesiumIter", "mc.cfg", files={"mc.cfg": mc_cfg(n, chunks)}, tag="mc", timeout=3000,
                workers=6, coverage=thorough)
    design = {"N": n, "chunks": chunks, "distinct": r.distinct, "generated": r.generated, "violated": r.violated,
              "wall_s": round(r.wall, 1), "coverage_zero": r.coverage_zero[:10]}
    if r.violated:
        raise vlib.Inconclusive("design spec CesiumIter violates %s: the clauses do not imply the traversal claim" % r.violated)
    states, trans = r.distinct, r.generated
    walls["design_mc"] = round(time.time() - t0, 1)
    # 2. layouts, 3. command sequences
    T, layouts = gen_layouts(ctx, thorough)
    walls["layout_scripts"] = round(time.time() - t0, 1)
    maxt = 2 * T + 1
    fams, gst = gen_seqs(ctx, thorough, maxt)
    walls["command_sequences"] = round(time.time() - t0, 1)
    states += gst[0]
    trans += gst[1]
    n_layouts, concs_per, runs_per = (100, 3, 110) if thorough else (20, 2, 50)
    jobs = make_jobs(ctx, layouts, fams, maxt, n_layouts, concs_per, runs_per, thorough)
    # layouts that grow while the iterators are open (commits extend the domain an iterator sits on / append one)
    gjobs = make_grow_jobs(ctx, fams, maxt, 60 if thorough else 14, 20 if thorough else 8, first_id=len(jobs))
    if not gjobs:
        raise vlib.Inconclusive("no growing layouts generated")
    jobs += gjobs
    # 4. record
    summ, lays, traces, wall = run_harness(ctx, jobs, "rec", workers=8 if thorough else 6, timeout=2400)
    status = {}
    for l in lays.values():
        status[l["status"]] = status.get(l["status"], 0) + 1
    if status.get("error"):
        bad = [l for l in lays.values() if l["status"] == "error"][0]
        raise vlib.Inconclusive("layout construction failed: %s" % bad.get("note"))
    if status.get("ok", 0) + status.get("storemismatch", 0) < max(3, len(jobs) // 3):
        raise vlib.Inconclusive("too few usable layouts: %s" % status)
    # 5. validate
    walls["record"] = round(time.time() - t0, 1)
    res, tstats = validate(ctx, lays, traces)
    states += tstats["distinct"]
    trans += tstats["generated"]
    walls["trace_validation"] = round(time.time() - t0, 1)
    # 6. judge
    stats = {"layout_status": status, "layouts_distinct_generated": len(layouts), "traces": len(traces),
             "events": summ["events"], "go_wall_s": round(wall, 1), "panics": summ["panics"]}
    judge(ctx, jobs, lays, traces, res, stats)
    walls["judge_and_rerun"] = round(time.time() - t0, 1)
    stats["cumulative_wall_s"] = walls
    if stats.get("not_reproduced") and not ctx.violations and not ctx.known_hits:
        raise vlib.Inconclusive("clause failures that did not reproduce on a re-run: %s" % "; ".join(ctx.notes[-3:]))
    if status.get("storemismatch") and not ctx.violations and not ctx.known_hits:
        bad = [l for l in lays.values() if l["status"] == "storemismatch"][0]
        raise vlib.Inconclusive("DB.Read differs from the store model (%s) but no iterator clause failed: C01/C04's subject" % bad.get("note", "")[:300])
    drift = {}
    for tid, ks in res.items():
        for k, (v, d) in ks.items():
            for x in d:
                drift[x] = drift.get(x, 0) + 1
    stats["drift_clause_counts"] = drift
    stats["judged"] = judged_counts(traces)
    gids = {j["id"]: j for j in gjobs}
    grow = {"jobs": len(gjobs), "jobs_extending_a_domain": sum(1 for j in gjobs if j["extends"]),
            "jobs_appending_a_domain": sum(1 for j in gjobs if j["appends"]), "traces": 0, "script_diverged": 0,
            "steps_returning_samples_committed_under_the_iterator": 0, "layout_status": {}}
    for j in gjobs:
        stt = lays.get(j["id"], {}).get("status", "missing")
        grow["layout_status"][stt] = grow["layout_status"].get(stt, 0) + 1
    for tr in traces:
        if tr["layout"] not in gids:
            continue
        grow["traces"] += 1
        base = set(x[0] for x in lays[tr["layout"]]["samples"][tr["chan"]])
        grown = set()
        for e in tr["events"]:
            if e["c"] == "script":
                if e.get("err"):
                    grow["script_diverged"] += 1
                    ctx.notes.append("growth script diverged: " + e["err"][:200]) if grow["script_diverged"] <= 2 else None
                    break
                grown = set(p[0] for p in e.get("stored") or []) - base
            elif grown and any(p[0] in grown for p in e.get("frame") or []):
                grow["steps_returning_samples_committed_under_the_iterator"] += 1
    stats["growing_layouts"] = grow
    nser, sser = series_anomalies(traces)
    if nser:
        ctx.notes.append("series TimeRange anomalies (drift level): %d, e.g. %s" % (nser, sser))
    # vacuity guards
    jd = stats["judged"]
    need = ["seekfirst", "seeklast", "seekle", "seekge", "next", "prev", "nextauto", "prevauto"]
    lack = [c for c in need if jd.get(c, 0) == 0]
    multi = sum(1 for l in lays.values() if l["status"] in ("ok", "storemismatch") and any(len(l["pointers"][ch]) > 1 for ch in ("D", "V", "I")))
    stats["layouts_multi_domain"] = multi
    adj = inex = 0
    for l in lays.values():
        if l["status"] not in ("ok", "storemismatch"):
            continue
        idx = set(x[0] for x in l["samples"]["I"])
        ps = [l["pointers"][ch] for ch in ("I", "D", "V")]
        adj += any(a[1] == b[0] for p in ps for a, b in zip(p, p[1:]))
        inex += any(a[0] not in idx for p in ps for a in p)
    stats["layouts_with_adjacent_domains"] = adj
    stats["layouts_with_inexact_domain_start"] = inex
    stats["modes"] = {m: sum(1 for t in traces if t["mode"] == m) for m in ("unary", "stream")}
    if grow["steps_returning_samples_committed_under_the_iterator"] == 0 or grow["jobs_extending_a_domain"] == 0 \
            or grow["jobs_appending_a_domain"] == 0 or grow["script_diverged"] * 2 > grow["traces"]:
        raise vlib.Inconclusive("vacuous run: growing layouts not exercised: %s" % grow)
    if lack or multi == 0 or adj == 0 or inex == 0 or jd.get("steps_with_data", 0) == 0 or not stats["modes"]["stream"]:
        raise vlib.Inconclusive("vacuous run: commands never judged %s, multi-domain layouts %d, adjacent-domain (rollover) layouts %d, "
                                "inexact-domain-start layouts %d, stats %s" % (lack, multi, adj, inex, jd))
    samples = []
    for tr in traces[:2]:
        samples.append(render(tr, lays[tr["layout"]], upto=6))
    cov = {
        "states": states, "transitions": trans,
        "traces_validated_against_impl": len(traces),
        "samples": samples,
        "exhaustive": False,
        "design_run": design,
        "command_sequences": {k: len(v) for k, v in fams.items()},
        "harness_stats": stats,
        "rule": "CesiumIter.tla checked exhaustively (every layout over a %d-point time line, chunk sizes 1-3: the per-step clauses "
                "imply exactly-once traversal). Stored layouts = CesiumStore.tla scripts (TLC simulation, T=4, deletes, early "
                "writer starts; every prefix is a layout) replayed into a real cesium.DB under seeded concretisations (3 "
                "timestamp maps, data types, file caps forcing rollover). TLC-generated command sequences (bounded-exhaustive "
                "mixed depth 4, sweeps with one turn, random depth 8 with SetBounds) x bounds x chunk sizes {1,2,3,1e5} driven "
                "(also on layouts that GROW: the script's writers stay open and further open/write/commit/close steps run "
                "between the commands of an open iterator; every command must see exactly what was committed before it) "
                "through unary.Iterator and cesium.Iterator; after every command View/Value/Valid/Error recorded and every "
                "clause of the spec evaluated by TLC (CesiumIterTrace.tla) on the recorded transition" % (n + 1),
        "notes": ctx.notes[:20],
    }
    return ctx.finish("model_checking", cov, [
        "steps of an iterator whose last seek returned false, or that reported an Error(), are not judged until the next seek",
        "an error left by an automatic step when no sample remains in the direction of travel is not a violation",
        "an automatic step over index samples for which the data channel has no data may return an empty, invalid frame as long "
        "as the view moves on (drift clause AutoData)",
        "seek positions are constrained at drift level only; span ends (view.end + span) likewise",
        "layouts the store harness marks tainted (known C04 delete defect) or whose full read differs from the store model are skipped",
    ])


def replay(ctx, path):
    with open(path) as f:
        obj = json.load(f)
    job = dict(obj["job"], id=0)
    _, lays, traces, _ = run_harness(ctx, [job], "replay", workers=1)
    res, _ = validate(ctx, lays, traces)
    hits = [(tid, k, v) for tid, k, v in first_violations(traces, res)
            if traces[tid]["chan"] == obj["chan"] and traces[tid]["mode"] == obj["mode"]]
    for tid, k, v in hits:
        tr = traces[tid]
        sig = nonevent_signature(tr, k, v[0]) if v[0] in ("Panic", "Hang", "Guard") else classify(tr, lays[tr["layout"]], k, v)
        print("VIOLATION property=C10 replay=%s" % path)
        print("  " + sig)
        for ln in render(tr, lays[tr["layout"]], upto=k, marks={k: v}):
            print("    " + ln)
        return 1
    print("replay: the recorded commands satisfy every clause on the current tree")
    return 0


def selftest(ctx):
    """Binding self-test: a consistent synthetic trace is accepted; each single corruption is flagged
    with the expected clause."""
    stored = [[2, 1], [4, 2], [6, 3], [9, 4]]

    def ev(c, view, frame, valid, t=0, target=0, ok=True):
        return {"ev": "cmd", "c": c, "t": t, "target": target, "b": [1, 11], "chunk": 2, "view": view, "frame": frame,
                "valid": valid, "ok": ok, "err": ""}
    good = [{"ev": "layout", "tid": 0, "stored": stored},
            ev("open", [11, 11], [], False),
            ev("seekfirst", [2, 2], [], False),
            ev("next", [2, 5], [[2, 1], [4, 2]], True, target=5),
            ev("nextauto", [5, 10], [[6, 3], [9, 4]], True),
            ev("next", [10, 11], [], False, target=12),
            ev("prev", [7, 10], [[9, 4]], True, target=7)]
    cases = [("good", good, None, None)]

    def corrupt(name, idx, clause, **kw):
        t = json.loads(json.dumps(good))
        t[idx].update(kw)
        cases.append((name, t, idx, clause))
    corrupt("dropped sample", 3, "FrameIsView", frame=[[2, 1]])
    corrupt("views overlap by one tick", 4, "AdjFwd", view=[4, 10], frame=[[4, 2], [6, 3], [9, 4]])
    corrupt("sample at view end returned", 3, "FrameIsView", frame=[[2, 1], [4, 2], [6, 3]])
    corrupt("view outside bounds", 5, "InBounds", view=[10, 12])
    corrupt("wrong order", 4, "FrameIsView", frame=[[9, 4], [6, 3]])
    corrupt("seekfirst skips a sample", 2, "SeekFirstNoSkip", view=[3, 3])
    corrupt("stale value", 3, "FrameIsView", frame=[[2, 1], [4, 7]])
    # the store grows under the open iterator: a commit adds samples at 7 and 10 after the first step
    grown = stored + [[10, 6]]
    grown = sorted(grown + [[7, 5]])
    ggood = good[:4] + [{"ev": "grow", "stored": grown},
                        ev("nextauto", [5, 9], [[6, 3], [7, 5]], True),
                        ev("next", [9, 11], [[9, 4], [10, 6]], True, target=12)]
    cases.append(("grown store, commits seen", ggood, None, None))
    stale = json.loads(json.dumps(ggood))
    stale[6].update(frame=[[9, 4]])
    cases.append(("step misses a sample committed before it", stale, 6, "FrameIsView"))
    batches = []
    for i, (name, t, idx, clause) in enumerate(cases):
        t = json.loads(json.dumps(t))
        t[0]["tid"] = i
        batches.append([json.dumps(e) for e in t])
    res, _ = tlc_validate(ctx, [sum(batches, [])])
    ok = True
    for i, (name, t, idx, clause) in enumerate(cases):
        got = res.get(i, {})
        verdicts = {k: set(v[0]) & set(VERDICT) for k, v in got.items() if set(v[0]) & set(VERDICT)}
        if clause is None:
            good_ok = not verdicts
            print("selftest %-32s %s" % (name, "accepted" if good_ok else "REJECTED %s" % verdicts))
            ok = ok and good_ok
        else:
            hit = clause in verdicts.get(idx, set())
            print("selftest %-32s %s" % (name, "flagged %s at event %d" % (clause, idx) if hit else "MISSED (%s)" % verdicts))
            ok = ok and hit
    return 0 if ok else 1
