"""C10 - iterator steps return exactly the samples inside the reported view (DESIGN.md C10).

Pipeline
  1. TLC checks CesiumIter.tla exhaustively (the per-step clauses imply the full-traversal claim).
  2. CesiumStoreGen.tla (TLC) generates store scripts -> stored layouts (multi-domain, rollover by
     small file caps, holes from deletes, writers starting before their first sample).
  3. CesiumIterGen.tla (TLC) generates iterator command sequences (bounded-exhaustive "mixed" and
     "sweep" families, plus simulation).
  4. zz_verif_iter_test.go builds every layout in a real cesium.DB and drives unary.Iterator and
     cesium.Iterator with the sequences, recording View()/Value()/Valid()/Error() after every command.
  5. CesiumIterTrace.tla (TLC) evaluates every clause of CesiumIter.tla on every recorded transition.
  6. Failing verdict-bearing clauses are re-run once from scratch, given a structural signature and
     reported (known_findings.json turns matching ones into KNOWN-FINDING lines).
"""
import json
import os
import random
import threading

import vlib
import _cesium as C

AREA = "cesium"
HARNESS = ["zz_verif_store_test.go", "zz_verif_iter_test.go"]
VERDICT = ["FrameIsView", "ViewOrdered", "InBounds", "AdjFwd", "AdjBwd", "AutoProgressFwd", "AutoProgressBwd",
           "SeekFirstNoSkip", "SeekLastNoSkip", "SeekFinds", "TraversalOnce", "UnexpectedError"]
KINDS = ["ns1", "sub", "one", "x25", "whole", "over", "hop1", "hop2", "hop3"]


# ------------------------------------------------------------------ TLC configs
def mc_cfg(n, chunks):
    return """SPECIFICATION Spec
CONSTANTS
  N = %d
  Chunks = {%s}
INVARIANTS TypeOK FrameInv TraversalOnce FullTraversalOnce
PROPERTIES StepClauses Adjacent AutoClauses SeekClauses
CHECK_DEADLOCK FALSE
""" % (n, ", ".join(str(c) for c in chunks))


def gen_cfg(mode, depth, seekt, kinds, boundst, maxseeks=2):
    return """SPECIFICATION GSpec
CONSTANTS
  Depth = %d
  Mode = "%s"
  SeekT = {%s}
  Kinds = {%s}
  BoundsT = {%s}
  MaxSeeks = %d
INVARIANTS Emit
CHECK_DEADLOCK FALSE
""" % (depth, mode, ", ".join(str(x + 2) for x in seekt), ", ".join('"%s"' % k for k in kinds),
       ", ".join(str(x + 2) for x in boundst), maxseeks)


TRACE_CFG = """SPECIFICATION TSpec
CONSTANTS
  N = 1
  Chunks = {1}
INVARIANTS Report
CONSTRAINT Mark
POSTCONDITION Accepted
CHECK_DEADLOCK FALSE
"""


# ------------------------------------------------------------------ layouts
def layout_key(h):
    st = h[-1]["st"]
    return json.dumps([st["cm"], st["dm"]], sort_keys=True)


def layout_score(h):
    """Prefer layouts with several domains, holes and enough samples."""
    st = h[-1]["st"]
    score = 0
    for ch in ("I", "D", "V"):
        n = sum(1 for v in st["cm"][ch].values() if v)
        score += min(n, 4) + 2 * min(len(st["dm"][ch]), 3)
        times = sorted(int(t) for t, v in st["cm"][ch].items() if v)
        if times and any(b - a > 2 for a, b in zip(times, times[1:])):
            score += 2   # a hole
    if any(x["a"] == "delete" and x["res"] == "ok" for x in h):
        score += 2
    return score


def gen_layouts(ctx, thorough):
    """Store scripts from CesiumStoreGen (simulation): with deletes, with early writer starts, both.
    Every prefix of a generated script is a script too, so each walk yields several layouts."""
    T = 4
    n_sim = 100 if thorough else 12
    fam = (("del", dict(spec="GSpecSim", T=T, depth=14, deletes=True)),
           ("early", dict(spec="GSpecSim", T=T, depth=12, deletes=False, early=True)),
           ("earlydel", dict(spec="GSpecSim", T=T, depth=14, deletes=True, early=True)))
    res = {}
    errs = []

    def one(tag, kw):
        try:
            res[tag] = ctx.tlc(AREA, "CesiumStoreGen", "gl_%s.cfg" % tag, files={"gl_%s.cfg" % tag: C.gen_cfg(**kw)},
                               simulate="num=%d" % n_sim, depth=kw["depth"] + 2, workers=1, tag="lay_" + tag, timeout=1500)
        except vlib.Inconclusive as e:
            errs.append(str(e))

    ctx.spec_copy(AREA)   # before the threads: the copy itself is not thread safe
    ths = [threading.Thread(target=one, args=f) for f in fam]
    for t in ths:
        t.start()
    for t in ths:
        t.join()
    if errs:
        raise vlib.Inconclusive(errs[0])
    best = {}
    for tag, _ in fam:
        got = 0
        for h in res[tag].hists():
            for n in range(2, len(h) + 1):
                p = h[:n]
                if not any(v for ch in ("D", "V") for v in p[-1]["st"]["cm"][ch].values()):
                    continue
                k = layout_key(p)
                if k not in best or len(best[k][2]) > n:
                    best[k] = (layout_score(p), tag, p)
                got += 1
        if got == 0:
            raise vlib.Inconclusive("no layouts generated (%s)" % tag)
    uniq = [best[k] for k in sorted(best)]
    rnd = random.Random(ctx.seed)
    rnd.shuffle(uniq)
    uniq.sort(key=lambda x: -x[0])
    return T, uniq


# ------------------------------------------------------------------ command sequences
def gen_seqs(ctx, thorough, maxt):
    fams = {}
    allt = list(range(-1, maxt + 2))
    # bounded-exhaustive mixed: one seek + steps (+ a second seek)
    d = 4
    r = ctx.tlc(AREA, "CesiumIterGen", "gc.cfg", tag="gen_mixed", timeout=900, workers=4,
                files={"gc.cfg": gen_cfg("mixed", d, [1, 4], ["sub", "one", "x25", "hop1", "over"], [], maxseeks=1)})
    fams["mixed"] = list(r.hists())
    st = (r.distinct, r.generated)
    # sweeps: one step repeated, one turn
    r = ctx.tlc(AREA, "CesiumIterGen", "gc.cfg", tag="gen_sweep", timeout=900, workers=4,
                files={"gc.cfg": gen_cfg("sweep", 9 if not thorough else 12, [3, 6], KINDS, [])})
    fams["sweep"] = list(r.hists())
    st = (st[0] + r.distinct, st[1] + r.generated)
    # random long mixed sequences with setbounds and several seeks
    r = ctx.tlc(AREA, "CesiumIterGen", "gc.cfg", tag="gen_sim", timeout=900, workers=4,
                simulate="num=%d" % (3000 if thorough else 600), depth=10,
                files={"gc.cfg": gen_cfg("mixed", 8, allt, KINDS, [-1, 1, 2, 5, maxt + 1], maxseeks=3)})
    fams["sim"] = list(r.hists())
    for k, v in fams.items():
        if not v:
            raise vlib.Inconclusive("no command sequences generated (%s)" % k)
    return fams, st


def sweep_seqs(seqs):
    """Sweeps whose first command is seekfirst / seeklast: the full traversals."""
    return [s for s in seqs if s[0]["c"] in ("seekfirst", "seeklast")]


# ------------------------------------------------------------------ jobs
def conc_for(seed, i):
    rnd = random.Random(seed * 1000003 + i)
    return {"tsmap": rnd.randrange(3), "dtype": rnd.randrange(4), "vtype": rnd.randrange(3),
            "filecap": rnd.choice([0, 64, 40, 17, 200]), "persist": rnd.randrange(2), "gcthresh": rnd.randrange(2), "iter": 0}


def bounds_choices(maxt):
    full = [(-1, maxt + 1), (-2, maxt + 2), (-1, maxt + 2)]
    inner = [(a, b) for a in range(0, maxt) for b in range(a + 2, maxt + 2)]
    return full, inner


def make_jobs(ctx, layouts, fams, maxt, n_layouts, concs_per, runs_per, thorough):
    rnd = random.Random(ctx.seed * 7919 + 17)
    full, inner = bounds_choices(maxt)
    jobs = []
    rid = 0
    for li, (score, tag, h) in enumerate(layouts[:n_layouts]):
        for ci in range(concs_per):
            conc = conc_for(ctx.seed, li * 31 + ci)
            runs = []
            for fam, share in (("sweep", 0.45), ("mixed", 0.3), ("sim", 0.25)):
                pool = fams[fam]
                for _ in range(max(1, int(runs_per * share))):
                    seq = rnd.choice(pool)
                    a, b = rnd.choice(full) if rnd.random() < 0.4 else rnd.choice(inner)
                    modes = ["unary", "stream"] if rnd.random() < 0.4 else ["unary"]
                    runs.append({"rid": rid, "chans": ["D", "V", "I"], "modes": modes, "a": a, "b": b,
                                 "chunk": rnd.choice([1, 2, 3, 100000]), "cmds": seq, "fam": fam})
                    rid += 1
            jobs.append({"id": len(jobs), "hist": h, "conc": conc, "maxt": maxt, "runs": runs, "tag": tag})
    return jobs


# ------------------------------------------------------------------ harness
def run_harness(ctx, jobs, tag, workers=6, timeout=1500):
    inp = ctx.path("jobs_%s.ndjson" % tag)
    out = ctx.path("rec_%s.ndjson" % tag)
    with open(inp, "w") as f:
        for j in jobs:
            f.write(json.dumps(j, separators=(",", ":")) + "\n")
    rc, text, wall = ctx.go_test("cesium", ".", HARNESS, "^TestVerifIterRecord$",
                                 env={"VERIF_IN": inp, "VERIF_OUT": out, "VERIF_WORKERS": workers}, tag=tag, timeout=timeout)
    rows = ctx.read_ndjson(out)
    summ = [r for r in rows if r.get("kind") == "summary"]
    if rc != 0 or not summ:
        raise vlib.Inconclusive("iterator harness failed rc=%s:\n%s" % (rc, text[-3000:]))
    lays = {r["v"]["layout"]: r["v"] for r in rows if r.get("kind") == "layout"}
    traces = [r["v"] for r in rows if r.get("kind") == "trace"]
    return summ[0], lays, traces, wall


# ------------------------------------------------------------------ traces -> TLC events
def to_events(trace, lay, tid):
    """Rank-compress every timestamp of one recorded trace; cut at a panic / hang event."""
    samples = lay["samples"][trace["chan"]]
    evs = []
    for e in trace["events"]:
        if e.get("panic") or e.get("hang") or e.get("guard") or (e["c"] == "open" and e.get("err", "").startswith("open:")):
            break
        evs.append(e)
    pts = set(s[0] for s in samples)
    for e in evs:
        pts.update(e["b"])
        pts.update(e["view"])
        pts.add(e["t"])
        pts.add(e["target"])
        pts.update(p[0] for p in e["frame"] if p[0] >= 0)
    rank = {v: i for i, v in enumerate(sorted(pts))}
    out = [{"ev": "layout", "tid": tid, "stored": [[rank[s[0]], s[2]] for s in samples]}]
    for e in evs:
        out.append({"ev": "cmd", "c": e["c"], "t": rank[e["t"]], "target": rank[e["target"]],
                    "b": [rank[e["b"][0]], rank[e["b"][1]]], "chunk": min(e["chunk"], 1000),
                    "view": [rank[e["view"][0]], rank[e["view"][1]]],
                    "frame": [[rank[p[0]] if p[0] >= 0 else -1, p[1]] for p in e["frame"]],
                    "valid": bool(e["valid"]), "ok": bool(e["ok"]), "err": e.get("err", "")})
    return out


def tlc_validate(ctx, batches):
    """Run CesiumIterTrace over each batch (list of event lists); return {tid: {k: (viol, drift)}}."""
    d = ctx.spec_copy(AREA)
    with open(os.path.join(d, "CesiumIterTrace.tla")) as f:
        mod = f.read()
    results = {}
    stats = {"distinct": 0, "generated": 0, "events": 0}
    errors = []
    lock = threading.Lock()
    sem = threading.Semaphore(5)

    def one(i, lines):
        with sem:
            name = "trace_%d.ndjson" % i
            modname = "CesiumIterTrace_%d" % i
            try:
                r = ctx.tlc(AREA, modname, "tv.cfg", workers=1, tag="tv_%d" % i, timeout=1500, heap="3g",
                            files={name: "\n".join(lines) + "\n", "tv.cfg": TRACE_CFG,
                                   modname + ".tla": mod.replace("MODULE CesiumIterTrace", "MODULE " + modname)
                                   .replace('"trace.ndjson"', '"%s"' % name)})
            except vlib.Inconclusive as e:
                with lock:
                    errors.append(str(e))
                return
            hw = [b for b in r.tagged("HW")]
            if r.violated or r.postcondition_failed or hw or r.error or r.rc != 0:
                with lock:
                    errors.append("trace validation batch %d did not reach the end of the trace (hw=%s, violated=%s, err=%s)" % (
                        i, hw, r.violated, r.error))
                return
            with lock:
                stats["distinct"] += r.distinct
                stats["generated"] += r.generated
                stats["events"] += len(lines)
                for body in r.tagged("VIOL"):
                    try:
                        v = json.loads(json.loads(body))
                    except Exception:
                        errors.append("cannot parse VIOL line: " + body[:200])
                        continue
                    results.setdefault(v["tid"], {})[v["k"]] = (v["viol"], v["drift"])

    threads = []
    for i, lines in enumerate(batches):
        t = threading.Thread(target=one, args=(i, lines))
        t.start()
        threads.append(t)
    for t in threads:
        t.join()
    if errors:
        raise vlib.Inconclusive("; ".join(errors[:3]))
    return results, stats


def validate(ctx, lays, traces, batch_events=40000):
    batches = []
    cur = []
    for tid, tr in enumerate(traces):
        lay = lays[tr["layout"]]
        evs = to_events(tr, lay, tid)
        if len(cur) + len(evs) > batch_events and cur:
            batches.append(cur)
            cur = []
        cur.extend(json.dumps(e, separators=(",", ":")) for e in evs)
    if cur:
        batches.append(cur)
    return tlc_validate(ctx, batches)
