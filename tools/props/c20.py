"""C20 - streamers see an ordered, filtered, duplicate-free view of writes (DESIGN.md section 3, C20).

1. spec/relay/Relay.tla is model-checked: Subsequence, OnlySubscribed, OnlyAuthorized, ReadyGetsAll,
   ReadyGetsWhole, deadlock freedom, WritersProgress / CloseCompletes / OpenCompletes / ReadyEventually
   (and: the variant WITHOUT the separate drain goroutine must deadlock and starve writers; the window
   "DB.Close with open writers" must starve writers - vacuity / as-is checks).
2. RelayGen.tla (TLC -simulate) emits orders of application calls; the harness
   harness/cesium/zz_verif_relay_test.go makes those calls on a real cesium.DB from one goroutine per
   writer / streamer and records every call / return / frame read, in two configurations:
     complete  slow-consumer timeout far above any watchdog, every consumer AlwaysReady: completeness,
               ordering, filtering, and every call returns under a generous watchdog;
     lossy     production 20 ms timeout, sleepy consumers: subsequence / no duplicate / no reorder /
               filtering, writers finish.
3. RelayTrace.tla (TLC) decides whether each recorded trace is a behaviour of Relay. A rejected trace is
   classified against the clauses of the property statement by `classify`; the script is re-executed
   from scratch and only a reproduced contradiction of the statement is reported.
4. A directed probe: DB.Close while a stream-mode writer is open, then Write.
"""
import copy
import json
import os
import random
import re

import vlib

AREA = "relay"
HARNESS = ["zz_verif_relay_test.go"]
NREP = 40                 # re-executions of a rejected script (racy defects need the schedule again)
COMPLETE_TIMEOUT_MS = 120000   # "complete": must exceed the per-call watchdog, so that a relay that
WATCHDOG_MS = 30000            # waits for a consumer nobody serves is seen as blocked, not as slow
MIXED_TIMEOUT_MS = 50          # "mixed": short enough that stalled consumers are timed out many times per
                               # scenario, long against scheduling jitter (scenarios that saw a gap are set aside)
SINGLE_TIMEOUT = 150           # seconds TLC may spend on one scenario's trace before it is set aside


def tla_set(xs):
    return "{" + ", ".join('"%s"' % x for x in sorted(xs)) + "}"


def tla_setset(xss):
    return "{" + ", ".join(tla_set(x) for x in xss) + "}"


# ------------------------------------------------------------------ profiles
def profiles(thorough):
    """Fixed casts (writers with their channels/authorities/modes, streamers); scripts vary."""
    p1 = {
        "name": "virt", "B": 1, "outcap": 1, "pad": 0,
        "keys": [{"id": "k1", "kind": "virtual"}, {"id": "k2", "kind": "virtual"}],
        # w1 holds k1, w2 holds k2 (each other's frames lose one series); w3 holds nothing
        # while w1 is open and becomes k1's holder afterwards
        "writers": [
            {"id": "w1", "keys": ["k1", "k2"], "auth": {"k1": 200, "k2": 100}, "mode": "stream", "sync": True, "late": False},
            {"id": "w2", "keys": ["k1", "k2"], "auth": {"k1": 100, "k2": 200}, "mode": "stream", "sync": False, "late": True},
            {"id": "w3", "keys": ["k1"], "auth": {"k1": 150}, "mode": "stream", "sync": True, "late": False},
        ],
        "streamers": ["s1", "s2", "s3"], "sleepy_lossy": ["s2", "s3"], "stalled_mixed": ["s2", "s3"],
        "subs": [["k1"], ["k2"], ["k1", "k2"], []], "opensubs": [["k1", "k2"], ["k1"]],
        "maxseq": 4, "minseq": 2, "maxresub": 2,
    }
    p2 = {
        "name": "split", "B": 2, "outcap": 1, "pad": 0,
        "keys": [{"id": "k1", "kind": "virtual"}, {"id": "k3", "kind": "index"},
                 {"id": "k4", "kind": "data", "index": "k3"}, {"id": "k5", "kind": "data", "index": "k3"}],
        # an indexed, persisted group under PARTIAL authority: w1 (persists) holds the index k3 and k5
        # but not k4; w2 (stream only) holds k4 but not the index, so its whole group is held back
        # until w1 closes and it takes over; w3 writes the data channel k5 ONLY, below w1;
        # w4 a plain virtual-channel writer with several requests in flight
        "writers": [
            {"id": "w1", "keys": ["k3", "k4", "k5"], "auth": {"k3": 200, "k4": 100, "k5": 200}, "mode": "persist", "sync": True, "late": False},
            {"id": "w2", "keys": ["k3", "k4"], "auth": {"k3": 100, "k4": 200}, "mode": "stream", "sync": True, "late": False},
            # stream-only, on the persisted data channel k5 ALONE, never its holder (auto-commit off: with it
            # on, the commit of a data-only writer needs an index sample exactly at its Start)
            {"id": "w3", "keys": ["k5"], "auth": {"k5": 100}, "mode": "stream", "sync": True, "late": False,
             "no_autocommit": True},
            {"id": "w4", "keys": ["k1"], "auth": {"k1": 255}, "mode": "stream", "sync": False, "late": False},
            # one writer (ErrOnUnauthorized = false) whose frames span the persisted group AND the virtual
            # channel k1, outranked on both kinds (index/data by w1 and w2, k1 by w4): the persisted pass
            # refuses its group, the virtual pass must still refuse k1
            {"id": "w5", "keys": ["k3", "k4", "k1"], "auth": {"k3": 50, "k4": 50, "k1": 50}, "mode": "stream",
             "sync": True, "late": False, "span": True},
        ],
        "close_after": {"w1": ["w3"]},
        "streamers": ["s1", "s2"], "sleepy_lossy": ["s2"],
        "subs": [["k4", "k5"], ["k1", "k3"], ["k1", "k3", "k4", "k5"], []], "opensubs": [["k1", "k3", "k4", "k5"], ["k3", "k4", "k5"]],
        "maxseq": 3, "minseq": 2, "maxresub": 2,
    }
    # the same group with the modes swapped: the INDEX holder that lacks the data channel k4 is stream-only,
    # the k4 holder persists (and takes the whole group over, persisting, once the index holder closes)
    p2b = copy.deepcopy(p2)
    p2b["name"] = "split2"
    p2b["writers"][0]["mode"], p2b["writers"][1]["mode"] = "stream", "persist"
    p2b["only_modes"] = ("complete",) if not thorough else ("complete", "lossy")
    p2b["n_quick"] = 40
    ps = [p1, p2, p2b]
    if thorough:
        p3 = copy.deepcopy(p1)
        # frames of >= 128 series take Frame.filter's copying path instead of the bit mask
        p3.update(name="wide", pad=130, B=2, outcap=2)
        ps.append(p3)
    return ps


def wkeys_def(p):
    return "[w \\in Writers |-> CASE " + " [] ".join(
        'w = "%s" -> %s' % (w["id"], tla_set(w["keys"])) for w in p["writers"]) + "]"


def auth_def(p):
    keys = [k["id"] for k in p["keys"]]
    rows = []
    for w in p["writers"]:
        inner = " [] ".join('k = "%s" -> %d' % (k, w["auth"].get(k, 0)) for k in keys)
        rows.append('w = "%s" -> [k \\in Keys |-> CASE %s]' % (w["id"], inner))
    return "[w \\in Writers |-> CASE " + " [] ".join(rows) + "]"


def idx_def(p):
    rows = ['k = "%s" -> "%s"' % (k["id"], k["index"]) for k in p["keys"] if k.get("index")]
    if not rows:
        return '[k \\in Keys |-> "none"]'
    return "[k \\in Keys |-> CASE " + " [] ".join(rows + ['OTHER -> "none"']) + "]"


def close_after_def(p):
    ca = p.get("close_after", {})
    rows = ['w = "%s" -> %s' % (w, tla_set(v)) for w, v in ca.items()]
    if not rows:
        return "[w \\in Writers |-> {}]"
    return "[w \\in Writers |-> CASE " + " [] ".join(rows + ["OTHER -> {}"]) + "]"


def mc_module(name, base, p):
    return """---- MODULE %s ----
EXTENDS %s
MC_WKeys == %s
MC_Auth == %s
MC_Idx == %s
MC_CloseAfter == %s
MC_Subs == %s
MC_OpenSubs == %s
MC_InitConns == <<%s>>
MC_InitSub == %s
====
""" % (name, base, wkeys_def(p), auth_def(p), idx_def(p), close_after_def(p), tla_setset(p["subs"]),
       tla_setset(p["opensubs"]), ", ".join('"%s"' % x for x in p.get("init_conns", [])),
       tla_set(p.get("init_sub", [])))


def consts(p, **kw):
    d = dict(
        Writers=tla_set(w["id"] for w in p["writers"]),
        Streamers=tla_set(p["streamers"]),
        Keys=tla_set(k["id"] for k in p["keys"]),
        B=p["B"], OutCap=p["outcap"], WQ=1, MaxSeq=p["maxseq"], MaxResub=p["maxresub"],
        Ready=tla_set([]), SeparateDrain="TRUE", AllowOrphan="FALSE",
        Window_CloseWithOpenWriters="FALSE", CloseModes=tla_set(["graceful", "cancel"]),
        LateOpen=tla_set(w["id"] for w in p["writers"] if w["late"]),
        TimerRearm="TRUE", SleepForever="FALSE",
    )
    d.update(kw)
    lines = ["  %s = %s" % (k, v) for k, v in d.items()]
    lines += ["  WKeys <- MC_WKeys", "  Auth <- MC_Auth", "  Idx <- MC_Idx", "  Subs <- MC_Subs", "  OpenSubs <- MC_OpenSubs",
              "  InitConns <- MC_InitConns", "  InitSub <- MC_InitSub"]
    return "\n".join(lines)


SAFETY = "TypeOK Subsequence OnlyAuthorized OnlySubscribed ReadyGetsAll ReadyGetsWhole"


# ------------------------------------------------------------------ 1. design checks
def design_cast(writers, streamers, subs, opensubs, maxseq, maxresub, B=1, late=(), split=False):
    ws = {
        "w1": {"id": "w1", "keys": ["k1", "k2"], "auth": {"k1": 2, "k2": 2}, "late": "w1" in late},
        "w2": {"id": "w2", "keys": ["k1"], "auth": {"k1": 1, "k2": 0}, "late": "w2" in late},
    }
    keys = [{"id": "k1"}, {"id": "k2"}]
    if split:
        # k1 indexes k2; w1 holds the index but not the data channel, w2 the data channel but not the index
        keys = [{"id": "k1"}, {"id": "k2", "index": "k1"}]
        ws = {"w1": {"id": "w1", "keys": ["k1", "k2"], "auth": {"k1": 2, "k2": 1}, "late": False},
              "w2": {"id": "w2", "keys": ["k1", "k2"], "auth": {"k1": 1, "k2": 2}, "late": False}}
    return {"keys": keys, "writers": [ws[w] for w in writers], "streamers": streamers,
            "subs": subs, "opensubs": opensubs, "maxseq": maxseq, "maxresub": maxresub, "B": B, "outcap": 1}


def design(ctx, thorough):
    """Exhaustive TLC runs on Relay.tla. Returns (states, transitions, runs)."""
    runs = []
    never = []
    COV_RUNS = ("qb", "qo", "ql")
    workers = min(12, vlib.NCPU) if thorough else min(8, vlib.NCPU)

    def go(tag, cast, props="", expect=None, deadlock=True, **kw):
        cfg = "SPECIFICATION Spec\nCONSTANTS\n%s\nINVARIANTS %s\n%s%s" % (
            consts(cast, **kw), SAFETY, ("PROPERTIES %s\n" % props) if props else "",
            "" if deadlock else "CHECK_DEADLOCK FALSE\n")
        r = ctx.tlc(AREA, "RelayMC_" + tag, tag + ".cfg", workers=workers, timeout=3000, tag="mc_" + tag,
                    files={tag + ".cfg": cfg, "RelayMC_%s.tla" % tag: mc_module("RelayMC_" + tag, "Relay", cast)},
                    expect_violation=expect is not None, coverage=(tag in COV_RUNS))
        dead = any("Deadlock reached" in ln for ln in r.lines())
        temporal = any(ln.startswith("Error: Temporal propert") for ln in r.lines())
        got = r.violated or ("deadlock" if dead else None) or ("temporal" if temporal else None)
        runs.append({"cfg": tag, "distinct": r.distinct, "generated": r.generated, "wall_s": round(r.wall, 1),
                     "result": got or "holds", "expected": expect or "holds"})
        if expect is None and got:
            # a design-level counterexample is not a verdict about the code; but every clause was
            # checked to hold when this module was written: the spec no longer says what it said
            raise vlib.Inconclusive("design check %s: %s on Relay.tla (spec drift?)" % (tag, got))
        if expect is not None and got != expect:
            raise vlib.Inconclusive("vacuity check %s: expected %s, TLC says %s" % (tag, expect, got))
        if tag in COV_RUNS:
            never.append(set(r.coverage_zero))
        return r

    k12 = [["k1", "k2"]]
    # filtering + authority hand-over + re-subscription, one ready streamer
    go("qa", design_cast(["w1", "w2"], ["s1"], [["k2"]], k12, 2, 1), Ready=tla_set(["s1"]),
       CloseModes=tla_set(["graceful"]))
    # a ready and a sleepy streamer, connect / disconnect / timeouts
    go("qb", design_cast(["w1"], ["s1", "s2"], [["k1"], ["k2"]], k12, 2, 0), Ready=tla_set(["s1"]),
       CloseModes=tla_set(["graceful"]))
    # cancel-mode close and orphaning by DBClose
    go("qo", design_cast(["w1"], ["s1"], [["k2"], []], k12, 2, 1), Ready=tla_set(["s1"]), AllowOrphan="TRUE")
    # a writer with more authority opens (gate by gate) while the other one is writing
    go("ql", design_cast(["w1", "w2"], ["s1"], [["k1"]], k12, 2 if thorough else 1, 0, late=("w1",)), Ready=tla_set(["s1"]),
       CloseModes=tla_set(["graceful"]))
    # an indexed group under split authority (index holder / data-channel holder), hand-over at close
    go("qg", design_cast(["w1", "w2"], ["s1"], [["k2"]], k12, 2, 0, split=True), Ready=tla_set(["s1"]),
       CloseModes=tla_set(["graceful"]))
    live = "WritersProgress CloseCompletes OpenCompletes ResubCompletes"
    go("live", design_cast(["w1"], ["s1", "s2"], [["k2"]], k12, 1, 0), props=live + " ReadyEventually",
       Ready=tla_set(["s1"]), CloseModes=tla_set(["graceful"]))
    go("live2", design_cast(["w1"], ["s1"], [["k2"]], k12, 2, 1), props=live, Ready=tla_set([]))
    # vacuity: without the separate drain goroutine the relay deadlocks and writers starve
    nd = design_cast(["w1"], ["s1", "s2"], [["k2"]], k12, 2, 0)
    go("nodrain_dl", nd, expect="deadlock", Ready=tla_set(["s1"]), SeparateDrain="FALSE",
       CloseModes=tla_set(["graceful"]))
    nd = design_cast(["w1"], ["s1"], [["k2"]], k12, 3, 0)   # 3 frames: delta, inlet, and one left waiting
    go("nodrain_wp", nd, props="WritersProgress", expect="temporal", deadlock=False, Ready=tla_set(["s1"]),
       SeparateDrain="FALSE", CloseModes=tla_set(["graceful"]))
    # as-is window: DB.Close with open writers starves them (db.go documents it)
    go("window", design_cast(["w1"], ["s1"], [["k2"]], k12, 2, 0), props="WritersProgress", expect="temporal",
       deadlock=False, Ready=tla_set(["s1"]), Window_CloseWithOpenWriters="TRUE", CloseModes=tla_set(["graceful"]))
    # one always-ready streamer next to TWO streamers whose consumers may stall for good, at the same
    # time: every outlet of a frame's fan-out times out on its own, the ready one gets everything and
    # writers keep going ...
    mx = design_cast(["w1"], ["s1", "s2", "s3"], [["k2"]], k12, 4 if thorough else 3, 0)
    mx.update(init_conns=["s2", "s3", "s1"], init_sub=["k1", "k2"])   # all three connected from the start
    go("mixed", mx, props="WritersProgress ReadyEventually", deadlock=False, Ready=tla_set(["s1"]),
       CloseModes=tla_set([]), SleepForever="TRUE")
    # ... vacuity: with one timeout budget per frame (timer not re-armed) the relay parks behind the
    # second stalled outlet: the ready streamer starves and writers block
    go("norearm", mx, props="WritersProgress ReadyEventually", expect="temporal", deadlock=False, Ready=tla_set(["s1"]),
       CloseModes=tla_set([]), SleepForever="TRUE", TimerRearm="FALSE")
    if thorough:
        go("ta", design_cast(["w1"], ["s1", "s2"], [["k1"], ["k2"]], k12, 2, 1), Ready=tla_set(["s1"]),
           CloseModes=tla_set(["graceful"]))
        go("tb", design_cast(["w1", "w2"], ["s1"], [["k1"], ["k2"]], k12, 2, 1, B=2), Ready=tla_set(["s1"]))
        go("tc", design_cast(["w1"], ["s1", "s2"], [["k2"]], k12, 3, 0), Ready=tla_set(["s1"]),
           CloseModes=tla_set(["graceful"]))
    zero = set.intersection(*never) - {"WriterOpen"} if never else set()
    if zero:
        raise vlib.Inconclusive("design check: actions never taken: %s" % sorted(zero))
    ok = [r for r in runs if r["expected"] == "holds"]
    return sum(r["distinct"] for r in ok), sum(r["generated"] for r in ok), runs


# ------------------------------------------------------------------ 2. scripts
def gen_scripts(ctx, p, n, tag):
    cfg = "SPECIFICATION GSpec\nCONSTANTS\n%s\n  MinSeq = %d\n  CloseAfter <- MC_CloseAfter\nINVARIANTS Emit\nCHECK_DEADLOCK FALSE\n" % (
        consts(p, AllowOrphan="TRUE", Ready=tla_set(p["streamers"][:1])), p["minseq"])
    mod = "RelayGenMC_" + tag
    r = ctx.tlc(AREA, mod, tag + ".cfg", workers=2, timeout=600, tag="gen_" + tag,
                simulate="num=%d" % (n * 3), depth=400,
                files={tag + ".cfg": cfg, mod + ".tla": mc_module(mod, "RelayGen", p)})
    seen, out = set(), []
    for h in r.hists():
        key = json.dumps(h, sort_keys=True)
        if key in seen:
            continue
        seen.add(key)
        nw = sum(1 for o in h if o["a"] == "write")
        ns = sum(1 for o in h if o["a"] == "sopen")
        if nw >= 3 and ns >= 1:
            out.append(h)
    return out


def decorate(script, rnd, mode, p=None):
    """Scheduling the model leaves open: does the dispatcher wait for a call to return before it
    starts the next one, or how long does it pause; where the complete configuration quiesces;
    mixed: where the stall-class consumers stop and resume reading."""
    script = list(script)
    if mode == "mixed":
        ops = decorate(script, rnd, "complete", p)
        st = set(p["stalled_mixed"])
        allkeys = sorted(k["id"] for k in p["keys"])
        for o in ops:
            if o["a"] in ("sopen", "ssub") and o["p"] in st:
                o["ks"] = allkeys          # a stalled consumer is offered every frame
        # one whole phase: the stall-class streamers are opened first, then ALL their consumers stop at
        # once; everything the script does with writers and with the always-ready streamers happens
        # while they are stopped (every frame beyond what their pipelines hold is timed out for each of
        # them); the relay must still drain for the ready consumers (fence) before they resume; what the
        # script does with the stall-class streamers themselves comes after that
        sopens = [o for o in ops if o["a"] == "sopen" and o["p"] in st]
        later = [o for o in ops if o["a"] == "sclose" and o["p"] not in st] + \
                [o for o in ops if o["a"] != "sopen" and o["p"] in st]
        dbc = [o for o in ops if o["a"] == "dbclose"]
        mid = [o for o in ops if o["p"] not in st and o["a"] not in ("dbclose", "sclose")]
        for o in sopens:
            o["wait"], o["fence"] = True, False
        for o in mid:
            if o["a"] == "write":
                # the relay is saturated during the stall: each writer's requests follow one another
                # as fast as its Write calls return
                o["wait"], o["delay_us"], o["fence"] = False, 0, False
        blank = {"p": "", "ks": [], "m": "", "wait": False, "delay_us": 0}
        return sopens + [dict(blank, a="stall", fence=False)] + mid + [dict(blank, a="unstall", fence=True)] + later + dbc
    if p:
        # two requests of a non-Sync writer back to back (both in flight inside the writer at once)
        nosync = {w["id"] for w in p["writers"] if not w["sync"]}
        i = 0
        while i < len(script):
            o = script[i]
            if o["a"] == "write" and o["p"] in nosync and rnd.random() < 0.6:
                later = [j for j in range(i + 1, len(script)) if script[j]["a"] == "write" and script[j]["p"] == o["p"]]
                for j in later[:rnd.choice([1, 1, 2])]:
                    script.insert(i + 1, script.pop(j))
                    i += 1
            i += 1
    ops = []
    fence_next = False
    for o in script:
        op = {"a": o["a"], "p": o["p"], "ks": sorted(o["ks"]), "m": o["m"], "fence": False,
              "wait": rnd.random() < 0.45, "delay_us": rnd.choice([0, 0, 30, 200, 1500])}
        if o["a"] == "ssub" and not o["ks"]:
            op["m"] = rnd.choice(["nil", "empty"])     # a request with a nil / an empty channel list
        if o["a"] == "write" and p and not [w for w in p["writers"] if w["id"] == o["p"]][0]["sync"] and rnd.random() < 0.7:
            op["wait"], op["delay_us"] = False, 0     # bursts: several requests of one writer in flight
            burst = True
        else:
            burst = False
        if mode == "complete":
            if o["a"] == "dbclose":
                op["fence"] = True
            elif o["a"] == "sclose":
                op["fence"] = rnd.random() < 0.6
            elif o["a"] == "ssub":
                op["fence"] = rnd.random() < 0.4
            elif fence_next:
                op["fence"] = True
            fence_next = o["a"] == "write" and rnd.random() < 0.15
        else:
            if o["a"] == "write" and not burst:
                op["delay_us"] = rnd.choice([0, 200, 3000, 12000, 25000])
        ops.append(op)
    return ops


def forced_scripts(p):
    """Directed scenarios every run executes (complete configuration): a streamer re-subscribes to NO
    channel (once as a nil, once as an empty list) while a second streamer keeps its subscription; the
    holder of a channel both were subscribed to keeps writing; then it subscribes again."""
    W = [w for w in p["writers"] if not w["late"]]
    best = None
    for w in W:
        for k in w["keys"]:
            if all(o["id"] == w["id"] or k not in o["keys"] or o["auth"].get(k, 0) < w["auth"].get(k, 0) for o in p["writers"]):
                best = best or (w["id"], k)
    if not best or len(p["streamers"]) < 2:
        return []
    w, k = best
    s1, s2 = p["streamers"][:2]
    sub = sorted(set([k] + [x["id"] for x in p["keys"]][:2]))

    def op(a, pr, ks=(), m="", fence=False):
        return {"a": a, "p": pr, "ks": list(ks), "m": m, "fence": fence, "wait": True, "delay_us": 0}
    # writers are closed dependencies first (close_after)
    order, ca = [], p.get("close_after", {})
    for x in sorted(W, key=lambda x: x["id"] in ca):
        order.append(x["id"])
    out = []
    for how in ("nil", "empty"):
        out.append([
            op("sopen", s1, sub), op("sopen", s2, sub), op("write", w),
            op("ssub", s1, [], how, fence=True), op("write", w), op("write", w),
            op("ssub", s1, sub, fence=True), op("write", w),
            op("sclose", s1, m="graceful", fence=True), op("sclose", s2, m="graceful"),
        ] + [op("wclose", x) for x in order] + [op("dbclose", "db", fence=True)])
    # a writer whose frames span a persisted group and a virtual channel, outranked on both, writes
    # while one streamer listens to the virtual channel and one to the persisted data channel
    kind = {x["id"]: x["kind"] for x in p["keys"]}
    for sp in [x for x in W if x.get("span")]:
        vk = [x for x in sp["keys"] if kind[x] == "virtual"]
        dk = [x for x in sp["keys"] if kind[x] == "data"]
        if vk and dk:
            out.append([op("sopen", s1, vk), op("sopen", s2, dk + [x for x in sp["keys"] if kind[x] == "index"]),
                        op("write", sp["id"]), op("write", sp["id"]), op("write", w),
                        op("ssub", s2, vk + dk, fence=True), op("write", sp["id"]),
                        op("sclose", s1, m="graceful", fence=True), op("sclose", s2, m="cancel")] +
                       [op("wclose", x) for x in order] + [op("dbclose", "db", fence=True)])
    return out


def harness_profile(p, mode):
    return {
        "name": p["name"], "mode": mode, "writers": p["writers"], "streamers": p["streamers"],
        "sleepy": p["sleepy_lossy"] if mode == "lossy" else [], "keys": p["keys"], "B": p["B"],
        "stalled": p.get("stalled_mixed", []) if mode == "mixed" else [],
        "outcap": p["outcap"],
        "timeout_ms": {"complete": COMPLETE_TIMEOUT_MS, "lossy": 20, "mixed": MIXED_TIMEOUT_MS}[mode],
        "max_sleep_ms": 70 if mode == "lossy" else 0, "pad": p.get("pad", 0),
        "close_after": p.get("close_after", {}),
    }


def run_harness(ctx, p, mode, scenarios, tag, race=False, workers=None, probe=False):
    """Runs scenarios; re-invokes the harness for the remainder after a blocked scenario."""
    results = {}
    todo = list(scenarios)
    rounds = 0
    while (todo or probe) and rounds < 4:
        rounds += 1
        inp = {"profile": harness_profile(p, mode), "scenarios": todo, "watchdog_ms": WATCHDOG_MS,
               "workers": workers or (4 if mode == "lossy" else 3), "probe": probe}
        ip, op = ctx.path("in_%s_%d.json" % (tag, rounds)), ctx.path("out_%s_%d.ndjson" % (tag, rounds))
        with open(ip, "w") as f:
            json.dump(inp, f)
        rc, text, wall = ctx.go_test("cesium", ".", HARNESS, "^TestVerifRelay$", env={"VERIF_IN": ip, "VERIF_OUT": op},
                                     race=race, tag="go_%s_%d" % (tag, rounds), timeout=2400)
        if "WARNING: DATA RACE" in text:
            i = text.index("WARNING: DATA RACE")
            raise vlib.Inconclusive("the race detector reported a data race while the relay harness ran "
                                    "(C09's subject, not decided here):\n" + text[i:i + 2500])
        rows = ctx.read_ndjson(op)
        if probe:
            if not rows:
                raise vlib.Inconclusive("probe produced no result rc=%s:\n%s" % (rc, text[-1500:]))
            return rows[0]
        got = [r for r in rows if "i" in r]
        if rc != 0 and not got:
            raise vlib.Inconclusive("relay harness failed rc=%s:\n%s" % (rc, text[-2500:]))
        for r in got:
            results[r["i"]] = r
        blocked = [r for r in got if r["status"] in ("blocked", "starved")]
        todo = [s for s in todo if s["i"] not in results]
        if not blocked:
            if todo:
                raise vlib.Inconclusive("relay harness stopped early rc=%s:\n%s" % (rc, text[-2500:]))
            break
        if len([r for r in results.values() if r["status"] == "blocked"]) >= 2:
            break   # enough evidence; each blocked scenario costs a watchdog period
    return results


# ------------------------------------------------------------------ 3. trace validation
RESET = {"ev": "reset", "p": "", "q": 0, "ks": [], "m": ""}


def trace_cfg(p, mode):
    ready = {"complete": p["streamers"], "lossy": [],
             "mixed": [x for x in p["streamers"] if x not in p.get("stalled_mixed", [])]}[mode]
    c = consts(p, WQ=1000, MaxSeq=100000, MaxResub=100000, Ready=tla_set(ready), AllowOrphan="TRUE")
    return "SPECIFICATION TSpec\nCONSTANTS\n%s\n  SyncWriters = %s\nINVARIANTS %s\nCONSTRAINT Mark\nPOSTCONDITION Accepted\nCHECK_DEADLOCK FALSE\n" % (
        c, tla_set(w["id"] for w in p["writers"] if w["sync"]), SAFETY)


def tlc_trace(ctx, p, mode, items, tag, timeout=1800):
    """items: [(scenario, events)]. One TLC run over the concatenation.
    Returns (stats, None | (position in items, index of the unexplained event, why))."""
    lines, spans = [], []
    for scn, evs in items:
        start = len(lines) + 1
        will = [{"s": e["p"], "w": e["m"], "q": e["q"]} for e in evs if e["ev"] == "recv"]
        lines.append(json.dumps(dict(RESET, will=will)))
        lines += [json.dumps(dict(e, will=[])) for e in evs]
        spans.append((start, len(lines)))
    mod = "RelayTrace_" + tag
    d = ctx.spec_copy(AREA)
    with open(os.path.join(d, "RelayTrace.tla")) as f:
        src = f.read()
    name = "trace_%s.ndjson" % tag
    src = src.replace("MODULE RelayTrace", "MODULE " + mod).replace('"trace.ndjson"', '"%s"' % name)
    src = re.sub(r"\n=====+\s*$", lambda m: "\nMC_WKeys == %s\nMC_Auth == %s\nMC_Idx == %s\nMC_Subs == {}\nMC_OpenSubs == {}\nMC_InitConns == <<>>\nMC_InitSub == {}\n====\n" % (
        wkeys_def(p), auth_def(p), idx_def(p)), src)
    r = ctx.tlc(AREA, mod, tag + ".cfg", workers=1, timeout=timeout, tag="tv_" + tag, expect_violation=True, heap="3g", deque=True,
                files={name: "\n".join(lines) + "\n", tag + ".cfg": trace_cfg(p, mode), mod + ".tla": src})
    st = {"distinct": r.distinct, "generated": r.generated}
    hw = None
    for b in r.tagged("HW"):
        try:
            hw = int(b)
        except ValueError:
            pass
    if r.violated:
        raise vlib.Inconclusive("trace validation: invariant %s broken inside Relay itself (spec defect)" % r.violated)
    if r.rc == 0 and not r.postcondition_failed and hw is None and not r.error:
        return st, None
    if hw is None:
        raise vlib.Inconclusive("trace validation failed without verdict (rc=%s): %s" % (
            r.rc, "\n".join(list(r.lines())[-15:])))
    if hw == len(lines) + 1:
        return st, None
    for pos, (a, b) in enumerate(spans):
        if a <= hw <= b:
            return st, (pos, hw - a - 1, "unexplained event")
    raise vlib.Inconclusive("cannot locate rejected event %s" % hw)


def validate(ctx, p, mode, items, tag, stop_after=4, chunk=60):
    """Validates all items. First in large concatenations (depth-first, stops at the first complete
    explanation: fast when everything is accepted); a concatenation that is rejected or does not finish
    is re-validated scenario by scenario (a rejection needs the exhaustive search of that scenario only).
    Returns (stats, [(scenario, events, idx)])."""
    from concurrent.futures import ThreadPoolExecutor
    stats = {"distinct": 0, "generated": 0, "accepted": 0}
    rejected = []
    singles = []
    for k in range(0, len(items), chunk):
        cur = items[k:k + chunk]
        try:
            st, bad = tlc_trace(ctx, p, mode, cur, "%s_%d" % (tag, k), timeout=240 if len(cur) > 1 else 1800)
        except vlib.Inconclusive as e:
            if "TLC timeout" not in str(e):
                raise
            singles += cur
            continue
        stats["distinct"] += st["distinct"]
        stats["generated"] += st["generated"]
        if bad is None:
            stats["accepted"] += len(cur)
        elif len(cur) == 1:
            rejected.append((cur[0][0], cur[0][1], bad[1]))
        else:
            singles += cur

    def one(a):
        n, it = a
        try:
            return it, tlc_trace(ctx, p, mode, [it], "%s_s%d" % (tag, n), timeout=SINGLE_TIMEOUT)
        except vlib.Inconclusive as e:
            if "TLC timeout" not in str(e):
                raise
            return it, ({"distinct": 0, "generated": 0}, "undecided")

    todo = list(enumerate(singles))
    while todo and len([r for r in rejected if classify(p, mode, r[1], r[2])[0]]) < stop_after:
        batch, todo = todo[:6], todo[6:]
        with ThreadPoolExecutor(max_workers=6) as ex:
            for it, (st, bad) in ex.map(one, batch):
                stats["distinct"] += st["distinct"]
                stats["generated"] += st["generated"]
                if bad is None:
                    stats["accepted"] += 1
                elif bad == "undecided":
                    # the depth-first search did not find an explanation nor exhaust the alternatives in
                    # time: no verdict about this trace (counted, never reported)
                    stats["undecided"] = stats.get("undecided", 0) + 1
                else:
                    rejected.append((it[0], it[1], bad[1]))
    return stats, rejected


# ------------------------------------------------------------------ classification
def classify(p, mode, evs, idx):
    """Which clause of C20's statement do the recorded events contradict? Works on the log alone,
    using call/return windows (an effect lies between the log entries of its call and return).
    Returns (class, text) - class None when no clause of the statement is contradicted."""
    W = {w["id"]: w for w in p["writers"]}
    pos = {}         # (w, q) -> [call idx, ret idx]
    wopen = {w["id"]: (-1 if not w["late"] else None) for w in p["writers"]}   # idx of wopen.ret
    wclose = {}      # w -> idx of wclose.call
    subs = {}        # s -> [(call idx, ret idx, set)]
    sopen_ret, sclose_call = {}, {}
    for i, e in enumerate(evs):
        ev, pr = e["ev"], e["p"]
        if ev == "wcall":
            pos[(pr, e["q"])] = [i, None]
        elif ev == "wret":
            pos[(pr, e["q"])][1] = i
        elif ev == "wopen.ret":
            wopen[pr] = i
        elif ev == "wclose.call":
            wclose[pr] = i
        elif ev == "sopen.call":
            subs[pr] = [[i, None, set(e["ks"])]]
        elif ev == "sopen.ret":
            subs[pr][0][1] = i
            sopen_ret[pr] = i
        elif ev == "ssub.call":
            subs[pr].append([i, None, set(e["ks"])])
        elif ev == "ssub.ret":
            subs[pr][-1][1] = i
        elif ev == "sclose.call":
            sclose_call[pr] = i
    INF = 10 ** 9

    def surely_unauth(w, k, a, b):
        """another writer with more authority on k was open during the whole window [a, b]"""
        for o in W.values():
            if o["id"] == w or k not in o["keys"] or o["auth"].get(k, 0) <= W[w]["auth"].get(k, 0):
                continue
            if wopen[o["id"]] is not None and wopen[o["id"]] < a and wclose.get(o["id"], INF) > b:
                return True
        return False

    index_of = {k["id"]: k.get("index") for k in p["keys"]}

    def maybe_unauth(w, k, a, b):
        # a writer that writes the group's index and loses it streams none of the group
        i = index_of.get(k)
        if i and i in W[w]["keys"] and maybe_unauth(w, i, a, b):
            return True
        for o in W.values():
            if o["id"] == w or k not in o["keys"] or o["auth"].get(k, 0) <= W[w]["auth"].get(k, 0):
                continue
            first = [i for i, e in enumerate(evs) if e["ev"] == "wopen.call" and e["p"] == o["id"]]
            ocall = -1 if not o["late"] else (first[0] if first else INF)
            cret = [i for i, e in enumerate(evs) if e["ev"] == "wclose.ret" and e["p"] == o["id"]]
            if ocall < b and (cret[0] if cret else INF) > a:
                return True
        return False

    def subs_possible(s, a, b):
        """subscriptions of s that may have been in force at some moment of [a, b]"""
        out = []
        ss = subs.get(s, [])
        for j, (c, r, K) in enumerate(ss):
            nxt_ret = ss[j + 1][1] if j + 1 < len(ss) and ss[j + 1][1] is not None else INF
            if c <= b and nxt_ret > a:     # applied at or after its call; replaced at or before next ret
                out.append(K)
        return out

    seen, last = {}, {}
    for i, e in enumerate(evs[:idx + 1]):
        if e["ev"] != "recv":
            continue
        s, q, ks = e["p"], e["q"], e["ks"]
        if e["m"].startswith("corrupt:"):
            return "corrupt-frame", "streamer %s read a malformed frame: %s" % (s, e["m"][8:])
        w = e["m"]
        if (w, q) not in pos or pos[(w, q)][0] > i:
            return "unwritten-frame", "streamer %s read frame (%s,%d) which had not been written" % (s, w, q)
        if (s, w, q) in seen:
            return "duplicate", "streamer %s read frame (%s,%d) twice" % (s, w, q)
        seen[(s, w, q)] = i
        if last.get((s, w), 0) > q:
            return "reorder", "streamer %s read frame (%s,%d) after (%s,%d)" % (s, w, q, w, last[(s, w)])
        last[(s, w)] = q
        a, b = pos[(w, q)][0], pos[(w, q)][1] if pos[(w, q)][1] is not None else i
        if not W[w]["sync"]:
            b = i    # a non-Sync Write returns before the frame is processed
        for k in ks:
            if k not in W[w]["keys"]:
                return "foreign-series", "frame (%s,%d) at %s carries channel %s the writer never wrote" % (w, q, s, k)
            if surely_unauth(w, k, a, b):
                return "unauthorized-series", "streamer %s read channel %s of frame (%s,%d) although %s was not authorized on it" % (s, k, w, q, w)
            poss = subs_possible(s, a, i)
            if not any(k in K for K in poss):
                return "unsubscribed-series", "streamer %s read channel %s of frame (%s,%d); its subscriptions since that write: %s" % (
                    s, k, w, q, [sorted(K) for K in poss])
        poss = subs_possible(s, a, i)
        for k in W[w]["keys"]:
            if k not in ks and not maybe_unauth(w, k, a, b) and poss and all(k in K for K in poss):
                return "missing-series", "frame (%s,%d) reached %s without its channel %s (subscribed and authorized)" % (w, q, s, k)
    if mode in ("complete", "mixed"):
        not_ready = set(p.get("stalled_mixed", [])) if mode == "mixed" else set()
        for Q, e in enumerate(evs[:idx + 1]):
            if e["ev"] != "quiesce":
                continue
            for s in subs:
                if s in not_ready or s not in sopen_ret or sclose_call.get(s, INF) < Q:
                    continue
                for (w, q), (a, b) in pos.items():
                    if a < sopen_ret[s] or b is None or b > Q:
                        continue
                    poss = subs_possible(s, a, Q)
                    must = [k for k in W[w]["keys"] if not maybe_unauth(w, k, a, b) and poss and all(k in K for K in poss)]
                    if must and not (seen.get((s, w, q), INF) < Q):
                        if any(x["ev"] == "recv" and x["p"] == s and x["m"] == w and x["q"] == q for x in evs[Q:]):
                            # read after the fence of ANOTHER writer: an order the statement does not fix
                            return None, "frame (%s,%d) reached %s after the fence frame written later by another writer" % (w, q, s)
                        return "lost-frame", ("always-ready streamer %s never read frame (%s,%d) (channels %s subscribed "
                                              "and authorized) although the relay had drained" % (s, w, q, must))
    return None, "event #%d %s is not explained by Relay.tla" % (idx, json.dumps(evs[idx]) if 0 <= idx < len(evs) else "?")


def blocked_signature(mode, res):
    """A call that did not return although the process kept being scheduled."""
    stuck = [s for s in res.get("stuck", []) if s["healthy"]]
    ops = [s["op"] for s in stuck]
    pend = " ".join(res.get("pending", []))
    wblocked = any(o in ("write", "wclose", "wopen", "flush", "fencewrite", "probewrite") for o in ops) or \
        re.search(r":(write|wclose|wopen|flush|fencewrite|probewrite) ", pend)
    ctxops = sorted(set(o for o in ops if o in ("sopen", "ssub", "sclose", "dbclose")) |
                    set(m.group(1) for m in re.finditer(r":(sopen|ssub|sclose|dbclose) ", pend)))
    if wblocked:
        return "C20 %s writer-blocked while %s" % (mode, "+".join(ctxops) or "streaming"), True
    if "fence" in ops:
        return "C20 %s lost-frame fence never reached an always-ready streamer" % mode, True
    return "C20 %s streamer-call-blocked %s (writers unaffected)" % (mode, "+".join(ctxops)), False


# ------------------------------------------------------------------ run
def one_config(ctx, p, mode, scripts, rnd, tag, race, cov, forced=()):
    import time
    scenarios = [{"i": i, "script": sc} for i, sc in enumerate(
        list(forced) + [decorate(s, rnd, mode, p) for s in scripts])]
    t_h = time.time()
    results = run_harness(ctx, p, mode, scenarios, tag, race=race)
    t_h = time.time() - t_h
    items, errors, blocked, err_items = [], [], [], []
    for scn in scenarios:
        r = results.get(scn["i"])
        if r is None:
            continue
        for k, v in (r.get("stats") or {}).items():
            cov["mech"][k] = cov["mech"].get(k, 0) + v
        for k, v in (r.get("max_call_us") or {}).items():
            cov["max_call_us"][k] = max(cov["max_call_us"].get(k, 0), v)
        if r["status"] == "ok" and mode == "mixed" and r.get("jitter", 0) > 0:
            # the scheduler paused longer than a fraction of the short timeout: a ready consumer may
            # legitimately have been timed out; no verdict from this scenario
            cov["jittery"] = cov.get("jittery", 0) + 1
        elif r["status"] == "ok":
            items.append((scn, r["events"]))
        elif r["status"] == "starved":
            raise vlib.Inconclusive("the harness process was starved (heartbeat stalled) in %s/%s scenario %d: %s" % (
                p["name"], mode, scn["i"], r.get("stuck")))
        elif r["status"] == "error":
            # an error the scripts do not expect: recorded, the other scenarios go on; what this one
            # logged is still looked at by the log-level oracle (its trace is not a clean run of the model)
            errors.append((scn, r))
            err_items.append((scn, r["events"]))
        elif r["status"] == "blocked":
            blocked.append((scn, r))
    if mode == "mixed" and len(items) < max(3, len(scenarios) // 3) and not blocked:
        raise vlib.Inconclusive("mixed configuration: only %d of %d scenarios ran without a scheduling gap > 25 ms "
                                "(machine too loaded to judge completeness under a %d ms timeout)" % (
                                    len(items), len(scenarios), MIXED_TIMEOUT_MS))
    # a scenario in which a WRITER was blocked is what the statement speaks about: look at those first
    blocked.sort(key=lambda x: not blocked_signature(mode, x[1])[1])
    nwb = len([1 for _, r in blocked if blocked_signature(mode, r)[1]])
    for scn, r in blocked[:1]:
        handle_blocked(ctx, p, mode, scn, r, race, independent=nwb >= 2)
    if cov["mech"].get("group_mismatch"):
        raise vlib.Inconclusive("StreamerResponse.Group differs from the writer's control group (pinned beyond the property)")
    t_v = time.time()
    # the log-level oracle first: scenarios it already finds contradictory are confirmed by TLC one by
    # one (a failing tree is reported quickly); otherwise everything goes through TLC
    suspects = [it for it in err_items + items if classify(p, mode, it[1], len(it[1]) - 1)[0]]
    if suspects:
        stats, rejected = validate(ctx, p, mode, suspects[:3], tag + "_sus", chunk=1)
        if not rejected:
            raise vlib.Inconclusive("oracle disagreement: RelayTrace accepted a trace in which %s (%s/%s)" % (
                classify(p, mode, suspects[0][1], len(suspects[0][1]) - 1)[1], p["name"], mode))
    else:
        stats, rejected = validate(ctx, p, mode, items, tag)
    t_v = time.time() - t_v
    if not rejected:
        for scn, evs in items:
            cls, text = classify(p, mode, evs, len(evs) - 1)
            if cls:
                raise vlib.Inconclusive("oracle disagreement: RelayTrace accepted a trace in which %s (%s/%s scenario %d)" % (
                    text, p["name"], mode, scn["i"]))
    cov["tv_states"] += stats["distinct"]
    cov["tv_transitions"] += stats["generated"]
    cov["accepted"] += stats["accepted"]
    cov["undecided"] = cov.get("undecided", 0) + stats.get("undecided", 0)
    cov["by_config"]["%s/%s" % (p["name"], mode)] = {"scenarios": len(scenarios), "accepted": stats["accepted"],
                                                     "rejected": len(rejected), "harness_s": round(t_h, 1),
                                                     "tlc_s": round(t_v, 1), "tlc_states": stats["distinct"]}
    if items and len(cov["samples"]) < 3:
        scn, evs = items[len(items) // 2]
        cov["samples"].append({"config": "%s/%s" % (p["name"], mode), "script": [
            "%s(%s%s)" % (o["a"], o["p"], (":" + "+".join(o["ks"])) if o["ks"] else "") for o in scn["script"]],
            "events": len(evs)})
    # how many scenarios of this configuration show each class (the log-level oracle needs no TLC)
    seen_classes = {}
    for scn, evs in items + err_items:
        c = classify(p, mode, evs, len(evs) - 1)[0]
        if c:
            seen_classes[c] = seen_classes.get(c, 0) + 1
    handle_rejections(ctx, p, mode, rejected, race, seen_classes)
    for scn, r in errors[:3]:
        # a violation anywhere in the run beats this; otherwise the run ends inconclusive (run())
        cov.setdefault("errors", []).append("%s/%s scenario %d: %s" % (p["name"], mode, scn["i"], (r.get("detail") or "")[:400]))
    cov["error_scenarios"] = cov.get("error_scenarios", 0) + len(errors)


def rerun(ctx, p, mode, scn, n, tag, race):
    scs = [{"i": k, "script": scn["script"]} for k in range(n)]
    return run_harness(ctx, p, mode, scs, tag, race=race, workers=2)


def handle_rejections(ctx, p, mode, rejected, race, seen_classes=None):
    """Rejected traces whose events contradict a clause of the statement (classify) are re-executed
    and reported when the contradiction shows again; rejections that contradict only what Relay.tla
    pins beyond the statement (e.g. the moment a re-subscription takes effect) are drift."""
    if not rejected:
        return
    def cl(evs, idx):
        c = classify(p, mode, evs, idx)
        # the first event TLC cannot explain may precede the event that contradicts the statement
        return c if c[0] else (classify(p, mode, evs, len(evs) - 1) if classify(p, mode, evs, len(evs) - 1)[0] else c)
    classified = [(scn, evs, idx) + cl(evs, idx) for scn, evs, idx in rejected]
    clear = [c for c in classified if c[3]]
    if not clear:
        scn, evs, idx, _, text = classified[0]
        fn = ctx.save_replay({"profile": p, "mode": mode, "script": scn["script"], "events": evs,
                              "unexplained_event": idx, "drift": True}, name="drift-%s-%d.json" % (ctx.tier, ctx.seed))
        # decided at the end of the run: another configuration may show a clear contradiction
        ctx.notes.append("DRIFT %s/%s: %s (no clause of the statement contradicted); %s" % (p["name"], mode, text, fn))
        return
    done = {}
    for scn, evs, idx, cls, text in clear:
        if done.get(cls, 0) >= 2 or any(v[0] == "C20 %s %s" % (mode, cls) for v in ctx.violations) or len(ctx.violations) >= 2:
            continue
        done[cls] = done.get(cls, 0) + 1
        # reproduced = the same contradiction in a second, independent scenario of this run, or in a
        # re-execution of the same script from scratch (a racy defect needs the schedule again)
        hits = 1 if (seen_classes or {}).get(cls, 0) >= 2 else 0
        items = []
        if not hits:
            res = rerun(ctx, p, mode, scn, NREP, "repro", race)
            items = [(scn, r["events"]) for r in res.values() if r["status"] in ("ok", "error")]
            # the statement-level oracle alone decides most classes from the log; TLC only where it does not
            hits = sum(1 for it in items if classify(p, mode, it[1], len(it[1]) - 1)[0] == cls)
        for k, it in enumerate(items if not hits else []):
            st, bad = tlc_trace(ctx, p, mode, [it], "repro_%d" % k, timeout=1800)
            if bad and classify(p, mode, it[1], bad[1])[0] == cls:
                hits += 1
                break
        if not hits:
            ctx.notes.append("%s (%s/%s) did not reproduce in %d re-executions: %s" % (cls, p["name"], mode, NREP, text))
            continue
        ctx.report("C20 %s %s" % (mode, cls), "%s configuration, cast %s: %s" % (mode, p["name"], text),
                   {"profile": p, "mode": mode, "script": scn["script"], "events": evs, "unexplained_event": idx,
                    "reproduced": True, "cmd": "python3 tools/verif.py replay C20 <this file>"})


def unreproduced(ctx):
    if ctx.notes and not ctx.violations:
        raise vlib.Inconclusive("rejected traces without a reproduced contradiction of the statement: " + "; ".join(ctx.notes[:3]))


def handle_blocked(ctx, p, mode, scn, r, race, independent=False):
    """Reproduction: a second, independent scenario of this run in which a writer was blocked as well,
    or the same script blocking again in one of several re-executions (the blockage needs a frame in
    flight at the wrong moment)."""
    sig, is_writer = blocked_signature(mode, r)
    again = independent
    if not again:
        res = rerun(ctx, p, mode, scn, 10, "reblk", race)
        again = [x for x in res.values() if x["status"] == "blocked"]
        if any(x["status"] == "starved" for x in res.values()):
            raise vlib.Inconclusive("starved while reproducing a blocked call: %s" % r.get("stuck"))
    if not again:
        raise vlib.Inconclusive("blocked call did not reproduce (%s/%s): stuck=%s pending=%s" % (
            p["name"], mode, r.get("stuck"), r.get("pending")))
    if not is_writer and not sig.startswith("C20 %s lost-frame" % mode):
        fn = ctx.save_replay({"profile": p, "mode": mode, "script": scn["script"], "events": r.get("events"),
                              "stuck": r.get("stuck"), "pending": r.get("pending"), "goroutines": r.get("stacks"),
                              "drift": True}, name="drift-blocked-%s-%d.json" % (ctx.tier, ctx.seed))
        raise vlib.Inconclusive("DRIFT %s; stuck=%s pending=%s; %s" % (sig, r.get("stuck"), r.get("pending"), fn))
    ctx.report(sig, "%s configuration, cast %s: calls that never returned although the process kept running: %s (watchdog %d s, heartbeat healthy)" % (
        mode, p["name"], ", ".join(r.get("pending", [])) or r.get("stuck"), WATCHDOG_MS // 1000),
        {"profile": p, "mode": mode, "script": scn["script"], "events": r.get("events"), "stuck": r.get("stuck"),
         "pending": r.get("pending"), "goroutines": r.get("stacks"),
         "cmd": "python3 tools/verif.py replay C20 <this file>"})


def probe(ctx, p, cov):
    r = run_harness(ctx, p, "complete", [], "probe", probe=True)
    cov["probe_dbclose_open_writer"] = {"status": r["status"], "detail": r.get("detail"), "stats": r.get("stats")}
    if r["status"] == "starved":
        raise vlib.Inconclusive("starved during the DB.Close probe")
    if r["status"] == "blocked":
        if "did not return" in (r.get("detail") or "") and "DB.Close" in r["detail"]:
            sig = "C20 dbclose open-writer dbclose-blocked"
        else:
            sig = "C20 dbclose open-writer write-blocked-forever"
        ctx.report(sig, "DB.Close while stream-mode writer is open: %s" % r.get("detail"),
                   {"probe": "dbclose-open-writer", "result": r, "profile": p})


def run(ctx):
    thorough = ctx.tier == "thorough"
    rnd = random.Random(ctx.seed)
    states, trans, runs = design(ctx, thorough)
    cov = {"mech": {}, "max_call_us": {}, "tv_states": 0, "tv_transitions": 0, "accepted": 0, "by_config": {},
           "samples": []}
    n = 500 if thorough else 120
    n_mixed = 150 if thorough else 40
    for p in profiles(thorough):
        scripts = gen_scripts(ctx, p, n, "g_" + p["name"])
        if len(scripts) < n // 3:
            raise vlib.Inconclusive("only %d scripts generated for cast %s" % (len(scripts), p["name"]))
        scripts = vlib.sample(scripts, n if thorough else p.get("n_quick", n), ctx.seed)
        for mode in ("complete", "lossy", "mixed"):
            if mode == "mixed" and not p.get("stalled_mixed"):
                continue
            if mode not in p.get("only_modes", ("complete", "lossy", "mixed")):
                continue
            sc = scripts
            if mode == "mixed":
                # scripts in which both stall-class streamers get opened, with writes left to stall
                sc = [h for h in scripts if len({o["p"] for o in h if o["a"] == "sopen" and o["p"] in p["stalled_mixed"]}) >= 2
                      and any(o["a"] == "sopen" and o["p"] not in p["stalled_mixed"] for o in h)]
                sc = sc[:n_mixed]
            if not ctx.violations:   # a violating tree is reported at the first configuration that shows it
                one_config(ctx, p, mode, sc, rnd, "%s_%s" % (p["name"], mode[0]), thorough, cov,
                           forced=forced_scripts(p) if mode == "complete" else ())
    unreproduced(ctx)
    if cov.get("errors") and not ctx.violations:
        raise vlib.Inconclusive("cesium returned errors the scripts do not expect in %d scenario(s) and nothing else "
                                "contradicted the statement: %s" % (cov["error_scenarios"], "; ".join(cov["errors"][:2])))
    probe(ctx, profiles(False)[0], cov)
    m = cov["mech"]
    need = ["writes", "recv", "sopen", "ssub", "sclose_graceful", "sclose_cancel", "quiesce", "unauthorized_writes", "stall", "ssub_none"]
    missing = [k for k in need if not m.get(k)]
    if missing and not ctx.violations:
        raise vlib.Inconclusive("mechanisms never exercised: %s" % missing)
    total = sum(c["scenarios"] for c in cov["by_config"].values())
    if cov.get("undecided", 0) > max(3, total // 50) and not ctx.violations:
        raise vlib.Inconclusive("%d of %d traces could not be decided by TLC within %d s each" % (
            cov["undecided"], total, SINGLE_TIMEOUT))
    coverage = {
        "states": states, "transitions": trans,
        "traces_validated_against_impl": cov["accepted"],
        "samples": cov["samples"], "exhaustive": False,
        "design_runs": runs,
        "trace_validation": {"states": cov["tv_states"], "transitions": cov["tv_transitions"], "scenarios": total, "undecided": cov.get("undecided", 0), "jittery_set_aside": cov.get("jittery", 0),
                             "by_config": cov["by_config"]},
        "mechanisms": m, "max_call_us": cov["max_call_us"],
        "probe_dbclose_open_writer": cov.get("probe_dbclose_open_writer"),
        "race_detector": thorough,
        "observations": [
            "a streamer still open at DB.Close busy-spins on its closed relay outlet and its later close "
            "(inlet close or context cancel) blocks forever in delta.Disconnect (%d streamers orphaned in this run); "
            "not part of C20's statement (no writer is affected)" % m.get("orphaned", 0)],
        "rule": "Relay.tla design runs exhaustive for the listed small casts; %d TLC-simulated call orders per cast "
                "executed on a real cesium.DB in the complete and the lossy configuration, every recorded trace "
                "validated against RelayTrace.tla" % n,
    }
    return ctx.finish("model_checking", coverage, [
        "TLC/SANY 1.8.0, Go toolchain%s; harness projection: value identities (writer, seq, channel) in the samples" % (
            " + race detector" if thorough else ""),
        "who is authorized is C05's rule (strictly higher authority of another open writer excludes); equal authorities unused; "
        "per-channel authorities only on virtual channels (an indexed group is written with one authority)",
        "DB.Close is called after every writer was closed and no other call is in flight (db.go's contract); "
        "the contrary case is the directed probe",
        "quiescence in the complete configuration is observed through a fence frame of a dedicated writer "
        "(relies on the relay inlet being FIFO across writers, which the property does not state)",
        "complete configuration: SlowConsumerTimeout %d s > watchdog %d s, so a relay waiting on an unserved "
        "outlet shows as blocked; starvation is told apart by a 1 ms heartbeat goroutine" % (
            COMPLETE_TIMEOUT_MS // 1000, WATCHDOG_MS // 1000),
    ])


def replay(ctx, path):
    with open(path) as f:
        obj = json.load(f)
    p = obj["profile"]
    if obj.get("probe"):
        cov = {}
        probe(ctx, p, cov)
        print(json.dumps(cov))
        return 1 if (ctx.violations or ctx.known_hits) else 0
    mode = obj["mode"]
    scn = {"i": 0, "script": obj["script"]}
    res = rerun(ctx, p, mode, scn, NREP, "replay", False)
    blocked = [r for r in res.values() if r["status"] == "blocked"]
    if blocked:
        print("VIOLATION property=C20 replay=%s" % path)
        print("  %s: %s" % (blocked_signature(mode, blocked[0])[0], blocked[0].get("pending")))
        return 1
    items = [(scn, r["events"]) for r in res.values() if r["status"] == "ok"]
    _, rej = validate(ctx, p, mode, items, "replay", chunk=1)
    for _, evs, idx in rej:
        cls, text = classify(p, mode, evs, idx)
        if cls:
            print("VIOLATION property=C20 replay=%s" % path)
            print("  " + text)
            return 1
    print("replay: %d executions of the script accepted on the current tree" % len(items))
    return 0


def selftest(ctx):
    """Binding self-test: genuine traces are accepted; the same traces with one observation corrupted
    (duplicate, reorder, extra series, dropped frame before a quiesce) are rejected."""
    p = profiles(False)[0]
    rnd = random.Random(7)
    scripts = gen_scripts(ctx, p, 20, "self")[:8]
    scenarios = [{"i": i, "script": decorate(s, rnd, "complete", p)} for i, s in enumerate(scripts)]
    res = run_harness(ctx, p, "complete", scenarios, "self")
    items = [(s, res[s["i"]]["events"]) for s in scenarios if res[s["i"]]["status"] == "ok"]
    _, rej = validate(ctx, p, "complete", items, "self_ok")
    if rej:
        print("selftest: genuine trace rejected")
        return 1
    bad = 0
    for scn, evs in items:
        rec = [i for i, e in enumerate(evs) if e["ev"] == "recv"]
        if len(rec) < 2:
            continue
        variants = {}
        v = copy.deepcopy(evs); v.insert(rec[0] + 1, dict(v[rec[0]])); variants["duplicate"] = v
        v = copy.deepcopy(evs); v[rec[0]]["ks"] = sorted(set(v[rec[0]]["ks"]) | {"k1", "k2"}) + ["k9"]; variants["extra series"] = v
        v = copy.deepcopy(evs); del v[rec[0]]; variants["dropped"] = v
        for name, v in variants.items():
            _, rej = validate(ctx, p, "complete", [(scn, v)], "self_" + name.split()[0])
            if not rej:
                print("selftest: corrupted trace (%s) was accepted" % name)
                bad += 1
        break
    print("selftest: %s" % ("ok" if not bad else "FAILED"))
    return 1 if bad else 0
