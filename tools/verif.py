#!/usr/bin/env python3
"""Driver: python3 tools/verif.py check <ID> [--tier quick|thorough] [--seed N]
           python3 tools/verif.py replay <ID> <path>
           python3 tools/verif.py selftest <ID>
"""
import argparse
import importlib
import os
import sys
import traceback

sys.path.insert(0, os.path.dirname(os.path.abspath(__file__)))
sys.path.insert(0, os.path.join(os.path.dirname(os.path.abspath(__file__)), "props"))
import vlib  # noqa: E402


def cleanup(ctx):
    """Scratch build directories can hold gigabytes of generated behaviours: never leave one behind
    (set VERIF_KEEP=1 to keep it for debugging)."""
    import os
    import shutil
    if not os.environ.get("VERIF_KEEP"):
        shutil.rmtree(ctx.build, ignore_errors=True)


def main():
    ap = argparse.ArgumentParser()
    ap.add_argument("cmd", choices=["check", "replay", "selftest"])
    ap.add_argument("pid")
    ap.add_argument("path", nargs="?")
    ap.add_argument("--tier", default=os.environ.get("VERIF_TIER", "quick"))
    ap.add_argument("--seed", type=int, default=int(os.environ.get("VERIF_SEED", "1") or 1))
    a = ap.parse_args()
    if a.tier not in ("quick", "thorough"):
        a.tier = "quick"
    mod = importlib.import_module("props." + a.pid.lower())
    ctx = vlib.Ctx(a.pid, a.tier, a.seed, replay_path=a.path if a.cmd == "replay" else None,
                   selftest=(a.cmd == "selftest"))
    try:
        if a.cmd == "selftest":
            rc = mod.selftest(ctx)
        elif a.cmd == "replay":
            rc = mod.replay(ctx, a.path)
        else:
            rc = mod.run(ctx)
    except vlib.Inconclusive as e:
        print("INCONCLUSIVE property=%s: %s" % (a.pid, e))
        cleanup(ctx)
        sys.exit(2)
    except Exception:
        traceback.print_exc()
        print("INCONCLUSIVE property=%s: driver error" % a.pid)
        cleanup(ctx)
        sys.exit(2)
    cleanup(ctx)
    sys.exit(rc)


if __name__ == "__main__":
    main()
