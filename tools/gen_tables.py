#!/usr/bin/env python3
"""Render the findings table (known_findings.json), the seeded-changes table
(seeded/*/meta.json) and the per-check evidence summary (evidence/*.json) as markdown.
Used to refresh DESIGN.md section 8."""
import glob
import json
import os

V = os.path.dirname(os.path.dirname(os.path.abspath(__file__)))


def findings():
    d = json.load(open(os.path.join(V, "known_findings.json")))
    out = ["| id | property | status | what |", "|---|---|---|---|"]
    for e in sorted(d["findings"], key=lambda x: (x["property"], x["id"])):
        st = e["status"] + (" " + e.get("commit", "") if e["status"] == "fixed" else "")
        what = e["what"].replace("|", "/")
        if what.startswith("fixed: "):
            what = what.split(" ", 3)[-1]
        out.append("| %s | %s | %s | %s |" % (e["id"], e["property"], st, what[:260]))
    return "\n".join(out)


def seeded():
    out = ["| seed | property | needs to manifest | detected | by / notes |", "|---|---|---|---|---|"]
    for m in sorted(glob.glob(os.path.join(V, "seeded", "*", "meta.json"))):
        e = json.load(open(m))
        name = os.path.basename(os.path.dirname(m))
        out.append("| %s | %s | %s | %s | %s |" % (name, e["property"], e["needs_to_manifest"].replace("|", "/")[:200],
                                               "yes" if e["detected"] else ("obsolete" if e.get("obsolete") else "NO"), (e.get("notes") or "").replace("|", "/")[:420]))
    return "\n".join(out)


def evidence():
    out = ["| check | level | tier | wall s | TLC distinct / generated | behaviours replayed or traces validated | evaluations |", "|---|---|---|---|---|---|---|"]
    for f in sorted(glob.glob(os.path.join(V, "evidence", "C*.json"))):
        e = json.load(open(f))
        c = e["coverage"]
        out.append("| %s | %s | %s | %s | %s / %s | %s | %s |" % (e["property_id"], e["level"], e["tier"], e["wall_s"], c.get("states", "-"),
                                                            c.get("transitions", "-"), c.get("traces_validated_against_impl", "-"), c.get("evaluations", "-")))
    return "\n".join(out)


if __name__ == "__main__":
    print("### Findings\n\n" + findings() + "\n\n### Seeded changes\n\n" + seeded() + "\n\n### Evidence of the last quick runs\n\n" + evidence())
