#!/bin/sh
# Offline setup: nothing to build ahead of time (checks rebuild from /repo's working
# tree on every run). Syntax-check every specification with SANY and warm the Go build
# cache for the modules the harnesses are injected into. Never fails on cache warming.
cd "$(dirname "$0")/.." || exit 1
mkdir -p build evidence replay
fail=0
for f in $(find spec -name '*.tla'); do
  d=$(dirname "$f"); b=$(basename "$f")
  tmp=build/sany.$$; rm -rf $tmp; mkdir -p $tmp; cp $d/*.tla $tmp/ 2>/dev/null; cp spec/common/*.tla $tmp/ 2>/dev/null
  if ! (cd $tmp && java -cp /opt/veriftools/tla/tla2tools.jar:/opt/veriftools/tla/CommunityModules-deps.jar tla2sany.SANY "$b" >sany.out 2>&1); then
    if grep -q "Could not find module\|trace.ndjson" $tmp/sany.out; then :; else echo "SANY failed: $f"; cat $tmp/sany.out | tail -5; fail=1; fi
  fi
  rm -rf $tmp
done
unset GOTOOLCHAIN GOSUMDB
export GOFLAGS=-mod=mod GOPROXY=off
for m in cesium aspen x/go freighter/go core; do
  (cd /repo/$m && go test -tags verif -vet=off -count=1 -run '^$' ./... >/dev/null 2>&1) || true
done
exit $fail
