"""Common machinery for the /verif checks (see DESIGN.md section 2).

Every property module in tools/props/<id>.py exposes `run(ctx)`; `ctx` is a Ctx
instance providing: TLC runs (exhaustive / history generation / trace validation),
overlay-injected `go test` runs against /repo's working tree, evidence writing,
violation / known-finding reporting.

Exit codes: 0 held, 1 violation (real code contradicts the property), 2 inconclusive
(timeouts, build failure, model drift, dead driver) - never reported as a violation.
"""
import json
import os
import re
import shutil
import subprocess
import sys
import time

VERIF = os.path.dirname(os.path.dirname(os.path.abspath(__file__)))
REPO = os.environ.get("VERIF_REPO", "/repo")
TLA_JAR = "/opt/veriftools/tla/tla2tools.jar"
TLA_CP = TLA_JAR + ":/opt/veriftools/tla/CommunityModules-deps.jar"
NCPU = os.cpu_count() or 4


class Inconclusive(Exception):
    pass


class Violation(Exception):
    def __init__(self, what, replay=None):
        super().__init__(what)
        self.what = what
        self.replay = replay


def go_env():
    env = dict(os.environ)
    # default `go` auto-switches to the cached go1.26.3 the repo modules need;
    # GOTOOLCHAIN=local / GOSUMDB=off break that switch in this sandbox.
    env.pop("GOTOOLCHAIN", None)
    env.pop("GOSUMDB", None)
    env["GOFLAGS"] = "-mod=mod"
    env["GOPROXY"] = "off"
    return env


class TLCResult:
    def __init__(self):
        self.rc = None
        self.generated = 0
        self.distinct = 0
        self.depth = 0
        self.out_path = None
        self.violated = None      # name of violated invariant/property, if any
        self.error = None         # other TLC error text
        self.wall = 0.0
        self.coverage_zero = []   # actions with 0 count when -coverage used
        self.postcondition_failed = False

    def lines(self):
        with open(self.out_path, "r", errors="replace") as f:
            for ln in f:
                yield ln.rstrip("\n")

    def hists(self):
        """Yield decoded JSON values printed as <<"HIST", "<json>">>."""
        for ln in self.lines():
            if ln.startswith('<<"HIST", '):
                body = ln[len('<<"HIST", '):]
                if body.endswith(">>"):
                    body = body[:-2]
                try:
                    s = json.loads(body)
                    yield json.loads(s)
                except Exception:
                    continue

    def tagged(self, tag):
        pre = '<<"%s", ' % tag
        for ln in self.lines():
            if ln.startswith(pre):
                body = ln[len(pre):]
                if body.endswith(">>"):
                    body = body[:-2]
                yield body


class Ctx:
    def __init__(self, pid, tier, seed, replay_path=None, selftest=False):
        self.pid = pid
        self.tier = tier
        self.seed = seed
        self.replay_path = replay_path
        self.selftest = selftest
        self.t0 = time.time()
        self.build = os.path.join(VERIF, "build", "%s.%d" % (pid, os.getpid()))
        shutil.rmtree(self.build, ignore_errors=True)
        os.makedirs(self.build)
        self.replay_dir = os.path.join(VERIF, "replay", pid)
        self.cov = {}
        self.assumptions = []
        self.violations = []
        self.known_hits = []
        self.notes = []
        self._known = load_known().get(pid, [])

    # ---------------------------------------------------------------- TLC
    def spec_copy(self, area):
        """Copy /verif/spec/<area> (and spec/common) to a scratch dir; TLC litters."""
        dst = os.path.join(self.build, "spec_" + area.replace("/", "_"))
        if not os.path.isdir(dst):
            shutil.copytree(os.path.join(VERIF, "spec", area), dst)
            common = os.path.join(VERIF, "spec", "common")
            if os.path.isdir(common):
                for f in os.listdir(common):
                    if not os.path.exists(os.path.join(dst, f)):
                        shutil.copy(os.path.join(common, f), dst)
        return dst

    def tlc(self, area, module, cfg, workers=None, timeout=900, simulate=None,
            depth=None, coverage=False, deque=False, extra=None, tag="tlc",
            files=None, heap=None, expect_violation=False):
        """Run TLC. `files`: dict name->content written into the scratch spec dir
        (e.g. trace.ndjson, generated cfg). Returns TLCResult."""
        d = self.spec_copy(area)
        for name, content in (files or {}).items():
            with open(os.path.join(d, name), "w") as f:
                f.write(content)
        meta = os.path.join(self.build, "meta_%s_%d" % (tag, int(time.time() * 1000) % 10**9))
        out = os.path.join(self.build, "%s.out" % tag)
        if workers is None:
            workers = NCPU
        jopts = ["-XX:+UseParallelGC", "-Xss64m"]
        if heap:
            jopts.append("-Xmx%s" % heap)
        if deque:
            jopts.append("-Dtlc2.tool.queue.IStateQueue=StateDeque")
        cmd = ["java"] + jopts + ["-cp", TLA_CP, "tlc2.TLC", "-metadir", meta,
                                  "-workers", str(workers), "-config", cfg]
        if simulate:
            cmd += ["-simulate", simulate]
            if depth:
                cmd += ["-depth", str(depth)]
            cmd += ["-seed", str(self.seed)]
        if coverage:
            cmd += ["-coverage", "1"]
        cmd += ["-noGenerateSpecTE"]
        if extra:
            cmd += extra
        cmd += [module + ".tla"]
        r = TLCResult()
        r.out_path = out
        t = time.time()
        env = dict(os.environ)
        env.pop("JAVA_TOOL_OPTIONS", None)
        try:
            with open(out, "w") as fo:
                p = subprocess.run(cmd, cwd=d, stdout=fo, stderr=subprocess.STDOUT,
                                   timeout=timeout, env=env)
            r.rc = p.returncode
        except subprocess.TimeoutExpired:
            subprocess.run(["pkill", "-f", meta], check=False)
            raise Inconclusive("TLC timeout (%ss) on %s/%s %s" % (timeout, area, module, cfg))
        finally:
            shutil.rmtree(meta, ignore_errors=True)
        r.wall = time.time() - t
        err_lines = []
        for ln in r.lines():
            m = re.match(r"^(\d+) states generated, (\d+) distinct states found", ln)
            if m:
                r.generated, r.distinct = int(m.group(1)), int(m.group(2))
            m = re.match(r"^The depth of the complete state graph search is (\d+)", ln)
            if m:
                r.depth = int(m.group(1))
            m = re.match(r"^Error: Invariant (\S+) is violated", ln)
            if m:
                r.violated = m.group(1)
            m = re.match(r"^Error: Action property (\S+) is violated", ln)
            if m:
                r.violated = m.group(1)
            if ln.startswith("Error: Temporal properties were violated"):
                r.violated = r.violated or "temporal"
            if "Postcondition" in ln and "violated" in ln.lower():
                r.postcondition_failed = True
            if ln.startswith("Error:") and not r.violated and not r.postcondition_failed:
                err_lines.append(ln)
            m = re.match(r"^<(\w+) line \d+, col \d+ to line \d+, col \d+ of module \w+>: (\d+):(\d+)", ln)
            if m and coverage and m.group(2) == "0" and m.group(3) == "0":
                r.coverage_zero.append(m.group(1))
        if simulate and r.generated == 0:
            # simulation mode reports progress differently
            for ln in r.lines():
                m = re.search(r"(\d+) states checked", ln)
                if m:
                    r.generated = max(r.generated, int(m.group(1)))
        if err_lines and not r.violated and not r.postcondition_failed:
            r.error = "\n".join(err_lines[:5])
        if r.rc != 0 and not r.violated and not r.postcondition_failed and not expect_violation:
            if simulate and r.rc in (0,):
                pass
            elif r.error or r.rc not in (0,):
                # In simulate mode TLC exits 0 on num reached. Any other failure: inconclusive.
                tail = "\n".join(list(r.lines())[-25:])
                raise Inconclusive("TLC failed rc=%s on %s %s:\n%s" % (r.rc, module, cfg, tail))
        return r

    def sany(self, area, module):
        d = self.spec_copy(area)
        p = subprocess.run(["java", "-cp", TLA_CP, "tla2sany.SANY", module + ".tla"],
                           cwd=d, capture_output=True, text=True, timeout=120)
        return p.returncode == 0 and "Semantic errors" not in p.stdout, p.stdout

    # ---------------------------------------------------------------- Go
    def go_test(self, module, pkg, harness_files, run, env=None, race=False,
                timeout=1200, tags="verif", extra=None, tag="go", parallel_pkgs=False):
        """Run overlay-injected in-package tests.
        module: path under /repo of the Go module ('cesium'); pkg: package path
        relative to module ('./internal/control'); harness_files: list of files under
        /verif/harness/<module>/<pkg>/ to inject."""
        moddir = os.path.join(REPO, module)
        pk = pkg[2:] if pkg.startswith("./") else pkg
        rep = {}
        for hf in harness_files:
            src = os.path.join(VERIF, "harness", module, pk, hf)
            if not os.path.exists(src):
                raise Inconclusive("harness file missing: " + src)
            rep[os.path.join(moddir, pk, hf)] = src
        ovl = os.path.join(self.build, "overlay_%s.json" % tag)
        with open(ovl, "w") as f:
            json.dump({"Replace": rep}, f)
        cmd = ["go", "test", "-overlay", ovl, "-tags", tags, "-run", run, "-count=1",
               "-vet=off", "-timeout", "%ds" % timeout]
        if race:
            cmd.append("-race")
        if extra:
            cmd += extra
        cmd.append(pkg if pkg.startswith("./") else "./" + pkg)
        e = go_env()
        e["VERIF_SEED"] = str(self.seed)
        e["VERIF_TIER"] = self.tier
        e["VERIF_BUILD"] = self.build
        for k, v in (env or {}).items():
            e[k] = str(v)
        out = os.path.join(self.build, "%s.out" % tag)
        t = time.time()
        try:
            with open(out, "w") as fo:
                p = subprocess.run(cmd, cwd=moddir, stdout=fo, stderr=subprocess.STDOUT,
                                   timeout=timeout + 120, env=e)
        except subprocess.TimeoutExpired:
            raise Inconclusive("go test timeout: %s" % " ".join(cmd))
        wall = time.time() - t
        with open(out, errors="replace") as f:
            text = f.read()
        if "[build failed]" in text or "[setup failed]" in text or re.search(r"^# ", text, re.M) and "FAIL" in text and "--- FAIL" not in text and "panic:" not in text:
            raise Inconclusive("harness build failed (repository API changed?):\n" + text[-3000:])
        return p.returncode, text, wall

    # ---------------------------------------------------------------- results
    def read_ndjson(self, path):
        res = []
        if not os.path.exists(path):
            return res
        with open(path, errors="replace") as f:
            for ln in f:
                ln = ln.strip()
                if ln:
                    try:
                        res.append(json.loads(ln))
                    except Exception:
                        pass
        return res

    def path(self, name):
        return os.path.join(self.build, name)

    def save_replay(self, obj, name=None):
        os.makedirs(self.replay_dir, exist_ok=True)
        n = len(self.violations) + len(self.known_hits)
        fn = os.path.join(self.replay_dir, name or ("%s-%d-%d.json" % (self.tier, self.seed, n)))
        with open(fn, "w") as f:
            json.dump(obj, f, indent=1, sort_keys=True, default=str)
        return fn

    def report(self, signature, what, replay_obj):
        """Report a real-code contradiction of the property. `signature` is a stable
        structural string matched against known_findings.json entries (regex)."""
        for k in self._known:
            if k.get("status") == "known" and re.search(k["signature"], signature):
                if k["id"] not in [h[0] for h in self.known_hits]:
                    self.known_hits.append((k["id"], k["what"]))
                    # keep the first occurrence of every known finding of this run for inspection
                    self.save_replay(dict(replay_obj, signature=signature, what=what, property=self.pid, seed=self.seed,
                                          tier=self.tier, known_finding=k["id"]), name="known-%s.json" % k["id"])
                return "known"
        # one report per structural signature; at most 8 per run
        if signature in [v[0] for v in self.violations] or len(self.violations) >= 8:
            self.suppressed = getattr(self, "suppressed", 0) + 1
            return "violation"
        fn = self.save_replay(dict(replay_obj, signature=signature, what=what,
                                   property=self.pid, seed=self.seed, tier=self.tier))
        self.violations.append((signature, what, fn))
        return "violation"

    def finish(self, level, coverage, assumptions=None):
        os.makedirs(os.path.join(VERIF, "evidence"), exist_ok=True)
        cov = dict(coverage)
        cov.setdefault("known_findings_hit", [h[0] for h in self.known_hits])
        ev = {
            "property_id": self.pid,
            "tier": self.tier,
            "seed": self.seed,
            "level": level,
            "coverage": cov,
            "assumptions": (assumptions or []) + self.assumptions,
            "wall_s": round(time.time() - self.t0, 2),
            "violations": len(self.violations),
        }
        if not self.replay_path and not self.selftest:
            # extension checks (ids X..: specification growth beyond the listed properties) keep their
            # evidence apart from the per-property evidence files
            edir = "evidence_ext" if self.pid.startswith("X") else "evidence"
            os.makedirs(os.path.join(VERIF, edir), exist_ok=True)
            with open(os.path.join(VERIF, edir, self.pid + ".json"), "w") as f:
                json.dump(ev, f, indent=1, default=str)
        for kid, what in self.known_hits:
            print("KNOWN-FINDING: property=%s %s [%s]" % (self.pid, what, kid))
        for sig, what, fn in self.violations:
            print("VIOLATION property=%s replay=%s" % (self.pid, fn))
            print("  " + what)
        if not os.environ.get("VERIF_KEEP"):
            shutil.rmtree(self.build, ignore_errors=True)
        return 1 if self.violations else 0


def load_known():
    p = os.path.join(VERIF, "known_findings.json")
    if not os.path.exists(p):
        return {}
    with open(p) as f:
        data = json.load(f)
    res = {}
    for e in data.get("findings", []):
        res.setdefault(e["property"], []).append(e)
    return res


def sample(seq, n, seed):
    """Deterministic sample of n items (all if fewer)."""
    import random
    seq = list(seq)
    if len(seq) <= n:
        return seq
    rnd = random.Random(seed)
    idx = sorted(rnd.sample(range(len(seq)), n))
    return [seq[i] for i in idx]
